#!/usr/bin/env python3
"""Maintain KNOWN_FINDINGS.json.
  tools/findings.py import C03 [sig-substring ...]   # add signatures from sweeps/C03.json (all, or those matching)
  tools/findings.py list
Entries are added only by hand through this tool after triage; checks never write the file."""
import json
import os
import sys

ROOT = os.path.dirname(os.path.dirname(os.path.abspath(__file__)))
sys.path.insert(0, os.path.join(ROOT, "tools"))
PATH = os.path.join(ROOT, "KNOWN_FINDINGS.json")


def load():
    try:
        return json.load(open(PATH))
    except FileNotFoundError:
        return {"findings": [], "fixed": []}


def witness_text(detail):
    if not isinstance(detail, dict):
        return str(detail)[:300]
    parts = []
    for k in ("src", "args", "event", "text", "query", "flagged", "path", "value", "kind", "where", "error", "panic",
              "mismatch", "a", "b", "expected", "got", "result", "typedef"):
        if k in detail and detail[k] is not None:
            parts.append("%s=%s" % (k, str(detail[k]).replace("\n", " ; ")[:260]))
        if len(parts) >= 5:
            break
    return " | ".join(parts)[:900]


def save(data):
    from fixed_entries import FIXED
    data["fixed"] = ["fixed: property=%s %s %s" % f for f in FIXED]
    for e in data["findings"]:
        if not e.get("described"):
            e["what"] = ("%s fails; minimal witness: %s" % (e["signature"], witness_text(e["witness"])))[:420]
            if "corpus_indices" in e:
                e["what"] = ("%s fails on corpus/%s.jsonl inputs #%s; first witness: %s"
                             % (e["signature"], e["property"], ",".join(str(i) for i in e["corpus_indices"]),
                                witness_text(e["witness"])))[:700]
    data["findings"].sort(key=lambda e: (e["property"], e["signature"]))
    with open(PATH, "w") as f:
        json.dump(data, f, indent=1, ensure_ascii=False)


def main():
    cmd = sys.argv[1]
    data = load()
    if cmd == "import":
        prop = sys.argv[2]
        pats = sys.argv[3:]
        sweep = json.load(open(os.path.join(ROOT, "sweeps", prop + ".json")))
        have = {(e["property"], e["signature"]) for e in data["findings"]}
        n = 0
        for sig, e in sweep.items():
            if pats and not any(p in sig for p in pats):
                continue
            if "corpus_indices" in e:
                # frozen-corpus family: the entry lists the exact failing inputs (corpus indices)
                cur = next((x for x in data["findings"] if x["property"] == prop and x["signature"] == sig), None)
                if cur is None:
                    cur = {"property": prop, "signature": sig, "what": "", "witness": e["detail"], "corpus_indices": []}
                    data["findings"].append(cur)
                cur["corpus_indices"] = sorted(set(cur["corpus_indices"]) | set(e["corpus_indices"]))
                n += 1
                continue
            if (prop, sig) in have:
                continue
            data["findings"].append({"property": prop, "signature": sig,
                                     "what": witness_text(e["detail"]), "witness": e["detail"]})
            n += 1
        save(data)
        print("added", n, "entries for", prop)
    elif cmd == "add":
        # tools/findings.py add C02 <signature> <replay.json>   (witness taken from a replay file)
        prop, sig, path = sys.argv[2], sys.argv[3], sys.argv[4]
        rep = json.load(open(path))
        if not any(e["property"] == prop and e["signature"] == sig for e in data["findings"]):
            data["findings"].append({"property": prop, "signature": sig, "what": "", "witness": rep["detail"]})
        save(data)
        print("added", prop, sig)
    elif cmd == "list":
        for e in data["findings"]:
            print(e["property"], e["signature"])
    elif cmd == "save":
        save(data)


if __name__ == "__main__":
    main()
