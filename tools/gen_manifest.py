#!/usr/bin/env python3
"""Regenerate MANIFEST.json from the property modules present in vv/props.
Each module provides ID, LEVEL, and optionally LEVEL_TEXT, LEVEL_NOTE, TECHNIQUE, DESIGN_REF,
NO_THOROUGH."""
import importlib
import json
import os
import sys

ROOT = os.path.dirname(os.path.dirname(os.path.abspath(__file__)))
sys.path.insert(0, ROOT)

NOT_APPLICABLE = {
    # id -> reason (properties this family genuinely cannot decide; filled by hand)
}


READY = set(open(os.path.join(ROOT, "tools", "ready.txt")).read().split())


def main():
    ids = [json.loads(l)["id"] for l in open(os.path.join(ROOT, "properties.jsonl"))]
    checks = []
    na = []
    for pid in ids:
        path = os.path.join(ROOT, "vv", "props", pid.lower() + ".py")
        if pid in NOT_APPLICABLE:
            na.append({"property_id": pid, "reason": NOT_APPLICABLE[pid]})
            continue
        if not os.path.exists(path) or pid not in READY:
            na.append({"property_id": pid, "reason": "monitor designed (DESIGN.md section 3) but not built yet in this round; not claimed"})
            continue
        mod = importlib.import_module("vv.props." + pid.lower())
        c = {
            "property_id": pid,
            "quick_cmd": "./check %s --tier quick" % pid,
            "evidence_file": "/verif/evidence/%s.json" % pid,
            "replay_cmd_template": "./check %s --replay {path}" % pid,
            "engine": "vv",
            "level_claimed": {
                "category": getattr(mod, "LEVEL", "exploration"),
                "text": getattr(mod, "LEVEL_TEXT", (mod.__doc__ or "").strip().split("\n\n")[0].replace("\n", " ")),
                "design_ref": getattr(mod, "DESIGN_REF", "DESIGN.md section 3, %s" % pid),
            },
            "level_note": getattr(mod, "LEVEL_NOTE", "; ".join(getattr(mod, "ASSUMPTIONS", [])) or
                                  "held on the executions observed only; worker wire format, Python reference models"),
            "technique": getattr(mod, "TECHNIQUE", "runtime monitoring: generated workloads on the real code, judged by an executable oracle"),
        }
        if not getattr(mod, "NO_THOROUGH", False):
            c["thorough_cmd"] = "./check %s --tier thorough" % pid
        checks.append(c)
    manifest = {
        "version": 1,
        "setup_cmd": "./check --setup",
        "hooks": {
            "guard": "vrl_verif",
            "enable": "none needed: all monitors attach through vrl's public extension points (custom Function `probe`, custom Target, RuntimeState::variable, Kind accessors); guard name reserved, unused",
            "baseline_off_cmd": "cd /repo && cargo nextest run --workspace --no-fail-fast --test-threads 8 --offline || cargo test --workspace --no-fail-fast --offline",
            "source_commits": [],
            "add_only": True,
        },
        "engines": [
            {"name": "vv", "path": "/verif/vv", "serves_properties": [c["property_id"] for c in checks],
             "kind_free_text": "Rust worker (/verif/worker, links /repo's working tree, profile release+debug-assertions+overflow-checks) driven over JSON lines by a Python fork pool; per-property generators, reference models and oracles in vv/props"},
        ],
        "checks": checks,
        "not_applicable": na,
        "notes": "exit 0 = held on everything observed; exit 1 + VIOLATION line = unlisted violation; exit 2 + INCONCLUSIVE line = build failure / coverage floor not reached / harness failure. KNOWN_FINDINGS.json lists recorded genuine defects by signature.",
    }
    with open(os.path.join(ROOT, "MANIFEST.json"), "w") as f:
        json.dump(manifest, f, indent=1)
    print("checks:", len(checks), "not_applicable:", len(na))


if __name__ == "__main__":
    main()
