#!/usr/bin/env python3
"""Regenerate MANIFEST.json from the property modules present in vv/props.
Each module provides ID, LEVEL, and optionally LEVEL_TEXT, LEVEL_NOTE, TECHNIQUE, DESIGN_REF,
NO_THOROUGH."""
import importlib
import json
import os
import sys

ROOT = os.path.dirname(os.path.dirname(os.path.abspath(__file__)))
sys.path.insert(0, ROOT)

TECHNIQUE = {
 "C01": "runtime monitoring: in-program type probes (custom Function via the public trait) + independent kind-membership oracle over generated programs",
 "C02": "runtime monitoring: outcome monitor + wrapper probes on compiler-infallible expressions + deliberately unhandled fallible expressions",
 "C03": "runtime monitoring: signature-directed stdlib calls (typed / untyped / wrong-typed delivery) judged by a kind-membership oracle",
 "C04": "runtime monitoring: panic monitor (catch_unwind + panic hook, process-death classification), overflow/debug assertions on, call fuzz + source fuzz",
 "C05": "runtime monitoring: CPU-time / address-space watchdog with confirmation re-run (bounded-progress restatement)",
 "C06": "runtime monitoring: differential against a reference interpreter, unique marker side effects",
 "C07": "runtime monitoring: differential against a reference interpreter, unique marker side effects",
 "C08": "runtime monitoring: differential against a reference interpreter + probes exporting defaults and the compiler's kind of `ok`",
 "C09": "runtime monitoring: differential against a reference interpreter, side-effecting operands",
 "C10": "runtime monitoring: reference-model oracle (big integers, IEEE doubles, bytes, instants) on edge-pool operand pairs",
 "C11": "runtime monitoring: reference-model oracle (64-bit masked big integers, IEEE doubles) on edge-pool operand pairs",
 "C12": "runtime monitoring: compile-time-constant probes compared with runtime values; unhandled-division outcome monitor",
 "C13": "runtime monitoring: variable-store inspection by name vs reference interpreter; Miri on the unsafe recursive iterator (thorough)",
 "C14": "runtime monitoring: differential (recompile, second process, reused+cleared runtime, concurrent threads sharing a program); ThreadSanitizer and Miri data-race detector (thorough)",
 "C15": "runtime monitoring: before/after comparison of read-only locations under a logging Target",
 "C16": "runtime monitoring: operation-log coverage check through a custom logging Target",
 "C17": "fault injection: exhaustive single (and pair) fault enumeration on a fault-injecting Target, differential against a skip-target twin",
 "C18": "runtime monitoring: law checking on the real Value path operations; Miri replay of recorded path operations (thorough)",
 "C19": "runtime monitoring: kind-membership oracle relating real Kind operations to real Value operations",
 "C20": "runtime monitoring: round-trip and parser-agreement monitor; exhaustive enumeration of short texts",
 "C21": "runtime monitoring: round-trip identity with an independent decoder (Python json) separating encoder from decoder faults; valgrind memcheck replay of a workload sample (thorough)",
 "C22": "runtime monitoring: round-trip identity per codec/option with independent Python decoders; valgrind memcheck replay of a workload sample (thorough)",
 "C23": "runtime monitoring: round-trip identity per algorithm with discovered key/IV sizes; valgrind memcheck replay of a workload sample (thorough)",
 "C24": "runtime monitoring: round-trip identity with shrinking to a single pair / character class",
 "C25": "runtime monitoring: inverse-pair identities with independent Python cross-checks",
 "C26": "runtime monitoring: round-trip identity over schema-shaped values (schema parsed independently from the .proto sources); valgrind memcheck replay of a workload sample (thorough)",
 "C27": "runtime monitoring: comparison with reference algorithms (hashlib/hmac, Rocksoft-model CRC, pure-Python xxhash/seahash validated on published vectors); valgrind memcheck replay of a workload sample (thorough)",
 "C28": "runtime monitoring: algebraic-law monitors over Unicode-heavy inputs",
 "C29": "runtime monitoring: exact-rational (fractions.Fraction) oracle",
 "C30": "runtime monitoring: parse-render-parse monitor over grammar-directed queries",
 "C31": "runtime monitoring: compositional identities on the same event + restricted reference evaluator",
 "C32": "runtime monitoring: differential against an independent regex engine (Python re) built from an own matcher table",
 "C33": "runtime monitoring: span / character-boundary / render monitor over mutated sources",
 "C34": "runtime monitoring: differential P vs P' (flagged expression replaced by null)",
 "C35": "runtime monitoring: canonical-text round-trip through the embedder Conversion API",
 "C36": "runtime monitoring: differential across configured timezones with an explicit table of zone-less operations",
}

NOT_APPLICABLE = {
    # id -> reason (properties this family genuinely cannot decide; filled by hand)
}


READY = set(open(os.path.join(ROOT, "tools", "ready.txt")).read().split())


def main():
    ids = [json.loads(l)["id"] for l in open(os.path.join(ROOT, "properties.jsonl"))]
    checks = []
    na = []
    for pid in ids:
        path = os.path.join(ROOT, "vv", "props", pid.lower() + ".py")
        if pid in NOT_APPLICABLE:
            na.append({"property_id": pid, "reason": NOT_APPLICABLE[pid]})
            continue
        if not os.path.exists(path) or pid not in READY:
            na.append({"property_id": pid, "reason": "monitor designed (DESIGN.md section 3) but not built yet in this round; not claimed"})
            continue
        mod = importlib.import_module("vv.props." + pid.lower())
        c = {
            "property_id": pid,
            "quick_cmd": "./check %s --tier quick" % pid,
            "evidence_file": "/verif/evidence/%s.json" % pid,
            "replay_cmd_template": "./check %s --replay {path}" % pid,
            "engine": "vv",
            "level_claimed": {
                "category": getattr(mod, "LEVEL", "exploration"),
                "text": getattr(mod, "LEVEL_TEXT", " ".join((mod.__doc__ or "").split())) +
                        " Verdict: held on the executions observed (counts and samples in the evidence file), violated with a replayable witness, or inconclusive.",
                "design_ref": getattr(mod, "DESIGN_REF", "DESIGN.md section 3, %s" % pid),
            },
            "level_note": getattr(mod, "LEVEL_NOTE", "; ".join(getattr(mod, "ASSUMPTIONS", [])) or
                                  "held on the executions observed only; worker wire format, Python reference models"),
            "technique": TECHNIQUE.get(pid, "runtime monitoring: generated workloads on the real code, judged by an executable oracle"),
        }
        if not getattr(mod, "NO_THOROUGH", False):
            c["thorough_cmd"] = "./check %s --tier thorough" % pid
        checks.append(c)
    manifest = {
        "version": 1,
        "setup_cmd": "./check --setup",
        "hooks": {
            "guard": "vrl_verif",
            "enable": "none needed: all monitors attach through vrl's public extension points (custom Function `probe`, custom Target, RuntimeState::variable, Kind accessors); guard name reserved, unused",
            "baseline_off_cmd": "cd /repo && cargo nextest run --workspace --no-fail-fast --test-threads 8 --offline || cargo test --workspace --no-fail-fast --offline",
            "source_commits": [],
            "add_only": True,
        },
        "engines": [
            {"name": "vv", "path": "/verif/vv", "serves_properties": [c["property_id"] for c in checks],
             "kind_free_text": "Rust worker (/verif/worker, links /repo's working tree, profile release+debug-assertions+overflow-checks) driven over JSON lines by a Python fork pool; per-property generators, reference models and oracles in vv/props"},
        ],
        "checks": checks,
        "not_applicable": na,
        "notes": "exit 0 = held on everything observed; exit 1 + VIOLATION line = unlisted violation; exit 2 + INCONCLUSIVE line = build failure / coverage floor not reached / harness failure. KNOWN_FINDINGS.json lists recorded genuine defects by signature.",
    }
    with open(os.path.join(ROOT, "MANIFEST.json"), "w") as f:
        json.dump(manifest, f, indent=1)
    print("checks:", len(checks), "not_applicable:", len(na))


if __name__ == "__main__":
    main()
