#!/usr/bin/env python3
"""Regenerate the per-property status table of DESIGN.md section 10 from evidence files,
KNOWN_FINDINGS.json and seeded/*/meta.json. Prints markdown."""
import glob
import json
import os

ROOT = os.path.dirname(os.path.dirname(os.path.abspath(__file__)))
kf = json.load(open(os.path.join(ROOT, "KNOWN_FINDINGS.json")))
by = {}
for e in kf["findings"]:
    by.setdefault(e["property"], []).append(e["signature"])
fixed = {}
for line in kf["fixed"]:
    pid = line.split("property=")[1].split()[0]
    fixed[pid] = fixed.get(pid, 0) + 1
seeded = {}
for m in glob.glob(os.path.join(ROOT, "seeded", "*", "meta.json")):
    d = json.load(open(m))
    seeded.setdefault(d["property"], []).append(os.path.basename(os.path.dirname(m)))
print("| id | evaluations (last run, tier) | distinct non-trivial | recorded findings | fixed defects | seeded changes kept |")
print("|----|------------------------------|----------------------|-------------------|---------------|---------------------|")
for i in range(1, 37):
    pid = "C%02d" % i
    try:
        ev = json.load(open(os.path.join(ROOT, "evidence", pid + ".json")))
        c = ev["coverage"]
        a = "%d (%s)" % (c["evaluations"], ev["tier"])
        b = str(c["distinct_nontrivial"])
    except Exception:
        a, b = "-", "-"
    print("| %s | %s | %s | %d | %d | %s |" % (pid, a, b, len(by.get(pid, [])), fixed.get(pid, 0), ", ".join(sorted(seeded.get(pid, []))) or "-"))
