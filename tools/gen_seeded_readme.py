#!/usr/bin/env python3
"""Regenerate the table at the end of seeded/README.md from seeded/*/meta.json."""
import glob
import json
import os

ROOT = os.path.dirname(os.path.dirname(os.path.abspath(__file__)))
path = os.path.join(ROOT, "seeded", "README.md")
head = open(path).read().split("\n| ")[0].rstrip() + "\n\n"
rows = ["| property | change | needs, in order to manifest | detection |", "|---|---|---|---|"]
for m in sorted(glob.glob(os.path.join(ROOT, "seeded", "C*", "meta.json"))):
    d = json.load(open(m))
    rows.append("| %s | %s | %s | %s |" % (d["property"], d["change"].replace("|", "\\|"),
                                        d["needs_to_manifest"].replace("|", "\\|"), d["detection"].replace("|", "\\|")))
open(path, "w").write(head + "\n".join(rows) + "\n")
print(len(rows) - 2, "seeded changes")
