#!/usr/bin/env python3
"""usage: tools/make_corpus.py <ID> <N> [--force]
Freezes N generated inputs of a property as corpus/<ID>.jsonl (one run_case input per line). The file
is written once and committed; checks only read it. Regenerating it invalidates the corpus indices
recorded in KNOWN_FINDINGS.json (they must then be re-imported), hence --force."""
import importlib
import json
import os
import random
import sys
import time

ROOT = os.path.dirname(os.path.dirname(os.path.abspath(__file__)))
sys.path.insert(0, ROOT)
from vv import driver  # noqa: E402

pid, n = sys.argv[1], int(sys.argv[2])
path = os.path.join(ROOT, "corpus", pid + ".jsonl")
if os.path.exists(path) and "--force" not in sys.argv:
    print("exists:", path)
    sys.exit(1)
ok, msg = driver.build_worker()
if not ok:
    print(msg)
    sys.exit(2)
mod = importlib.import_module("vv.props." + pid.lower())
ctx = driver.Ctx(pid, "quick", 0, 0, 1, time.monotonic() + 3600, getattr(mod, "WORKER_ENV", None))
if hasattr(mod, "setup"):
    mod.setup(ctx)
os.makedirs(os.path.dirname(path), exist_ok=True)
out = []
i = 0
while len(out) < n and i < n * 20:
    rng = random.Random("corpus/%s/%d" % (pid, i))
    i += 1
    case = mod.gen_case(ctx, rng)
    if case is not None:
        out.append(json.dumps(case, separators=(",", ":"), default=str))
with open(path, "w") as f:
    f.write("\n".join(out) + "\n")
ctx.result()
print("wrote", len(out), "cases,", os.path.getsize(path) // 1024, "KiB ->", path)
