#!/bin/sh
# usage: tools/run_all_seeds.sh [ids...]  -- runs every kept seeded change against its check (isolated copies),
# prints one line per change: DETECTED / MISSED, and writes seeded/DETECTION.log
cd "$(dirname "$0")/.." || exit 2
IDS="$*"; [ -z "$IDS" ] && IDS=$(ls seeded | grep '^C' )
: > seeded/DETECTION.log
for id in $IDS; do
  out=$(tools/try_seed_iso.sh seeded/$id/patch.diff $id --budget ${SEED_BUDGET:-25} 2>&1)
  rc=$(echo "$out" | grep -o "check exit=[0-9]*" | tail -1)
  sigs=$(echo "$out" | grep "signature:" | sed 's/.*signature: //' | cut -c1-80 | sort -u | head -4 | tr '\n' ';')
  if [ "$rc" = "check exit=1" ]; then v=DETECTED; else v="MISSED($rc)"; fi
  echo "$id $v $sigs" | tee -a seeded/DETECTION.log
done
