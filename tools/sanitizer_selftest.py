#!/usr/bin/env python3
"""Shows that the sanitizer tiers fire: replays a request that reads uninitialised heap memory (an op
that exists in the worker only for this purpose) under valgrind memcheck and, with --miri, under Miri.
Exit 0 iff every tool asked for reported it."""
import os
import sys

ROOT = os.path.dirname(os.path.dirname(os.path.abspath(__file__)))
sys.path.insert(0, ROOT)
from vv import sanitize, driver  # noqa: E402

ok, msg = driver.build_worker()
if not ok:
    print(msg)
    sys.exit(2)
reqs = [{"op": "ping"}, {"op": "selftest_uninit"}]
rc = 0
r = sanitize.memcheck_replay(reqs, "selftest", timeout=600)
print("memcheck:", r["status"], r.get("kind"), r.get("location"))
rc |= r["status"] != "report"
if "--miri" in sys.argv:
    r = sanitize.miri_replay(reqs, "selftest", timeout=3600)
    print("miri:", r["status"], r.get("kind"), r.get("location"))
    rc |= r["status"] != "report"
sys.exit(1 if rc else 0)
