#!/usr/bin/env python3
"""usage: tools/save_seed.py <id> <worktree> <change> <needs_to_manifest> <detection>
Copies an agent's seeded change (patch, demo, notes, verify log) into seeded/<id>/ with meta.json."""
import json
import os
import shutil
import sys

ROOT = os.path.dirname(os.path.dirname(os.path.abspath(__file__)))
pid, wt, change, needs, detection = sys.argv[1:6]
dst = os.path.join(ROOT, "seeded", pid)
os.makedirs(dst, exist_ok=True)
shutil.copy(os.path.join(wt, "seeded", "patch.diff"), os.path.join(dst, "patch.diff"))
shutil.copy(os.path.join(wt, "tests", "seeded_demo.rs"), os.path.join(dst, "seeded_demo.rs"))
shutil.copy(os.path.join(wt, "seeded", "NOTES.md"), os.path.join(dst, "NOTES.md"))
log = open(os.path.join(wt, "verify.log")).read() if os.path.exists(os.path.join(wt, "verify.log")) else ""
meta = {
    "property": pid,
    "change": change,
    "needs_to_manifest": needs,
    "written_by": "independent sub-agent given only the property text and a scratch worktree",
    "confirmed": {"how": "tools/verify_seed.sh in the scratch worktree: cargo check, full nextest suite with the change, "
                         "demo with and without the change", "log": log},
    "checks_run": "tools/try_seed.sh seeded/%s/patch.diff %s (applies to /repo, runs the check, reverts)" % (pid, pid),
    "detection": detection,
}
json.dump(meta, open(os.path.join(dst, "meta.json"), "w"), indent=1)
print("saved", dst)
