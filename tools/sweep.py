#!/usr/bin/env python3
"""Run checks at several seeds and collect the violation signatures seen (to triage findings).
usage: tools/sweep.py C03,C04 1,2,3 [quick|thorough] [budget]"""
import json
import os
import subprocess
import sys

ROOT = os.path.dirname(os.path.dirname(os.path.abspath(__file__)))
props = sys.argv[1].split(",")
seeds = [int(x) for x in sys.argv[2].split(",")]
tier = sys.argv[3] if len(sys.argv) > 3 else "quick"
budget = sys.argv[4] if len(sys.argv) > 4 else None
out = {}
for p in props:
    sigs = {}
    for s in seeds:
        cmd = ["./check", p, "--tier", tier, "--seed", str(s)]
        if budget:
            cmd += ["--budget", budget]
        r = subprocess.run(cmd, cwd=ROOT, stdout=subprocess.PIPE, stderr=subprocess.PIPE, text=True)
        for line in r.stdout.splitlines():
            if line.startswith("VIOLATION"):
                path = line.split("replay=")[1].strip()
                d = json.load(open(path))
                e = sigs.setdefault(d["signature"], {"seeds": [], "detail": d["detail"], "count": 0})
                e["seeds"].append(s)
                e["count"] += d.get("count", 1)
                if "unlisted_corpus_indices" in d:
                    e["corpus_indices"] = sorted(set(e.get("corpus_indices", [])) | set(d["unlisted_corpus_indices"]))
            elif line.startswith("KNOWN-FINDING"):
                pass
        tail = [l for l in r.stderr.splitlines() if l.startswith(p + " ")]
        print(p, "seed", s, "exit", r.returncode, "new sigs so far", len(sigs), tail[-1][:160] if tail else "", flush=True)
    out[p] = sigs
    os.makedirs(os.path.join(ROOT, "sweeps"), exist_ok=True)
    with open(os.path.join(ROOT, "sweeps", p + ".json"), "w") as f:
        json.dump(sigs, f, indent=1, default=str)
    for sig, e in sorted(sigs.items()):
        print("   ", sig, e["seeds"])
