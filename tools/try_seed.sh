#!/bin/sh
# usage: tools/try_seed.sh <patch.diff> <prop> [more check args]   -- applies the patch to /repo, runs the check, reverts
PATCH="$1"; PROP="$2"; shift 2
cd /repo || exit 2
git diff --quiet || { echo "repo dirty"; exit 2; }
git apply "$PATCH" || { echo "patch does not apply"; exit 2; }
cd /verif && ./check "$PROP" "$@"; RC=$?
cd /repo && git checkout -- . 
echo "check exit=$RC"
