#!/bin/sh
# usage: tools/try_seed_iso.sh <patch.diff> <prop> [more check args]
# Like try_seed.sh but never touches /repo: works on scratch copies of /repo (sources only) and of
# /verif under /tmp/vviso (own worker build), so it can run while other checks use /repo.
PATCH="$(readlink -f "$1")"; PROP="$2"; shift 2
ISO=/tmp/vviso
mkdir -p $ISO
exec 9>$ISO/lock; flock 9
rsync -a --delete --exclude target --exclude .git /repo/ $ISO/repo/
rsync -a --delete --exclude .build --exclude replays --exclude sweeps --exclude evidence --exclude .git /verif/ $ISO/verif/
mkdir -p $ISO/verif/evidence $ISO/verif/replays
if [ ! -d $ISO/verif/.build/rel ]; then mkdir -p $ISO/verif/.build; cp -r /verif/.build/rel $ISO/verif/.build/rel; fi
sed -i "s#path = \"/repo\"#path = \"$ISO/repo\"#" $ISO/verif/worker/Cargo.toml
( cd $ISO/repo && patch -p1 -s < "$PATCH" ) || { echo "patch does not apply"; exit 2; }
cd $ISO/verif && VV_REPO=$ISO/repo ./check "$PROP" "$@"; RC=$?
echo "check exit=$RC"
