#!/usr/bin/env python3
"""Refresh the generated tables of DESIGN.md (seeded changes, status) in place."""
import os
import re
import subprocess
import sys

ROOT = os.path.dirname(os.path.dirname(os.path.abspath(__file__)))
subprocess.run([sys.executable, os.path.join(ROOT, "tools", "gen_seeded_readme.py")], check=True, stdout=subprocess.DEVNULL)
readme = open(os.path.join(ROOT, "seeded", "README.md")).read()
table = "| property |" + readme.split("\n| property |", 1)[1]
status = subprocess.run([sys.executable, os.path.join(ROOT, "tools", "gen_report.py")], check=True,
                        stdout=subprocess.PIPE, text=True).stdout
p = os.path.join(ROOT, "DESIGN.md")
s = open(p).read()
for name, body in (("seeded", table), ("status", status)):
    s = re.sub(r"<!-- BEGIN:%s -->.*?<!-- END:%s -->" % (name, name),
               lambda m: "<!-- BEGIN:%s -->\n%s\n<!-- END:%s -->" % (name, body.strip(), name), s, flags=re.S)
open(p, "w").write(s)
print("DESIGN.md tables refreshed")
