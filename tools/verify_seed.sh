#!/bin/sh
# usage: verify_seed.sh <worktree>  -- re-checks an agent's seeded change: suite passes, demo fails with / passes without
WT="$1"
cd "$WT" || exit 2
LOG="$WT/verify.log"; : > "$LOG"
git diff --quiet -- src lib && { echo "no source change applied" >> "$LOG"; }
echo "== cargo check" >> "$LOG"; cargo check --offline 2>&1 | tail -2 >> "$LOG"
echo "== suite with change" >> "$LOG"
cargo nextest run --workspace --no-fail-fast --test-threads 8 --offline -E 'not binary(seeded_demo)' 2>&1 | grep -E "Summary|FAIL " | head -5 >> "$LOG"
echo "== demo with change (expect failure)" >> "$LOG"
cargo test --offline --test seeded_demo 2>&1 | grep -E "^test result" | head -3 >> "$LOG"
git diff -- src lib > "$WT/.seed.patch"
git apply -R "$WT/.seed.patch"
echo "== demo without change (expect pass)" >> "$LOG"
cargo test --offline --test seeded_demo 2>&1 | grep -E "^test result" | head -3 >> "$LOG"
git apply "$WT/.seed.patch"
echo "== done" >> "$LOG"
