"""Driver: build the worker from /repo's current tree, run a property's workload on a fork
pool, merge observations, apply KNOWN_FINDINGS, write evidence, print verdict lines."""
import argparse
import fcntl
import hashlib
import importlib
import json
import os
import random
import shutil
import subprocess
import sys
import time
import traceback

from . import pool
from .pool import Worker, WorkerDied, case_seed

ROOT = pool.ROOT
REPO = os.environ.get("VV_REPO", "/repo")
BUILD_DIR = os.path.join(ROOT, ".build")
EVIDENCE_DIR = os.path.join(ROOT, "evidence")
REPLAY_DIR = os.path.join(ROOT, "replays")
FINDINGS_FILE = os.path.join(ROOT, "KNOWN_FINDINGS.json")

ALL_IDS = ["C%02d" % i for i in range(1, 37)]


def log(*a):
    print(*a, file=sys.stderr, flush=True)


# ----------------------------------------------------------------------------------------
# build

def build_worker(quiet=True):
    """cargo build the worker against REPO's working tree. Returns (ok, message)."""
    os.makedirs(BUILD_DIR, exist_ok=True)
    lock_path = os.path.join(BUILD_DIR, "build.lock")
    with open(lock_path, "w") as lf:
        fcntl.flock(lf, fcntl.LOCK_EX)
        wdir = os.path.join(ROOT, "worker")
        lock_dst = os.path.join(wdir, "Cargo.lock")
        lock_src = os.path.join(REPO, "Cargo.lock")
        try:
            if (not os.path.exists(lock_dst)
                    or os.path.getmtime(lock_src) > os.path.getmtime(lock_dst)):
                shutil.copyfile(lock_src, lock_dst)
        except OSError as e:
            return False, "cannot copy Cargo.lock: %s" % e
        env = dict(os.environ)
        env["CARGO_NET_OFFLINE"] = "true"
        env["CARGO_TARGET_DIR"] = os.path.join(BUILD_DIR, "rel")
        env.pop("RUSTFLAGS", None)
        t0 = time.time()
        p = subprocess.run(
            ["cargo", "build", "--offline", "--profile", "verif"],
            cwd=wdir, env=env, stdout=subprocess.PIPE, stderr=subprocess.STDOUT)
        dt = time.time() - t0
        out = p.stdout.decode("utf-8", "replace")
        if p.returncode != 0:
            return False, "cargo build failed (%.0fs):\n%s" % (dt, out[-3000:])
        if not quiet:
            log("worker built in %.1fs" % dt)
        return True, "built in %.1fs" % dt


# ----------------------------------------------------------------------------------------
# per-process context

class Ctx:
    def __init__(self, prop_id, tier, seed, proc, nprocs, deadline, worker_env=None):
        self.prop_id = prop_id
        self.tier = tier
        self.seed = seed
        self.proc = proc
        self.nprocs = nprocs
        self.deadline = deadline
        self.worker_env = worker_env
        self._worker = None
        self.auto_record = None     # (max requests, stride) — set by child_main for MEMCHECK modules
        self._calls = 0
        self.evaluations = 0
        self.cov = {}            # covkey -> count (non-trivial only)
        self.trivial = 0
        self.samples = []
        self.skips = {}
        self.violations = {}     # sig -> {"count", "detail", "case", "index"}
        self.extra = {}          # free-form counters merged by summation
        self.notes = {}          # free-form sets merged by union
        self.cur_case = None
        self.cur_index = None
        self.deaths = 0
        self.recorded = []
        self._stdlib = None

    @property
    def worker(self):
        if self._worker is None:
            self._worker = Worker(env=self.worker_env)
        return self._worker

    def call(self, req, cpu_limit=20.0, wall_limit=300.0):
        resp = self.worker.call(req, cpu_limit=cpu_limit, wall_limit=wall_limit)
        if self.auto_record and req.get("op") == "run" and "panic" not in resp:
            # sample of the workload kept for the memcheck tier (every k-th accepted request, small ones)
            self._calls += 1
            if self._calls % self.auto_record[1] == 0 and len(self.recorded) < self.auto_record[0]:
                if len(json.dumps(req)) < 20000:
                    self.recorded.append(req)
        return resp

    def stdlib(self):
        if self._stdlib is None:
            self._stdlib = self.call({"op": "stdlib"})["functions"]
        return self._stdlib

    def time_left(self):
        return self.deadline - time.monotonic()

    # -- reporting
    def ok(self, covkey=None, nontrivial=True, sample=None, n=1):
        self.evaluations += n
        if nontrivial and covkey is not None:
            k = covkey if isinstance(covkey, str) else json.dumps(covkey, sort_keys=True, default=str)
            self.cov[k] = self.cov.get(k, 0) + n
            if sample is not None and self.cov[k] == n and len(self.samples) < 8:
                self.samples.append(sample)
        else:
            self.trivial += n

    def skip(self, reason, n=1):
        self.skips[reason] = self.skips.get(reason, 0) + n

    def count(self, key, n=1):
        self.extra[key] = self.extra.get(key, 0) + n

    def note(self, key, item):
        s = self.notes.setdefault(key, set())
        if len(s) < 5000:
            s.add(item)

    def record(self, req, limit=40):
        """Keep a request for the sanitizer tiers (replayed by the worker without Python)."""
        if len(self.recorded) < limit:
            self.recorded.append(req)

    def violation(self, sig, detail, case=None):
        self.evaluations += 1
        v = self.violations.get(sig)
        if v is None:
            self.violations[sig] = {
                "count": 1, "detail": detail,
                "case": case if case is not None else self.cur_case,
                "index": self.cur_index, "proc": self.proc,
            }
            return True
        v["count"] += 1
        return False

    def result(self):
        if self._worker is not None:
            self._worker.kill()
        return {
            "evaluations": self.evaluations, "cov": self.cov, "trivial": self.trivial,
            "samples": self.samples, "skips": self.skips, "violations": self.violations,
            "extra": self.extra, "notes": {k: sorted(v, key=str) for k, v in self.notes.items()},
            "deaths": self.deaths, "recorded": self.recorded,
        }


def child_main(proc, mod_name, tier, seed, nprocs, budget_s, max_cases):
    mod = importlib.import_module(mod_name)
    deadline = time.monotonic() + budget_s
    ctx = Ctx(mod.ID, tier, seed, proc, nprocs, deadline, getattr(mod, "WORKER_ENV", None))
    mc = getattr(mod, "MEMCHECK", None)
    if mc and tier == "thorough":
        ctx.auto_record = (max(1, mc.get("requests", 150) // nprocs + 1), mc.get("stride", 25))
    try:
        if hasattr(mod, "setup"):
            mod.setup(ctx)
        if hasattr(mod, "run_all"):
            # module drives its own loop (e.g. exhaustive enumeration shards)
            mod.run_all(ctx)
        i = 0
        while hasattr(mod, "gen_case") and time.monotonic() < deadline and i < max_cases:
            rng = random.Random(case_seed(seed, proc, i))
            ctx.cur_index = i
            try:
                case = mod.gen_case(ctx, rng)
                ctx.cur_case = case
                if case is not None:
                    mod.run_case(ctx, case)
            except WorkerDied as e:
                ctx.deaths += 1
                handler = getattr(mod, "on_death", None)
                if handler is not None:
                    handler(ctx, ctx.cur_case, e)
                elif e.kind in ("oom", "stack_overflow"):
                    ctx.skip("resource_exhaustion:" + e.kind)
                else:
                    ctx.skip("worker_died:" + e.kind)
            except Exception as e:  # harness error in one case: never a violation
                ctx.skip("harness_error:%s" % type(e).__name__)
                ctx.extra["harness_errors"] = ctx.extra.get("harness_errors", 0) + 1
                ctx.notes.setdefault("harness_trace", set()).add(traceback.format_exc()[-1500:])
                if ctx.extra["harness_errors"] > 200:
                    break
            i += 1
        if hasattr(mod, "teardown"):
            mod.teardown(ctx)
    except Exception as e:  # harness error: never a violation
        ctx.skip("harness_error:%s" % type(e).__name__)
        ctx.extra["harness_errors"] = ctx.extra.get("harness_errors", 0) + 1
        ctx.notes.setdefault("harness_trace", set()).add(traceback.format_exc()[-1500:])
    return ctx.result()


# ----------------------------------------------------------------------------------------
# findings

def load_findings():
    try:
        with open(FINDINGS_FILE) as f:
            data = json.load(f)
    except FileNotFoundError:
        return {}
    known = {}
    for e in data.get("findings", []):
        known.setdefault(e["property"], {})[e["signature"]] = e
    return known


def sig_hash(sig):
    return hashlib.sha1(sig.encode("utf-8")).hexdigest()[:10]


# ----------------------------------------------------------------------------------------
# main

def merge(results):
    m = {"evaluations": 0, "cov": {}, "trivial": 0, "samples": [], "skips": {}, "violations": {},
         "extra": {}, "notes": {}, "deaths": 0, "children_died": [], "recorded": [], "sanitizers": {}}
    for r in results:
        if "_child_died" in r:
            m["children_died"].append(r["_child_died"][-800:])
            continue
        m["evaluations"] += r["evaluations"]
        m["trivial"] += r["trivial"]
        m["deaths"] += r["deaths"]
        m["recorded"].extend(r.get("recorded", [])[:max(0, 200 - len(m["recorded"]))])
        for k, v in r["cov"].items():
            m["cov"][k] = m["cov"].get(k, 0) + v
        for s in r["samples"]:
            if len(m["samples"]) < 10:
                m["samples"].append(s)
        for k, v in r["skips"].items():
            m["skips"][k] = m["skips"].get(k, 0) + v
        for k, v in r["extra"].items():
            if isinstance(v, (int, float)):
                m["extra"][k] = m["extra"].get(k, 0) + v
            else:
                m["extra"][k] = v
        for k, v in r["notes"].items():
            s = m["notes"].setdefault(k, [])
            for x in v:
                if x not in s and len(s) < 200:
                    s.append(x)
        for sig, v in r["violations"].items():
            if sig in m["violations"]:
                m["violations"][sig]["count"] += v["count"]
            else:
                m["violations"][sig] = v
    return m


def write_evidence(mod, tier, seed, merged, wall, unlisted, known_seen, inconclusive):
    os.makedirs(EVIDENCE_DIR, exist_ok=True)
    cov = {
        "evaluations": max(merged["evaluations"], 0),
        "distinct_nontrivial": len(merged["cov"]),
        "rule": getattr(mod, "RULE", ""),
        "samples": merged["samples"] if merged["samples"] else ["(no sample recorded)"],
        "trivial_evaluations": merged["trivial"],
        "skips": merged["skips"],
        "worker_deaths": merged["deaths"],
        "top_coverage_keys": sorted(merged["cov"].items(), key=lambda kv: -kv[1])[:25],
        "counters": merged["extra"],
        "notes": {k: v[:40] for k, v in merged["notes"].items()},
        "sanitizer_tiers": merged.get("sanitizers", {}),
        "known_findings_observed": known_seen,
        "unlisted_violation_signatures": unlisted,
        "inconclusive": inconclusive,
    }
    if getattr(mod, "EXHAUSTIVE", None) and merged["extra"].get("exhaustive_complete"):
        cov["exhaustive"] = True
    ev = {
        "property_id": mod.ID,
        "tier": tier,
        "seed": seed,
        "level": getattr(mod, "LEVEL", "exploration"),
        "coverage": cov,
        "assumptions": list(getattr(mod, "ASSUMPTIONS", [])),
        "wall_s": round(wall, 2),
        "violations": len(unlisted),
    }
    path = os.path.join(EVIDENCE_DIR, "%s.json" % mod.ID)
    tmp = path + ".tmp"
    with open(tmp, "w") as f:
        json.dump(ev, f, indent=1, default=str)
    os.replace(tmp, path)
    return path


def run_property(prop_id, tier, seed, nprocs=None, budget=None):
    t0 = time.time()
    mod_name = "vv.props.%s" % prop_id.lower()
    mod = importlib.import_module(mod_name)
    ok, msg = build_worker()
    if not ok:
        print("INCONCLUSIVE property=%s reason=build_failed" % prop_id)
        log(msg)
        merged = merge([])
        write_evidence(mod, tier, seed, merged, time.time() - t0, [], [], "build_failed")
        return 2
    nprocs = nprocs or int(os.environ.get("VV_PROCS", "16"))
    nprocs = min(nprocs, getattr(mod, "MAX_PROCS", nprocs))
    budget_s = budget if budget is not None else mod.BUDGET[tier]
    max_cases = getattr(mod, "MAX_CASES", {}).get(tier, 10 ** 9)
    results = pool.run_pool(nprocs, child_main, (mod_name, tier, seed, nprocs, budget_s, max_cases))
    merged = merge(results)
    if hasattr(mod, "finalize"):
        mod.finalize(merged, tier)
    if tier == "thorough" and getattr(mod, "MEMCHECK", None):
        # valgrind memcheck over a sample of the recorded workload (plain verif build; sees the C code
        # of the FFI codecs too). Three-valued: report -> violation, tool failure -> noted, never a violation.
        try:
            from . import sanitize
            reqs = list(merged.get("recorded", []))[:mod.MEMCHECK.get("requests", 150)]
            if reqs:
                res = sanitize.memcheck_replay(reqs, prop_id, timeout=mod.MEMCHECK.get("timeout", 2400))
                merged["sanitizers"]["memcheck"] = {k: v for k, v in res.items() if k != "stderr"}
                if res["status"] == "report":
                    merged["violations"]["memcheck:%s@%s" % (res["kind"][:60], res.get("location", "?"))] = {
                        "count": res.get("reports", 1), "detail": {"stderr": res.get("stderr")},
                        "case": {"requests": reqs}, "index": None, "proc": None}
        except Exception as e:
            merged["sanitizers"]["memcheck_error"] = "%s: %s" % (type(e).__name__, e)
    if hasattr(mod, "post_run"):
        # sanitizer tiers etc.: may add violations (sig -> record) and evidence to `merged`
        try:
            mod.post_run(tier, seed, merged)
        except Exception as e:  # never a violation
            merged["sanitizers"]["post_run_error"] = "%s: %s" % (type(e).__name__, e)
    known = load_findings().get(prop_id, {})
    unlisted = []
    known_seen = []
    exit_code = 0
    os.makedirs(REPLAY_DIR, exist_ok=True)
    for sig, v in sorted(merged["violations"].items()):
        if sig in known:
            known_seen.append({"signature": sig, "count": v["count"]})
            print("KNOWN-FINDING: property=%s %s (seen %d times in this run)"
                  % (prop_id, known[sig].get("what", sig).replace("\n", " "), v["count"]))
            continue
        path = os.path.join(REPLAY_DIR, "%s-%s.json" % (prop_id, sig_hash(sig)))
        with open(path, "w") as f:
            json.dump({"property": prop_id, "signature": sig, "detail": v["detail"],
                       "case": v["case"], "seed": seed, "proc": v.get("proc"),
                       "index": v.get("index"), "tier": tier, "count": v["count"]},
                      f, indent=1, default=str)
        unlisted.append(sig)
        print("VIOLATION property=%s replay=%s" % (prop_id, path))
        log("  signature: %s\n  detail: %s" % (sig, json.dumps(v["detail"], default=str)[:1500]))
        exit_code = 1
    inconclusive = None
    floor = getattr(mod, "FLOOR", {}).get(tier, 2)
    if merged["children_died"] and len(merged["children_died"]) >= nprocs:
        inconclusive = "all_children_died"
    elif merged["extra"].get("harness_errors", 0) > 0 and len(merged["cov"]) < floor:
        inconclusive = "harness_error"
    elif len(merged["cov"]) < floor:
        inconclusive = "coverage_floor(%d<%d)" % (len(merged["cov"]), floor)
    wall = time.time() - t0
    write_evidence(mod, tier, seed, merged, wall, unlisted, known_seen, inconclusive)
    for d in merged["children_died"][:3]:
        log("child died: %s" % d)
    for t in merged["notes"].get("harness_trace", [])[:3]:
        log("harness error: %s" % t)
    log("%s %s seed=%d: evaluations=%d distinct_nontrivial=%d skips=%s deaths=%d wall=%.1fs"
        % (prop_id, tier, seed, merged["evaluations"], len(merged["cov"]),
           json.dumps(merged["skips"]), merged["deaths"], wall))
    if exit_code == 0 and inconclusive:
        print("INCONCLUSIVE property=%s reason=%s" % (prop_id, inconclusive))
        return 2
    return exit_code


def replay(prop_id, path):
    mod_name = "vv.props.%s" % prop_id.lower()
    mod = importlib.import_module(mod_name)
    ok, msg = build_worker()
    if not ok:
        print("INCONCLUSIVE property=%s reason=build_failed" % prop_id)
        log(msg)
        return 2
    with open(path) as f:
        data = json.load(f)
    ctx = Ctx(prop_id, data.get("tier", "quick"), data.get("seed", 0), 0, 1,
              time.monotonic() + 600, getattr(mod, "WORKER_ENV", None))
    if hasattr(mod, "setup"):
        mod.setup(ctx)
    ctx.cur_case = data["case"]
    try:
        mod.run_case(ctx, data["case"])
    except WorkerDied as e:
        handler = getattr(mod, "on_death", None)
        if handler is not None:
            handler(ctx, ctx.cur_case, e)
    res = ctx.result()
    if res["violations"]:
        for sig, v in res["violations"].items():
            print("VIOLATION property=%s replay=%s" % (prop_id, path))
            log("  signature: %s\n  detail: %s" % (sig, json.dumps(v["detail"], default=str)[:3000]))
        return 1
    print("NOT-REPRODUCED property=%s replay=%s" % (prop_id, path))
    return 0


def main(argv=None):
    ap = argparse.ArgumentParser(prog="check")
    ap.add_argument("prop", nargs="?")
    ap.add_argument("--tier", default=os.environ.get("VERIF_TIER", "quick"),
                    choices=["quick", "thorough"])
    ap.add_argument("--seed", type=int, default=None)
    ap.add_argument("--replay")
    ap.add_argument("--setup", action="store_true")
    ap.add_argument("--procs", type=int)
    ap.add_argument("--budget", type=float, help="override workload seconds")
    a = ap.parse_args(argv)
    if a.setup:
        ok, msg = build_worker(quiet=False)
        log(msg)
        return 0 if ok else 2
    if not a.prop:
        ap.error("property id required")
    seed = a.seed
    if seed is None:
        try:
            seed = int(os.environ.get("VERIF_SEED", "1"))
        except ValueError:
            seed = 1
    prop_id = a.prop.upper()
    if a.replay:
        return replay(prop_id, a.replay)
    return run_property(prop_id, a.tier, seed, a.procs, a.budget)


if __name__ == "__main__":
    sys.exit(main())
