"""Generator-side AST for VRL programs and its pretty-printer.

Nodes are lists (JSON-serialisable), first element = node type:
  ["lit", wire-encoded value]
  ["var", name]
  ["path", root, segs]              root: "." | "%" | variable name ; segs: [["f",name]|["i",n]...]
  ["arr", [expr...]]   ["obj", [[key, expr]...]]
  ["op", op, lhs, rhs]              + - * / == != < <= > >= && || ?? |
  ["not", e]  ["grp", e]
  ["block", [stmt...]]
  ["if", [[pred_exprs, block_stmts]...], else_stmts | None]     pred_exprs: [expr...]
  ["assign", target, expr]          target: ["tvar", name, segs] | ["tpath", prefix, segs] | ["noop"]
  ["assign2", ok_target, err_target, expr]
  ["massign", target, expr]         t |= e
  ["abort", expr | None]   ["return", expr]
  ["call", fname, [[kw|None, expr]...], bang, closure | None]   closure: [params, stmts]
  ["probe", tag, expr]
  ["raw", text]                      opaque source text (not interpretable)
"""
from ..wire import dec
from .lit import lit, str_lit, path_text, field_seg


def L(v):
    from ..wire import enc
    return ["lit", enc(v)]


PREC = {"??": 1, "||": 2, "&&": 3, "==": 4, "!=": 4, "<": 5, "<=": 5, ">": 5, ">=": 5,
        "|": 6, "+": 7, "-": 7, "*": 8, "/": 8}


def segs_text(root, segs):
    return path_text(root, [(k, x) for k, x in segs])


def target_src(t):
    if t[0] == "noop":
        return "_"
    if t[0] == "tvar":
        return segs_text(t[1], t[2])
    return segs_text(t[1], t[2])


def stmts_src(stmts, ind, sep="\n"):
    pad = "  " * ind
    return sep.join(pad + src(s, ind) for s in stmts)


def block_src(stmts, ind):
    if not stmts:
        return "{ null }"
    return "{\n" + stmts_src(stmts, ind + 1) + "\n" + "  " * ind + "}"


def src(n, ind=0):
    t = n[0]
    if t == "lit":
        return lit(dec(n[1]))
    if t == "var":
        return n[1]
    if t == "path":
        return segs_text(n[1], n[2])
    if t == "arr":
        return "[" + ", ".join(src(e, ind) for e in n[1]) + "]"
    if t == "obj":
        if not n[1]:
            return "{}"
        return "{ " + ", ".join("%s: %s" % (str_lit(k), src(e, ind)) for k, e in n[1]) + " }"
    if t == "op":
        return "(%s %s %s)" % (src(n[2], ind), n[1], src(n[3], ind))
    if t == "not":
        return "!(%s)" % src(n[1], ind)
    if t == "grp":
        return "(%s)" % src(n[1], ind)
    if t == "block":
        return block_src(n[1], ind)
    if t == "if":
        parts = []
        for i, (pred, body) in enumerate(n[1]):
            if len(pred) == 1:
                p = src(pred[0], ind)
            else:
                p = "(" + "; ".join(src(e, ind) for e in pred) + ")"
            parts.append(("if " if i == 0 else " else if ") + p + " " + block_src(body, ind))
        if n[2] is not None:
            parts.append(" else " + block_src(n[2], ind))
        return "".join(parts)
    if t == "assign":
        return "%s = %s" % (target_src(n[1]), src(n[2], ind))
    if t == "assign2":
        return "%s, %s = %s" % (target_src(n[1]), target_src(n[2]), src(n[3], ind))
    if t == "massign":
        return "%s |= %s" % (target_src(n[1]), src(n[2], ind))
    if t == "abort":
        return "abort" if n[1] is None else "abort %s" % src(n[1], ind)
    if t == "return":
        return "return %s" % src(n[1], ind)
    if t == "call":
        args = []
        for kw, e in n[2]:
            s = src(e, ind)
            args.append(s if kw is None else "%s: %s" % (kw, s))
        out = "%s%s(%s)" % (n[1], "!" if n[3] else "", ", ".join(args))
        if n[4] is not None:
            params, body = n[4]
            out += " -> |%s| %s" % (", ".join(params), block_src(body, ind))
        return out
    if t == "probe":
        return "probe(%s, %s)" % (str_lit(n[1]), src(n[2], ind))
    if t == "raw":
        return n[1]
    raise ValueError("unknown node %r" % (t,))


def program_src(stmts):
    return stmts_src(stmts, 0)


def walk(n, f, ctx=()):
    """Pre-order walk over expression nodes; f(node, ctx) where ctx is the tuple of enclosing
    construct labels."""
    if not isinstance(n, list) or not n or not isinstance(n[0], str):
        return
    f(n, ctx)
    t = n[0]
    if t in ("arr",):
        for e in n[1]:
            walk(e, f, ctx + ("array",))
    elif t == "obj":
        for _, e in n[1]:
            walk(e, f, ctx + ("object",))
    elif t == "op":
        walk(n[2], f, ctx + (n[1] + "_lhs",))
        walk(n[3], f, ctx + (n[1] + "_rhs",))
    elif t in ("not", "grp"):
        walk(n[1], f, ctx + (t,))
    elif t == "block":
        for s in n[1]:
            walk(s, f, ctx + ("block",))
    elif t == "if":
        for pred, body in n[1]:
            for e in pred:
                walk(e, f, ctx + ("predicate",))
            for s in body:
                walk(s, f, ctx + ("branch",))
        if n[2] is not None:
            for s in n[2]:
                walk(s, f, ctx + ("branch",))
    elif t in ("assign", "massign"):
        walk(n[2], f, ctx + ("assign_rhs",))
    elif t == "assign2":
        walk(n[3], f, ctx + ("assign2_rhs",))
    elif t == "abort":
        if n[1] is not None:
            walk(n[1], f, ctx + ("abort_msg",))
    elif t == "return":
        walk(n[1], f, ctx + ("return_value",))
    elif t == "call":
        for _, e in n[2]:
            walk(e, f, ctx + ("arg:" + n[1],))
        if n[4] is not None:
            for s in n[4][1]:
                walk(s, f, ctx + ("closure:" + n[1],))
    elif t == "probe":
        walk(n[2], f, ctx + ("probe",))


def walk_program(stmts, f):
    for s in stmts:
        walk(s, f, ())


def node_kinds(stmts):
    out = {}

    def f(n, ctx):
        k = n[0] if n[0] != "op" else "op" + n[1]
        if n[0] == "call":
            k = "call:" + n[1]
        out[k] = out.get(k, 0) + 1
    walk_program(stmts, f)
    return out
