"""Render Python-side values as VRL source literals."""
import datetime
import math
from decimal import Decimal

from ..wire import Ts, Rx


class NotLiteral(Exception):
    pass


def str_lit(b):
    """VRL "..." literal for UTF-8 bytes."""
    try:
        s = b.decode("utf-8") if isinstance(b, (bytes, bytearray)) else b
    except UnicodeDecodeError:
        raise NotLiteral("non-utf8 bytes")
    out = ['"']
    for ch in s:
        if ch == '"':
            out.append('\\"')
        elif ch == "\\":
            out.append("\\\\")
        elif ch == "\n":
            out.append("\\n")
        elif ch == "\r":
            out.append("\\r")
        elif ch == "\t":
            out.append("\\t")
        elif ch == "\0":
            out.append("\\0")
        elif ch == "{":
            out.append("\\{")
        elif ch == "}":
            out.append("\\}")
        else:
            out.append(ch)
    out.append('"')
    return "".join(out)


def float_lit(f):
    if f != f or math.isinf(f):
        raise NotLiteral("non-finite float")
    if f == 0.0:
        return "-0.0" if math.copysign(1.0, f) < 0 else "0.0"
    if abs(f) >= 1e22 or abs(f) < 1e-12:
        raise NotLiteral("float magnitude")
    s = format(Decimal(f), "f")
    if "." not in s:
        s += ".0"
    if len(s) > 80:
        # shortest repr that round-trips, in positional notation
        s = format(Decimal(repr(f)), "f")
        if "." not in s:
            s += ".0"
    return s


def ts_lit(t):
    if not (-62135596800 <= t.secs <= 253402300799):
        raise NotLiteral("timestamp range")
    dt = datetime.datetime(1970, 1, 1, tzinfo=datetime.timezone.utc) + datetime.timedelta(seconds=t.secs)
    if dt.year < 1 or dt.year > 9999:
        raise NotLiteral("timestamp range")
    base = "%04d-%02d-%02dT%02d:%02d:%02d" % (dt.year, dt.month, dt.day, dt.hour, dt.minute, dt.second)
    if t.nanos:
        base += ".%09d" % t.nanos
    return "t'%sZ'" % base


def lit(v):
    if v is None:
        return "null"
    if v is True:
        return "true"
    if v is False:
        return "false"
    t = type(v)
    if t is int:
        if v == -(1 << 63):
            return "(-9223372036854775807 - 1)"
        return str(v)
    if t is float:
        return float_lit(v)
    if t is bytes:
        return str_lit(v)
    if t is Ts:
        return ts_lit(v)
    if t is Rx:
        if "'" in v or "\n" in v:
            raise NotLiteral("regex quote")
        return "r'%s'" % str(v)
    if t is list:
        return "[" + ", ".join(lit(x) for x in v) + "]"
    if t is dict:
        return "{" + ", ".join("%s: %s" % (str_lit(k), lit(x)) for k, x in v.items()) + "}"
    raise NotLiteral(repr(v))


def is_plain_field(name):
    if not name:
        return False
    c0 = name[0]
    if not (c0.isascii() and (c0.isalpha() or c0 == "_" or c0 == "@")):
        return False
    return all(ch.isascii() and (ch.isalnum() or ch in "_@") for ch in name)


def field_seg(name):
    return name if is_plain_field(name) else str_lit(name)


def path_text(prefix, segs):
    """segs: list of ('f', name) / ('i', n). prefix: '.', '%', or a variable name."""
    out = [prefix]
    first = True
    for kind, x in segs:
        if kind == "f":
            if first and prefix in (".", "%"):
                out.append(field_seg(x))
            else:
                out.append("." + field_seg(x))
        else:
            out.append("[%d]" % x)
        first = False
    return "".join(out)
