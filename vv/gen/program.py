"""Grammar-directed generator of VRL programs in the *core* (modelled) subset, with an
approximate kind / fallibility estimate that biases towards programs the compiler accepts.
The compiler remains the judge of acceptance; rejected programs are counted and skipped.

Core schema (external event kind, exact):
  a,b: integer   c: float   s,t: bytes   f,g: boolean   n: null
  arr: array<integer>   obj: object{k1: integer, k2: bytes, ...any}   x,y,z: any
Unknown fields of the event: any (so new fields may be written and read back as any).
"""
from ..wire import enc
from . import values as gv
from .ast import L

INT, FLOAT, STR, BOOL, NULL, ARR, OBJ = "int", "float", "str", "bool", "null", "arr", "obj"
SCALARS = [INT, FLOAT, STR, BOOL]
ALLK = [INT, FLOAT, STR, BOOL, NULL, ARR, OBJ]

CORE_SCHEMA = {
    "p": [],
    "o": {"k": {
        "a": {"p": ["integer"]}, "b": {"p": ["integer"]}, "c": {"p": ["float"]},
        "s": {"p": ["bytes"]}, "t": {"p": ["bytes"]},
        "f": {"p": ["boolean"]}, "g": {"p": ["boolean"]}, "n": {"p": ["null"]},
        "arr": {"p": [], "a": {"k": {}, "u": {"p": ["integer"]}}},
        "obj": {"p": [], "o": {"k": {"k1": {"p": ["integer"]}, "k2": {"p": ["bytes"]}}, "u": {"inf": "any"}}},
        "x": "any", "y": "any", "z": "any",
    }, "u": {"inf": "any"}},
}

FIELD_KIND = {"a": INT, "b": INT, "c": FLOAT, "s": STR, "t": STR, "f": BOOL, "g": BOOL, "n": NULL,
              "arr": ARR, "obj": OBJ}
ANY_FIELDS = ["x", "y", "z"]

ASCII_WORDS = [b"", b"a", b"b", b"foo", b"bar", b"Baz", b"hello world", b"X1", b"k", b"zz", b"0", b"true"]


def core_event(rng):
    """An event conforming to CORE_SCHEMA (ASCII strings only: the interpreter models
    upcase/downcase on ASCII)."""
    def anyval(d=2):
        r = rng.random()
        if r < 0.15:
            return None
        if r < 0.30:
            return rng.random() < 0.5
        if r < 0.50:
            return rng.choice([0, 1, -1, 2, 7, 100, gv.I64_MAX, gv.I64_MIN, rng.randint(-50, 50)])
        if r < 0.60:
            return rng.choice([0.0, 1.5, -2.25, 1e10, 0.1])
        if r < 0.78:
            return rng.choice(ASCII_WORDS)
        if d <= 0:
            return 3
        if r < 0.89:
            return [anyval(d - 1) for _ in range(rng.randint(0, 3))]
        return {k: anyval(d - 1) for k in rng.sample(["p", "q", "r", "k1"], rng.randint(0, 3))}
    ev = {
        "a": rng.choice([0, 1, 2, -3, 7, 10, 1 << 40, gv.I64_MAX, gv.I64_MIN, rng.randint(-100, 100)]),
        "b": rng.choice([0, 0, 1, -1, 2, 5, rng.randint(-4, 4)]),
        "c": rng.choice([0.0, 1.5, -2.5, 1e300, 3.25]),
        "s": rng.choice(ASCII_WORDS), "t": rng.choice(ASCII_WORDS),
        "f": rng.random() < 0.5, "g": rng.random() < 0.5, "n": None,
        "arr": [rng.randint(-5, 9) for _ in range(rng.choice([0, 1, 2, 3, 5]))],
        "obj": {"k1": rng.randint(-9, 9), "k2": rng.choice(ASCII_WORDS)},
        "x": anyval(), "y": anyval(), "z": anyval(),
    }
    if rng.random() < 0.4:
        ev["obj"]["extra"] = anyval(1)
    if rng.random() < 0.3:
        ev["w"] = anyval(1)
    return dict(sorted(ev.items()))


class Opts:
    def __init__(self, **kw):
        self.abort = False          # allow `abort`
        self.ret = False            # allow `return`
        self.bang = False           # allow f!()
        self.closures = True
        self.assign2 = True
        self.coalesce = True
        self.markers = True
        self.max_stmts = 6
        self.max_depth = 3
        self.shadow_params = 0.3    # probability that a closure parameter shadows a variable
        self.ctl_p = 0.25           # probability of injecting a control block into an expression
        self.closure_fail_p = 0.3
        self.side_effect_p = 0.5    # probability of side effects in short-circuit operands
        self.probes = False         # statement probes on live variables / paths after statements
        self.wrap_probes = 0.0      # probability of wrapping an infallible sub-expression in a probe
        self.stdlib = None          # list of stdlib function descriptors for arbitrary calls
        self.stdlib_p = 0.0         # probability that a statement is a stdlib call
        self.var_paths = 0.0        # probability of variable path targets / reads / del on variables
        self.const_bias = 0.0       # bias towards literal assignments (constant flows)
        self.target_bias = 0.0      # bias towards event / metadata reads, writes, del, exists, unnest
        self.unhandled_p = 0.0      # probability of emitting a (believed) fallible expression unhandled
        for k, v in kw.items():
            setattr(self, k, v)


class Gen:
    def __init__(self, rng, opts=None):
        self.rng = rng
        self.o = opts or Opts()
        self.marker = 0
        self.site = 0
        self.varn = 0
        self.vars = {}      # name -> kind (INT.. or "any")
        self.in_closure = 0
        self.scope_depth = 0
        self.params_used = []   # (name, shadowed: bool)
        self.ctl_sites = []     # kinds of control statements emitted with their context
        self.probe_n = 0
        self.probe_info = {}    # tag -> {"kind": "stmt"|"wrap", ...}
        self.perturbed = set()  # variables written through paths / del / closures / branches
        self.const_vars = []    # integer variables assigned a non-zero literal at top level

    # -- small helpers
    def p(self, x):
        return self.rng.random() < x

    def choice(self, xs):
        return self.rng.choice(xs)

    def fresh_var(self):
        self.varn += 1
        return "v%d" % self.varn

    def next_marker(self):
        self.marker += 1
        return ["assign", ["tpath", ".", [["f", "m%d" % self.marker]]], L(self.marker)]

    def vars_of(self, kind):
        return [n for n, k in self.vars.items() if k == kind]

    # -- expressions: returns (node, fallible)
    def lit(self, kind):
        r = self.rng
        if kind == INT:
            return L(r.choice([0, 1, 2, 3, -1, 10, 42, gv.I64_MAX, r.randint(-20, 20)]))
        if kind == FLOAT:
            return L(r.choice([0.5, 1.5, 2.0, -3.25, 100.0]))
        if kind == STR:
            return L(r.choice(ASCII_WORDS))
        if kind == BOOL:
            return L(r.random() < 0.5)
        if kind == NULL:
            return L(None)
        if kind == ARR:
            return L([r.randint(0, 9) for _ in range(r.randint(0, 3))])
        if kind == OBJ:
            return L({k: r.randint(0, 9) for k in r.sample(["p", "q", "r"], r.randint(0, 3))})
        raise ValueError(kind)

    def atom(self, kind):
        """Infallible atom of the given kind."""
        opts = ["lit"]
        fields = [f for f, k in FIELD_KIND.items() if k == kind]
        if fields:
            opts += ["field", "field"]
        vs = self.vars_of(kind)
        if vs:
            opts += ["var", "var", "var"]
        c = self.choice(opts)
        if c == "field":
            return ["path", ".", [["f", self.choice(fields)]]]
        if c == "var":
            return ["var", self.choice(vs)]
        return self.lit(kind)

    def any_atom(self):
        """Infallible expression whose compile-time kind is `any` (or unknown to us)."""
        opts = [["path", ".", [["f", self.choice(ANY_FIELDS)]]]]
        vs = self.vars_of("any")
        if vs:
            opts.append(["var", self.choice(vs)])
        if self.p(0.2):
            opts.append(["path", ".", [["f", "obj"], ["f", self.choice(["extra", "zz"])]]])
        return self.choice(opts)

    def expr(self, kind, fal_ok=False, d=None):
        e, f = self.expr0(kind, fal_ok, d)
        if self.o.wrap_probes and not f and e[0] in ("op", "call", "not") and self.p(self.o.wrap_probes):
            return self.new_probe("wrap", e, node=e[0] + ":" + str(e[1]) if e[0] != "not" else "not"), f
        return e, f

    def expr0(self, kind, fal_ok=False, d=None):
        """Expression of `kind`; returns (node, fallible_estimate)."""
        d = self.o.max_depth if d is None else d
        r = self.rng
        if kind == "any":
            if self.p(0.5):
                return self.any_atom(), False
            kind = self.choice(ALLK)
        if d <= 0:
            return self.atom(kind), False
        # control-flow injection (return / abort inside a nested block)
        if (self.o.abort or self.o.ret) and self.p(self.o.ctl_p) and d >= 1:
            return self.ctl_block(kind, fal_ok, d - 1)
        # fallible producers
        if fal_ok and self.p(0.55):
            return self.fallible(kind, d - 1), True
        c = r.random()
        if c < 0.30:
            return self.atom(kind), False
        if c < 0.40 and self.o.coalesce:
            # (fallible ?? infallible)
            lhs = self.fallible(kind, d - 1)
            rhs, rf = self.expr(kind, False, d - 1)
            return ["op", "??", lhs, rhs], rf
        if c < 0.48:
            # block expression
            stmts = self.stmts(self.rng.randint(0, 2), d - 1, scoped=True)
            e, f = self.scoped_expr(kind, fal_ok, d - 1)
            return ["block", stmts + [e]], f
        if c < 0.55:
            # if / else expression in a block or as a group-free statement-level expr
            pred, _ = self.expr(BOOL, False, d - 1)
            e1, f1 = self.scoped_expr(kind, fal_ok, d - 1)
            e2, f2 = self.scoped_expr(kind, fal_ok, d - 1)
            return ["block", [["if", [[[pred], [e1]]], [e2]]]], f1 or f2
        return self.compound(kind, d - 1), False

    def scoped_expr(self, kind, fal_ok, d):
        """Expression generated inside a nested lexical scope (new variables invisible outside)."""
        saved = dict(self.vars)
        self.scope_depth += 1
        e, f = self.expr(kind, fal_ok, d)
        self.scope_depth -= 1
        self.restore_scope(saved)
        return e, f

    def restore_scope(self, saved):
        new = {}
        for n, k in self.vars.items():
            if n in saved:
                new[n] = k if saved[n] == k else "any"
        self.vars = new

    def compound(self, kind, d):
        r = self.rng
        if kind == INT:
            c = r.random()
            if c < 0.5:
                a, _ = self.expr(INT, False, d)
                b, _ = self.expr(INT, False, d)
                return ["op", r.choice(["+", "-", "*"]), a, b]
            if c < 0.75:
                a, _ = self.expr(r.choice([ARR, STR]), False, d)
                return ["call", "length", [[None, a]], False, None]
            return self.atom(INT)
        if kind == FLOAT:
            c = r.random()
            if c < 0.4:
                a, _ = self.expr(r.choice([INT, FLOAT]), False, d)
                return ["op", "/", a, L(r.choice([1, 2, 4, -3, 2.5]))]
            if c < 0.7:
                a, _ = self.expr(FLOAT, False, d)
                b, _ = self.expr(r.choice([INT, FLOAT]), False, d)
                return ["op", r.choice(["+", "-", "*"]), a, b]
            return self.atom(FLOAT)
        if kind == STR:
            c = r.random()
            if c < 0.35:
                a, _ = self.expr(STR, False, d)
                b, _ = self.expr(STR, False, d)
                return ["op", "+", a, b]
            if c < 0.6:
                a, _ = self.expr(STR, False, d)
                return ["call", r.choice(["upcase", "downcase"]), [[None, a]], False, None]
            return self.atom(STR)
        if kind == BOOL:
            c = r.random()
            if c < 0.2:
                k = r.choice([INT, FLOAT, STR])
                a, _ = self.expr(k, False, d)
                b, _ = self.expr(k, False, d)
                return ["op", r.choice(["==", "!=", "<", "<=", ">", ">="]), a, b]
            if c < 0.3:
                a, _ = self.expr("any", False, d)
                b, _ = self.expr("any", False, d)
                return ["op", r.choice(["==", "!="]), a, b]
            if c < 0.4:
                return ["call", "exists", [[None, ["path", ".", [["f", r.choice(["x", "w", "obj"])]] + ([["f", "extra"]] if r.random() < 0.3 else [])]]], False, None]
            if c < 0.5:
                return ["call", r.choice(["is_string", "is_integer", "is_null", "is_array", "is_object", "is_boolean"]),
                        [[None, self.any_atom()]], False, None]
            if c < 0.6:
                a, _ = self.expr(BOOL, False, d)
                return ["not", a]
            if c < 0.95:
                return self.short_circuit(d)
            return self.atom(BOOL)
        if kind == NULL:
            return self.atom(NULL)
        if kind == ARR:
            c = r.random()
            if c < 0.3:
                # the evaluation order of function arguments is private to each function: only the
                # first argument may carry side effects / control flow
                a, _ = self.expr(ARR, False, d)
                b = self.atom(INT)
                return ["call", "push", [[None, a], [None, b]], False, None]
            if c < 0.6:
                n = r.randint(0, 3)
                return ["arr", [self.expr(r.choice([INT, STR, BOOL]), False, d)[0] for _ in range(n)]]
            return self.atom(ARR)
        if kind == OBJ:
            c = r.random()
            if c < 0.3:
                a, _ = self.expr(OBJ, False, d)
                b, _ = self.expr(OBJ, False, d)
                return ["op", "|", a, b]
            if c < 0.6:
                keys = r.sample(["p", "q", "r", "k1", "a b"], r.randint(0, 3))
                return ["obj", [[k, self.expr(r.choice([INT, STR, BOOL]), False, d)[0]] for k in keys]]
            if c < 0.7:
                a, _ = self.expr(OBJ, False, d)
                b = self.atom(OBJ)
                return ["call", "merge", [[None, a], [None, b]], False, None]
            return self.atom(OBJ)
        raise ValueError(kind)

    def side_effect_operand(self, kind, d):
        """An infallible operand of `kind` that has a visible side effect (marker write / del)."""
        e, _ = self.expr(kind, False, d)
        eff = self.next_marker() if self.p(0.7) else ["call", "del", [[None, ["path", ".", [["f", self.choice(["w", "x", "y"])]]]]], False, None]
        return ["block", [eff, e]]

    def short_circuit(self, d):
        """Boolean-valued `||` / `&&` with lhs drawn from bool / null-ish and side-effecting rhs."""
        r = self.rng
        op = r.choice(["||", "&&"])
        c = r.random()
        if c < 0.6:
            lhs, _ = self.expr(BOOL, False, d)
        elif c < 0.8:
            lhs = L(None)
        else:
            lhs = ["path", ".", [["f", "n"]]]
        if self.p(self.o.side_effect_p):
            rhs = self.side_effect_operand(BOOL, d)
        else:
            rhs, _ = self.expr(BOOL, False, d)
        return ["op", op, lhs, rhs]

    def fallible(self, kind, d):
        """Expression of `kind` that the compiler types fallible."""
        r = self.rng
        a = self.any_atom()
        assertion = {INT: "int", FLOAT: "float", STR: "string", BOOL: "bool", ARR: "array", OBJ: "object"}
        if kind == NULL:
            # { fallible; null }
            inner = self.fallible(r.choice([INT, STR]), d)
            return ["block", [inner, L(None)]]
        c = r.random()
        if d > 0 and c < 0.2:
            # block whose last expression is fallible
            stmts = self.stmts(r.randint(0, 2), d - 1, scoped=True)
            saved = dict(self.vars)
            inner = self.fallible(kind, d - 1)
            self.restore_scope(saved)
            return ["block", stmts + [inner]]
        if kind == FLOAT and c < 0.7:
            num, _ = self.expr(r.choice([INT, FLOAT]), False, d)
            den = r.choice([["path", ".", [["f", "b"]]]] + [["var", v] for v in self.vars_of(INT)])
            return ["op", "/", num, den]
        if kind == BOOL and c < 0.5:
            return ["op", r.choice(["<", ">", "<=", ">="]), a, self.lit(INT)]
        if kind == STR and c < 0.45:
            return ["op", "+", a, self.atom(STR)]
        if kind == ARR and c < 0.4:
            return ["call", "push", [[None, a], [None, self.lit(INT)]], False, None]
        return ["call", assertion[kind], [[None, a]], False, None]

    def ctl_block(self, kind, fal_ok, d):
        """{ if pred { return e | abort [msg] }; fallback } of kind `kind`."""
        r = self.rng
        pred, _ = self.expr(BOOL, False, min(d, 1))
        which = []
        if self.o.ret:
            which.append("return")
        if self.o.abort:
            which.append("abort")
        w = r.choice(which)
        if w == "return":
            rv, _ = self.expr(r.choice(SCALARS), False, min(d, 1))
            ctl = ["return", rv]
        else:
            ctl = ["abort", None] if self.p(0.4) else ["abort", self.lit(STR) if self.p(0.7) else self.atom(STR)]
        self.ctl_sites.append(w)
        fb, ff = self.scoped_expr(kind, fal_ok, d)
        pre = [self.next_marker()] if self.p(0.3) else []
        post = [self.next_marker()] if self.p(0.5) else []
        if self.p(0.15):
            # unconditional
            return ["block", pre + [["if", [[[L(True)], [ctl]]], None]] + post + [fb]], ff
        return ["block", pre + [["if", [[[pred], [ctl]]], None]] + post + [fb]], ff

    # -- statements
    def stmts(self, n, d, scoped=False):
        saved = dict(self.vars) if scoped else None
        if scoped:
            self.scope_depth += 1
        out = []
        for _ in range(n):
            out.extend(self.stmt(d))
            if self.o.probes:
                out.extend(self.stmt_probes())
        if scoped:
            self.scope_depth -= 1
            self.restore_scope(saved)
        return out

    def new_probe(self, kind, expr, **info):
        self.probe_n += 1
        tag = "p%d" % self.probe_n
        info["kind"] = kind
        info["in_closure"] = self.in_closure
        self.probe_info[tag] = info
        return ["probe", tag, expr]

    def stmt_probes(self):
        """Probes on live variables and on a few event paths (type- and value-transparent)."""
        out = []
        names = list(self.vars)
        self.rng.shuffle(names)
        for name in names[:3]:
            out.append(self.new_probe("stmt", ["var", name], var=name, perturbed=name in self.perturbed))
            if self.vars.get(name) in (OBJ, "any") and self.p(0.4):
                out.append(self.new_probe("stmt", ["path", name, [["f", self.choice(["p", "q", "k1"])]]],
                                          var=name, perturbed=name in self.perturbed, sub=True))
        if self.p(0.4):
            f = self.choice(["o1", "o2", "o3", "o4", "o5", "w", "x", "obj", "arr", "nest"])
            out.append(self.new_probe("stmt", ["path", ".", [["f", f]]], path=f))
        if self.p(0.1):
            out.append(self.new_probe("stmt", ["path", "%", [["f", self.choice(["m1", "m2"])]]], path="%"))
        return out

    def target_for(self, kind):
        """A write target and bookkeeping; returns target node."""
        r = self.rng
        c = r.random()
        if self.o.var_paths and self.p(self.o.var_paths):
            vs = self.vars_of(OBJ) + self.vars_of("any")
            if vs:
                name = r.choice(vs)
                self.perturbed.add(name)
                segs = [["f", r.choice(["p", "q", "k1"])]]
                if self.p(0.2):
                    segs.append(["f", "z"] if self.p(0.5) else ["i", r.choice([0, 1, -1])])
                return ["tvar", name, segs]
        if c < 0.45:
            # variable (new or existing)
            if self.vars and self.p(0.4):
                name = r.choice(list(self.vars))
                if self.in_closure or self.scope_depth:
                    self.perturbed.add(name)
            else:
                name = self.fresh_var()
            self.vars[name] = kind
            return ["tvar", name, []]
        if c < 0.8:
            f = r.choice(["o1", "o2", "o3", "w", "x", "y"])
            return ["tpath", ".", [["f", f]]]
        if c < 0.9:
            return ["tpath", ".", [["f", r.choice(["o4", "nest"])], ["f", r.choice(["p", "q"])]]]
        if c < 0.95:
            return ["tpath", ".", [["f", "o5"], ["i", r.choice([0, 1, 2, -1])]]]
        return ["tpath", "%", [["f", r.choice(["m1", "m2"])]]]

    def stdlib_stmt(self, d):
        """target = f!(args) / f(args) ?? null  for an arbitrary stdlib function."""
        from . import stdlib_args as sa
        r = self.rng
        f = r.choice(self.o.stdlib)
        call = sa.choose_call(r, f, literal_p=0.5)
        vals = sa.choose_values(r, call)
        args = []
        for (p, kind, form), v in zip(call.used, vals):
            e = None
            if form != "lit":
                k = {"bytes": STR, "integer": INT, "float": FLOAT, "boolean": BOOL, "array": ARR,
                     "object": OBJ, "null": NULL}.get(kind)
                if k is not None and self.p(0.6):
                    e, _ = self.expr(k, False, min(d, 1))
                elif self.p(0.3):
                    e = self.any_atom()
            if e is None:
                try:
                    from .lit import lit as _lit
                    _lit(v)
                    e = L(v)
                except Exception:
                    e = self.any_atom()
            args.append([p["keyword"], e])
        if f["closure"]:
            return []
        node = ["call", f["id"], args, True, None]
        return [["assign", self.target_for("any"), node]]

    def ext_path(self, write=False):
        r = self.rng
        prefix = "%" if r.random() < 0.2 else "."
        base = r.choice(["o1", "o2", "w", "x", "obj", "arr", "nest", "o5", "s", "deep"])
        segs = [["f", base]]
        for _ in range(r.choice([0, 0, 1, 1, 2])):
            if r.random() < 0.3:
                segs.append(["i", r.choice([0, 1, 2, -1, -2])])
            else:
                segs.append(["f", r.choice(["p", "q", "k1", "k2", "a b", "extra"])])
        return prefix, segs

    def target_stmt(self, d):
        """Statement that touches the external target in a nested construct."""
        r = self.rng
        c = r.random()
        prefix, segs = self.ext_path()
        if c < 0.25:
            e, _ = self.expr(r.choice(ALLK + ["any"]), False, min(d, 2))
            return [["assign", ["tpath", prefix, segs], e]]
        if c < 0.40:
            p2, s2 = self.ext_path()
            if self.p(0.25):
                s2 = []            # bare root query: `.` / `%`
            name = self.fresh_var()
            self.vars[name] = "any"
            return [["assign", ["tvar", name, []], ["path", p2, s2]]]
        if c < 0.55:
            args = [[None, ["path", prefix, segs]]]
            if r.random() < 0.3:
                args.append(["compact", L(r.random() < 0.5)])
            call = ["call", "del", args, False, None]
            if r.random() < 0.5:
                return [["assign", self.target_for("any"), call]]
            return [call]
        if c < 0.65:
            name = self.fresh_var()
            self.vars[name] = BOOL
            return [["assign", ["tvar", name, []], ["call", "exists", [[None, ["path", prefix, segs]]], False, None]]]
        if c < 0.78 and self.o.assign2:
            # infallible assignment to two external targets
            kind = r.choice([INT, STR, BOOL, ARR, OBJ])
            e = self.fallible(kind, min(d, 1))
            p2, s2 = self.ext_path()
            return [["assign2", ["tpath", prefix, segs], ["tpath", p2, s2 + [["f", "err"]]], e, "x%d" % r.randint(0, 10 ** 6)]]
        if c < 0.86:
            e, _ = self.expr(OBJ, False, min(d, 1))
            tp = ["tpath", prefix, [["f", r.choice(["obj", "o1", "nest"])]]]
            if self.o.bang or True:
                # `|=` needs an object target: fall back to handling the failure
                return [["assign", tp, ["op", "??", ["op", "|", ["call", "object", [[None, ["path", tp[1], tp[2]]]], False, None], e], e]]]
        if c < 0.93 and self.o.bang:
            name = self.fresh_var()
            self.vars[name] = "any"
            return [["assign", ["tvar", name, []], ["op", "??", ["call", "unnest", [[None, ["path", ".", [["f", r.choice(["arr", "o5", "x"])]]]]], False, None], L(None)]]]
        pred = ["call", "exists", [[None, ["path", prefix, segs]]], False, None]
        body = self.stmts(1, max(d - 1, 0), scoped=True)
        return [["if", [[[pred], body]], None]]

    def stmt(self, d):
        r = self.rng
        out = []
        if self.o.stdlib and self.o.bang and self.p(self.o.stdlib_p):
            return self.stdlib_stmt(d)
        if self.o.var_paths and self.p(self.o.var_paths * 0.5):
            vs = self.vars_of(OBJ) + self.vars_of("any")
            if vs:
                name = r.choice(vs)
                self.perturbed.add(name)
                return [["call", "del", [[None, ["path", name, [["f", r.choice(["p", "q", "k1"])]]]]], False, None]]
        if self.o.const_bias and self.const_vars and self.p(self.o.const_bias * 0.35):
            # an arithmetic expression whose left operand changes the variable that the right operand
            # reads: the compiler may only use the constant the variable has *after* the left operand ran.
            # Deliberately unhandled: a correct compiler rejects it as fallible (counted as a rejection).
            x = r.choice(self.const_vars)
            lhs = r.choice([
                ["block", [["assign", ["tvar", x, []], L(0)], L(10)]],
                ["grp", ["assign", ["tvar", x, []], L(0)]],
                ["block", [["assign", ["tvar", x, []], L(r.choice([0, 0.0]))], self.lit(INT)]],
            ])
            self.perturbed.add(x)
            name = self.fresh_var()
            self.vars[name] = FLOAT
            return [["assign", ["tvar", name, []], ["op", "/", lhs, ["var", x]]]]
        if self.o.const_bias and self.p(self.o.const_bias):
            kind = r.choice([INT, INT, FLOAT, STR, BOOL, OBJ, ARR])
            if kind == INT and self.p(0.4):
                e = ["op", r.choice(["+", "-", "*"]), self.lit(INT), self.lit(INT)]
            elif kind == OBJ:
                e = L({"p": r.randint(0, 9), "q": r.choice([0, 2, 5])})
            else:
                e = self.lit(kind)
            name = self.fresh_var() if not self.vars or self.p(0.6) else r.choice(list(self.vars))
            if name in self.vars and (self.in_closure or self.scope_depth):
                self.perturbed.add(name)
            self.vars[name] = kind
            if kind == INT and e[0] == "lit" and e[1] != 0 and not self.in_closure and not self.scope_depth:
                if name not in self.const_vars:
                    self.const_vars.append(name)
            return [["assign", ["tvar", name, []], e]]
        if self.o.unhandled_p and self.p(self.o.unhandled_p):
            # A call / operation the generator believes fallible, deliberately left unhandled: a
            # correct compiler rejects the program (counted); if it is accepted, the compiler claims
            # the expression cannot fail, and a runtime failure is a violation.
            kind = r.choice([INT, STR, BOOL, ARR, OBJ, FLOAT])
            vs = self.vars_of("any")
            if vs and self.p(0.7):
                v = ["var", r.choice(vs)]
                assertion = {INT: "int", FLOAT: "float", STR: "string", BOOL: "bool", ARR: "array", OBJ: "object"}
                e = r.choice([["call", assertion[kind], [[None, v]], False, None],
                              ["call", r.choice(["upcase", "downcase", "length"]), [[None, v]], False, None],
                              ["op", "+", v, self.lit(INT)], ["op", "<", v, self.lit(INT)]])
            else:
                e = self.fallible(kind, min(d, 1))
            return [["assign", self.target_for("any"), e]]
        if self.o.target_bias and self.p(self.o.target_bias):
            return self.target_stmt(d)
        c = r.random()
        if c < 0.34:
            kind = r.choice(ALLK + ["any"])
            e, _ = self.expr(kind, False, d)
            out.append(["assign", self.target_for(kind), e])
        elif c < 0.46 and self.o.assign2:
            kind = r.choice([INT, FLOAT, STR, BOOL, ARR, OBJ])
            e = self.fallible_maybe_ctl(kind, d)
            okn, errn = self.fresh_var(), self.fresh_var()
            self.site += 1
            site = "s%d" % self.site
            self.vars[okn] = "any"      # ok holds e's value or a default: treat as unknown
            self.vars[errn] = "any"
            out.append(["assign2", ["tvar", okn, []], ["tvar", errn, []], e, site])
            out.append(["probe", "ok@" + site, ["var", okn]])
            out.append(["probe", "err@" + site, ["var", errn]])
            if self.p(0.5):
                out.append(["assign", ["tpath", ".", [["f", "r_" + site]]], ["arr", [["var", okn], ["op", "==", ["var", errn], L(None)]]]])
        elif c < 0.62 and d > 0:
            out.append(self.if_stmt(d))
        elif c < 0.70:
            out.append(["call", "del", [[None, ["path", ".", [["f", r.choice(["w", "x", "o1", "obj"])]] + ([["f", "k1"]] if r.random() < 0.3 else [])]]]
                        + ([["compact", L(True)]] if r.random() < 0.2 else []), False, None])
        elif c < 0.76:
            e, _ = self.expr(OBJ, False, d)
            tgt = ["tpath", ".", [["f", "obj"]]] if self.p(0.6) else None
            if tgt is None:
                vs = self.vars_of(OBJ)
                tgt = ["tvar", r.choice(vs), []] if vs else ["tpath", ".", [["f", "obj"]]]
            out.append(["massign", tgt, e])
        elif c < 0.92 and self.o.closures and d > 0 and self.in_closure < 2:
            out.extend(self.closure_stmt(d))
        else:
            kind = r.choice(ALLK)
            e, _ = self.expr(kind, False, d)
            out.append(["assign", self.target_for(kind), e])
        if self.o.markers and self.p(0.6):
            out.append(self.next_marker())
        return out

    def fallible_maybe_ctl(self, kind, d):
        if (self.o.abort or self.o.ret) and self.p(0.5):
            e, f = self.ctl_block(kind, True, d)
            if f:
                return e
            # make sure the block is fallible: append a fallible tail
            return ["block", [e, self.fallible(kind, max(d - 1, 0))]]
        return self.fallible(kind, d)

    def if_stmt(self, d):
        r = self.rng
        arms = []
        for _ in range(r.choice([1, 1, 1, 2])):
            lead = []
            if self.p(0.2):
                pre = self.next_marker()
                pe, _ = self.expr(BOOL, False, d - 1)
                pred = [pre, pe]
            elif self.p(0.15):
                # the predicate itself changes the type of a variable / path, and the branch changes
                # it again: whichever way the predicate goes, the state after the `if` must cover it
                k1, k2 = r.sample(ALLK, 2)
                e1, _ = self.expr(k1, False, 0)
                e2, _ = self.expr(k2, False, 0)
                tgt = self.target_for("any")
                if tgt[0] == "tvar" and not tgt[2]:
                    self.perturbed.add(tgt[1])
                pe, _ = self.expr(BOOL, False, d - 1)
                pred = [["assign", tgt, e1], pe]
                if self.p(0.8):
                    lead = [["assign", tgt, e2]]
            else:
                pred = [self.expr(BOOL, False, d - 1)[0]]
            body = lead + self.stmts(r.randint(1, 2), d - 1, scoped=True)
            arms.append([pred, body])
        els = self.stmts(r.randint(1, 2), d - 1, scoped=True) if self.p(0.5) else None
        return ["if", arms, els]

    def closure_stmt(self, d):
        r = self.rng
        out = []
        fn = r.choice(["for_each", "for_each", "map_values", "map_keys", "filter"])
        over_obj = fn == "map_keys" or r.random() < 0.5
        if over_obj:
            src, _ = self.expr(OBJ, False, min(d - 1, 1))
        else:
            src, _ = self.expr(ARR, False, min(d - 1, 1))
        nparams = {"for_each": 2, "filter": 2, "map_values": 1, "map_keys": 1}[fn]
        params = []
        saved = dict(self.vars)
        for i in range(nparams):
            if fn in ("for_each", "filter") and self.p(0.2):
                params.append("_")      # ignored parameter: has no runtime identifier
                continue
            if self.vars and self.p(self.o.shadow_params):
                name = r.choice(list(self.vars))
                if name in params:
                    name = self.fresh_var()
                    self.params_used.append((name, False))
                else:
                    self.params_used.append((name, True))
            else:
                name = self.fresh_var()
                self.params_used.append((name, False))
            params.append(name)
        # parameter kinds as the closure sees them
        if fn in ("for_each", "filter"):
            if params[0] != "_":
                self.vars[params[0]] = STR if over_obj else INT
            if params[1] != "_":
                self.vars[params[1]] = "any"
        elif fn == "map_values":
            self.vars[params[0]] = "any"
        else:
            self.vars[params[0]] = STR
        self.in_closure += 1
        body = self.stmts(r.randint(0, 2), d - 1)
        fails = self.p(self.o.closure_fail_p)
        if fn == "for_each":
            tail, tf = self.expr(r.choice(ALLK), fails, d - 1)
            if fails and not tf:
                tail = self.fallible(r.choice([INT, STR, BOOL]), d - 1)
                tf = True
        elif fn == "map_values":
            tail, tf = self.expr(r.choice([INT, STR, BOOL]), fails, d - 1)
        elif fn == "map_keys":
            k = ["var", params[0]]
            tail = r.choice([["op", "+", k, L(b"_x")], ["call", "upcase", [[None, k]], False, None],
                             ["op", "+", L(b"p_"), k], k])
            tf = False
            if fails:
                tail = ["block", [self.fallible(r.choice([INT, STR]), d - 1), tail]]
                tf = True
        else:
            tail, tf = self.expr(BOOL, fails, d - 1)
        if self.o.ret and self.p(0.4):
            # `return` inside the closure body: ends the iteration with its value
            pred, _ = self.expr(BOOL, False, 1)
            if fn == "filter":
                rv = self.lit(BOOL)
            elif fn == "map_keys":
                rv = ["op", "+", ["var", params[0]], L(b"_r")]
            else:
                rv, _ = self.expr(r.choice(SCALARS), False, 1)
            self.ctl_sites.append("closure_return:" + fn)
            body.append(["if", [[[pred], [["return", rv]]]], None])
        if self.o.abort and self.p(0.2):
            pred, _ = self.expr(BOOL, False, 1)
            self.ctl_sites.append("closure_abort:" + fn)
            body.append(["if", [[[pred], [["abort", self.lit(STR)]]]], None])
        if self.o.markers and self.p(0.5):
            body.append(self.next_marker())
        body.append(tail)
        self.in_closure -= 1
        self.restore_scope(saved)
        call = ["call", fn, [[None, src]], False, [params, body]]
        res_kind = {"for_each": NULL, "map_values": "any", "map_keys": OBJ, "filter": "any"}[fn]
        if tf:
            # closure can fail => the call is fallible: handle it
            h = r.random()
            if h < 0.5 and self.o.coalesce:
                out.append(["assign", self.target_for("any"), ["op", "??", call, L(None)]])
            elif self.o.assign2:
                okn, errn = self.fresh_var(), self.fresh_var()
                self.site += 1
                site = "s%d" % self.site
                self.vars[okn] = "any"
                self.vars[errn] = "any"
                out.append(["assign2", ["tvar", okn, []], ["tvar", errn, []], call, site])
                out.append(["probe", "ok@" + site, ["var", okn]])
                out.append(["probe", "err@" + site, ["var", errn]])
            else:
                out.append(["assign", self.target_for("any"), ["op", "??", call, L(None)]])
        else:
            if fn == "for_each" and self.p(0.5):
                out.append(call)
            else:
                out.append(["assign", self.target_for(res_kind), call])
        return out

    def insertion_point(self, stmts):
        """A statement index that does not separate `ok, err = e` from its probes."""
        ks = [k for k in range(len(stmts) + 1) if k == len(stmts) or stmts[k][0] != "probe"]
        return self.rng.choice(ks)

    def program(self):
        n = self.rng.randint(2, self.o.max_stmts)
        stmts = self.stmts(n, self.o.max_depth)
        if (self.o.ret) and self.p(0.35):
            # top-level return at statement k
            k = self.insertion_point(stmts)
            rv, _ = self.expr(self.choice(SCALARS), False, 1)
            self.ctl_sites.append("top_return")
            if self.p(0.5):
                pred, _ = self.expr(BOOL, False, 1)
                stmts[k:k] = [["if", [[[pred], [["return", rv]]]], None]]
            else:
                stmts[k:k] = [["return", rv]]
                stmts[k + 1:k + 1] = [self.next_marker()]
        if self.o.abort and self.p(0.2):
            k = self.insertion_point(stmts)
            pred, _ = self.expr(BOOL, False, 1)
            self.ctl_sites.append("top_abort")
            stmts[k:k] = [["if", [[[pred], [["abort", self.lit(STR)]]]], None]]
        # final expression: something observable
        fin, _ = self.expr(self.choice(ALLK + ["any"]), False, 1)
        stmts.append(fin)
        return stmts
