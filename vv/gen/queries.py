"""Grammar-directed generator of Datadog search query texts (derived from
src/datadog/search/grammar.pest) plus mutations of the query strings used by the
repository's own tests. Pure functions of the rng; output: query text (str)."""

# characters with a syntactic role somewhere in the grammar (each one is generated escaped)
SPECIALS = [" ", "\t", ":", '"', "(", ")", "[", "]", "{", "}", "+", "-", "=", "<", ">", "!",
            "~", "^", "*", "?", "\\", "/", "&", "|", "@", ".", "#", "'", ",", "\n"]
# characters allowed raw after the first character of a TERM
MID_RAW = ["-", "+", "=", ".", "_", "/", "@", "&", "|", "#", "'", ",", "%", "$", ";"]
WORDS = ["a", "b", "foo", "bar", "baz", "x1", "Error", "vector", "web-01", "a.b", "user_id", "é",
         "日本", "TO", "to", "and", "or", "not", "null", "true", "e5", "E5", "inf", "nan", "NaN"]
KEYWORDS = ["AND", "OR", "NOT", "&&", "||", "ANDROID", "ORacle", "NOTE", "UNICODE3000", "TO"]
FIELDS = ["foo", "bar", "@a", "@a.b", "@b.c", "@http.status_code", "host", "service", "status",
          "source", "message", "tags", "env", "trace_id", "_default_", "_exists_", "_missing_",
          "_all", "k8s.pod", "a-b", "@a-b", "é"]
INTS = ["0", "1", "7", "10", "42", "400", "007", "9223372036854775807", "9223372036854775808",
        "99999999999999999999"]
FRACS = ["0.0", "1.0", "2.5", "0.5", "10.25", "3.14159", "100.0", "0.1", "1.50"]
EXPS = ["1E5", "1.5E3", "4.12345E-4", "1E-5", "2E0", "1E400", "1E-400", "1e5", "1.5e-3", "5E\\-3", "1E+5"]
RANGE_WORDS = ["*", "a", "z", "bar", "baz", "ba*", "b*z", "now", "TO", "inf", "-inf", "nan", "NaN",
               "infinity", '"a"', '"1"', '"x.y"', '""a""', '"', "+5", "0x10", "1_0", "a\\:b", "a\\\\b",
               "\\*", "1e5", "1e400", ".5", "5.", "-", "é"]

# query strings that appear in src/datadog/search/parser.rs tests and in the examples/tests of
# src/stdlib/match_datadog_query.rs
SEEDS = [
    "foo:bar", " ", "\t", "foo", '"foo bar"', "foo:(bar)", "foo:b\\ar", "foo:(b\\ar)", "foo:10",
    "foo:bar\\:baz", "fo\\o:bar\\:baz", "foo:<4.12345E-4", "foo:<4.12345E\\-4", "foo bar",
    "foo        bar", "foo bar baz AND qux quux quuz", "-foo:bar", "- foo:bar", "NOT foo:bar",
    'foo:"bar baz"', "foo:ba*", "foo:b*r", "foo:ba?", "foo:*ar", "foo:>=bar", "foo:[10 TO 20]",
    "foo:{bar TO baz}", "foo:[* TO *]", "foo:[ba* TO b*z]", "_exists_:foo", '_exists_:"foo"',
    "_exists_:foo\\ bar", "foo:*", "_missing_:foo", '_missing_:"foo"', "_missing_:foo\\ bar",
    "*:*", "*", "_default_:*", "foo:(*:*)", "_all:*", "NOT *:*", "NOT *", "NOT _default_:*",
    "NOT foo:(*:*)", "foo:(NOT *:*)", "foo:bar baz:qux quux:quuz",
    "NOT foo:bar baz:qux NOT quux:quuz", "NOT foo:bar baz:qux -quux:quuz",
    "-foo:bar baz:qux NOT quux:quuz", "-foo:bar baz:qux -quux:quuz",
    "foo:bar OR -baz:qux quux:quuz", "foo:bar OR NOT baz:qux quux:quuz",
    "foo:bar OR -baz:qux AND quux:quuz", "foo:bar OR NOT baz:qux AND quux:quuz",
    "foo:bar OR baz:qux quux:quuz", "foo:bar || baz:qux quux:quuz",
    "foo:bar OR baz:qux AND quux:quuz", "foo:bar || baz:qux && quux:quuz",
    "foo:bar (baz:qux quux:quuz)", "(foo:bar OR baz:qux) quux:quuz", "NOT (foo bar)", "-(foo bar)",
    "NOT foo bar", "- foo bar", "NOT foo:(bar baz)", "-foo:(bar baz)",
    # match_datadog_query.rs
    "this OR that", "this AND that", "@name:foo*", 'b:["x" TO "z"]', "_exists_:message",
    "NOT _exists_:message", "-_exists_:message", "_exists_:@a", "_exists_:@a-b", "tags:a",
    "_missing_:@c-d", "@a:*tor", "@a:[* TO 400]", "@a:[1 TO 6]", "@a:[50 TO *]", "@a:v*c*r",
    "@a:vec*", "@level:[7 TO 10]", "@level:[7.0 TO 10.0]", "@z:1", '@\\"a-b\\":1', "@a%:3", "@a-b:3",
    "-{1 TO 2}", "NOT {* TO 3}", "{1 TO *}", "[* TO 4]", '-@a:["1" TO "60"]', '@a:[* TO "400"]',
    "-v*c*r", "*tor", "-*tor", "y:2", "NOT match", "-tags:a",
    "host:this OR ((@b:test* AND c:that) AND d:the_other @e:[1 TO 5])",
    "this AND (that OR the_other)", "this AND -(that OR the_other)",
    "this AND NOT (that OR the_other)", "this OR NOT that", "this OR (that AND the_other)",
]


def esc(ch):
    return "\\" + ch


def gen_term(rng, allow_kw=True):
    """Text of a TERM (the escaped, textual form)."""
    r = rng.random()
    if r < 0.30:
        return rng.choice(WORDS)
    if r < 0.38:
        return rng.choice(INTS + FRACS)
    if r < 0.44 and allow_kw:
        # a keyword made into a term by escaping its first character
        kw = rng.choice(KEYWORDS)
        return "\\" + kw if rng.random() < 0.8 else kw[0] + "\\" + kw[1:]
    if r < 0.50:
        return "\\-" + rng.choice(INTS + FRACS)
    # free composition: first char, then a few chars, some escaped specials
    out = []
    n = rng.randint(1, 5)
    for i in range(n):
        q = rng.random()
        if q < 0.45:
            out.append(rng.choice("abcxyzAZ019_é"))
        elif q < 0.80:
            out.append(esc(rng.choice(SPECIALS)))
        elif q < 0.90 and i > 0:
            out.append(rng.choice(MID_RAW))
        elif q < 0.95:
            out.append(esc(rng.choice("abnt0Eu")))
        else:
            out.append(rng.choice(WORDS))
    return "".join(out)


def gen_phrase(rng):
    n = rng.randint(0, 4)
    out = []
    for _ in range(n):
        q = rng.random()
        if q < 0.4:
            out.append(rng.choice(WORDS))
        elif q < 0.6:
            out.append(" ")
        elif q < 0.75:
            out.append(rng.choice(['\\"', "\\\\", "\\n", "\\ "]))
        elif q < 0.9:
            out.append(rng.choice([c for c in SPECIALS if c not in '"\\']))
        else:
            out.append(rng.choice(KEYWORDS))
    return '"' + "".join(out) + '"'


def gen_glob(rng):
    parts = []
    for _ in range(rng.randint(1, 4)):
        q = rng.random()
        if q < 0.35:
            parts.append("*")
        elif q < 0.5:
            parts.append("?")
        elif q < 0.85:
            parts.append(rng.choice(["a", "b", "foo", "v", "c", "1", "é"]))
        else:
            parts.append(esc(rng.choice(SPECIALS)))
    s = "".join(parts)
    if "*" not in s and "?" not in s:
        s += rng.choice("*?")
    return s


def gen_number(rng):
    r = rng.random()
    sign = rng.choice(["", "", "-", "\\-"])
    if r < 0.4:
        return sign + rng.choice(INTS)
    if r < 0.7:
        return sign + rng.choice(FRACS)
    return sign + rng.choice(EXPS)


def gen_range_value(rng):
    r = rng.random()
    if r < 0.18:
        return "*"
    if r < 0.55:
        s = gen_number(rng)
        return s.replace("\\-", "-") if rng.random() < 0.7 else s
    if r < 0.85:
        return rng.choice(RANGE_WORDS)
    t = gen_term(rng)
    return t.replace(" ", "_").replace("\t", "_").replace("\n", "_").replace("]", "").replace("}", "") or "a"


def gen_range(rng):
    lo, hi = gen_range_value(rng), gen_range_value(rng)
    r = rng.random()
    if r < 0.45:
        l, u = "[", "]"
    elif r < 0.90:
        l, u = "{", "}"
    else:
        l, u = rng.choice([("[", "}"), ("{", "]")])
    sp = rng.choice([" ", " ", "  "])
    return "%s%s%sTO%s%s%s" % (l, lo, sp, sp, hi, u)


def gen_comparison(rng):
    op = rng.choice([">", ">=", "<", "<="])
    r = rng.random()
    if r < 0.6:
        return op + gen_number(rng)
    if r < 0.7:
        return op + "\\" + rng.choice(INTS + FRACS)
    return op + gen_term(rng)


def gen_field(rng):
    r = rng.random()
    if r < 0.75:
        return rng.choice(FIELDS)
    if r < 0.85:
        f = rng.choice(FIELDS)
        i = rng.randrange(len(f) + 1)
        return f[:i] + esc(rng.choice(SPECIALS)) + f[i:]
    return gen_term(rng, allow_kw=False)


def gen_value(rng):
    r = rng.random()
    if r < 0.30:
        return gen_term(rng)
    if r < 0.42:
        return gen_phrase(rng)
    if r < 0.52:
        return gen_term(rng, allow_kw=False) + "*"
    if r < 0.64:
        return gen_glob(rng)
    if r < 0.78:
        return gen_comparison(rng)
    if r < 0.95:
        return gen_range(rng)
    return "*"


def gen_clause(rng, depth):
    r = rng.random()
    if r < 0.04:
        return rng.choice(["*:*", "*"])
    if r < 0.16 and depth > 0:
        f = (gen_field(rng) + ":") if rng.random() < 0.5 else ""
        return "%s(%s)" % (f, gen_query(rng, depth - 1))
    if r < 0.30:
        # bare default-field words (multiterm)
        return " ".join(gen_term(rng) for _ in range(rng.randint(1, 3)))
    if r < 0.40:
        return "%s:%s" % (rng.choice(["_exists_", "_missing_"]),
                          rng.choice([gen_field(rng), gen_phrase(rng), gen_term(rng)]))
    f = (gen_field(rng) + ":") if rng.random() < 0.8 else ""
    return f + gen_value(rng)


def gen_query(rng, depth=2):
    n = rng.choice([1, 1, 1, 2, 2, 3, 4])
    out = []
    for i in range(n):
        if i > 0:
            out.append(rng.choice([" ", " ", " AND ", " OR ", " && ", " || ", "  ", " AND NOT ", " OR -"]))
        m = rng.random()
        if m < 0.12:
            out.append("NOT ")
        elif m < 0.22:
            out.append("-")
        elif m < 0.25:
            out.append("+")
        elif m < 0.27:
            out.append("- ")
        out.append(gen_clause(rng, depth))
    return "".join(out)


def mutate(rng, q):
    """One small textual mutation of a query string."""
    r = rng.random()
    if not q:
        return gen_query(rng, 1)
    i = rng.randrange(len(q) + 1)
    if r < 0.25:
        return q[:i] + esc(rng.choice(SPECIALS)) + q[i:]
    if r < 0.40:
        return q[:i] + rng.choice(SPECIALS + ["TO", "AND", "OR", "NOT", "1.0", "1E3", "*", "?"]) + q[i:]
    if r < 0.50 and i < len(q):
        return q[:i] + q[i + 1:]
    if r < 0.60 and i < len(q):
        return q[:i] + rng.choice("ab1* \\\"():[]{}-") + q[i + 1:]
    if r < 0.72:
        return "%s%s%s" % (q, rng.choice([" ", " AND ", " OR ", " -", " NOT "]), rng.choice(SEEDS))
    if r < 0.80:
        return "%s(%s)" % (rng.choice(["", "-", "NOT ", "foo:", "@a:", "_exists_:"]), q)
    if r < 0.90:
        # replace a number by another numeric form
        for tok in ("10", "20", "400", "4", "6", "1", "7.0", "50"):
            if tok in q:
                return q.replace(tok, gen_number(rng), 1)
        return q + " " + gen_clause(rng, 0)
    return q.replace(" ", rng.choice(["  ", "\t", "\\ "]), 1)


def gen_any(rng):
    r = rng.random()
    if r < 0.62:
        return gen_query(rng, 2)
    q = rng.choice(SEEDS)
    if r < 0.66:
        return q
    for _ in range(rng.choice([1, 1, 2, 3])):
        q = mutate(rng, q)
    return q
