"""Source-text corpus and mutators for compile / diagnostics fuzzing (C04, C33)."""
import glob
import os
import random

from . import stdlib_args as sa
from .program import Gen, Opts
from . import ast as A

REPO = os.environ.get("VV_REPO", "/repo")

UNI_INJECT = ["\u00a0", "\u2003", "\u3000", "​", "́", "‮", "😀", "é", "日本", "İ", "ǆ", " ", "﻿",
              "\t", "\r\n", "Ω", "ß"]
TOKENS = ["(", ")", "[", "]", "{", "}", ".", ",", ":", ";", "!", "?", "??", "||", "&&", "|", "=", "==", "!=",
          "+", "-", "*", "/", "%", "->", "|=", "<", ">", "<=", ">=", "\"", "'", "\\", "\n", " ", "#", "_",
          "if", "else", "abort", "return", "null", "true", "false", "r'", "t'", "s'", "{{", "}}",
          ".a", ".a.b", ".a[0]", ".a[-1]", "%m", "x", "x.y", "1", "0", "-1", "1.5", "9223372036854775807",
          "9223372036854775808", "-9223372036854775808", "99999999999999999999", "1e5", "1_000", "0.0",
          ".a[9223372036854775807]", ".a[-9223372036854775808]", ".a[99999999999999999999]",
          "\\n", "\\t", "\\\\", "\\\"", "\\u{1F600}", "\\u{0}", "\\u{110000}", "\\u{D800}", "\\x", "\\{", "\\}",
          "t'2021-02-11T10:32:50Z'", "t'bogus'", "r'('", "r'a|b'", "\"{{ x }}\"", "\"{{\"", "upcase(", "del(", "exists(",
          "for_each(", "-> |k, v| {", "ok, err =", "_ =", "... ", "@", "$"]


def load_corpus(stdlib):
    corpus = []
    for f in stdlib:
        for e in f.get("examples", []):
            if e.get("source"):
                corpus.append(e["source"])
    for path in sorted(glob.glob(os.path.join(REPO, "lib/tests/tests/**/*.vrl"), recursive=True)):
        try:
            with open(path, encoding="utf-8") as fh:
                t = fh.read()
            if len(t) < 4000:
                corpus.append(t)
        except Exception:
            continue
    return corpus


def gen_program_source(rng):
    g = Gen(rng, Opts(abort=rng.random() < 0.3, ret=rng.random() < 0.3, max_stmts=4, max_depth=2))
    return A.program_src(g.program())


UNI_SPACES = [" ", "\t", "\u00a0", "\u0085", "\u1680", "\u2003", "\u2028", "\u202f", "\u3000", "\ufeff", "\u200b"]
STRING_PIECES = ["\\\n", "\\\r\n", "\\n", "\\t", "\\\\", "\\\"", "\\'", "\\0", "\\{", "\\}", "\\{{", "\\}}", "{{", "}}",
                 "{{ x }}", "{{x}}", "\\u{1F600}", "\\u{E9}", "\\u{}", "\\u{110000}", "\\u{D800}", "\\u{41", "\\u", "\\x41",
                 "\\", "\n", "é", "😀", "\u0301"]


def string_piece(rng):
    """Text to put inside a string literal: escapes, line continuations followed by (exotic)
    indentation, template braces, non-ASCII text — in combinations."""
    out = []
    for _ in range(rng.choice([1, 1, 2, 3])):
        pc = rng.choice(STRING_PIECES)
        out.append(pc)
        if pc.endswith("\n") and rng.random() < 0.8:
            out.append("".join(rng.choice(UNI_SPACES) for _ in range(rng.randint(0, 3))))
        if rng.random() < 0.4:
            out.append(rng.choice(["a", "bar", "é", "日本", " ", rng.choice(UNI_SPACES)]))
    return "".join(out)


def mutate(rng, src, n=None):
    n = n if n is not None else rng.choice([1, 1, 1, 2, 2, 3, 5])
    for _ in range(n):
        r = rng.random()
        if r < 0.10:
            # inside (or as) a string literal / template / regex / timestamp literal
            quotes = [i for i, c in enumerate(src) if c in "\"'"]
            if quotes and rng.random() < 0.85:
                i = rng.choice(quotes) + 1
                src = src[:i] + string_piece(rng) + src[i:]
            else:
                i = rng.randrange(len(src) + 1)
                src = src[:i] + rng.choice(['"', "s'", "r'", "t'"]) + string_piece(rng) + rng.choice(['"', "'"]) + src[i:]
        elif r < 0.28:
            src = sa.mutate_source(rng, src)
        elif r < 0.45:
            i = rng.randrange(len(src) + 1)
            src = src[:i] + rng.choice(TOKENS) + src[i:]
        elif r < 0.60:
            i = rng.randrange(len(src) + 1)
            src = src[:i] + rng.choice(UNI_INJECT) + src[i:]
        elif r < 0.70 and src:
            # replace a whitespace run by exotic whitespace
            ws = [i for i, c in enumerate(src) if c in " \n"]
            if ws:
                i = rng.choice(ws)
                src = src[:i] + rng.choice(UNI_INJECT[:6] + ["\t", "  "]) + src[i + 1:]
        elif r < 0.80 and src:
            a = rng.randrange(len(src))
            b = min(len(src), a + rng.randint(1, 12))
            src = src[:a] + src[b:]
        elif r < 0.88 and src:
            a = rng.randrange(len(src))
            b = min(len(src), a + rng.randint(1, 20))
            i = rng.randrange(len(src) + 1)
            src = src[:i] + src[a:b] + src[i:]
        elif r < 0.94:
            # splice with another construct
            src = src + rng.choice(["\n", "; ", " "]) + rng.choice(TOKENS) + rng.choice(TOKENS)
        else:
            # deep-ish nesting (bounded: stack exhaustion is out of scope)
            d = rng.randint(2, 25)
            o, c = rng.choice([("(", ")"), ("[", "]"), ("{", "}"), ("!(", ")"), ("{ \"a\": ", " }")])
            src = o * d + src[:200] + c * d
    return src[:2048]
