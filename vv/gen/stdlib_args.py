"""Signature-directed argument generation for every stdlib function (from the `stdlib`
worker op: parameters with kind bitmask, required flag, enum variants; closures; examples)."""
import re

from ..wire import enc, Ts, Rx
from . import values as gv
from .lit import lit, str_lit, NotLiteral

BITS = {"bytes": 2, "integer": 4, "float": 8, "boolean": 16, "object": 32, "array": 64,
        "timestamp": 128, "regex": 256, "null": 512, "undefined": 1024}
ALL_KINDS = ["bytes", "integer", "float", "boolean", "object", "array", "timestamp", "regex", "null"]

# never called: need network / would block
NEVER_CALL = {"dns_lookup", "reverse_dns", "http_request"}
# results are nondeterministic by definition (C14 exemptions; still type-checked)
NONDETERMINISTIC = {"now", "random_bool", "random_bytes", "random_float", "random_int", "uuid_v4",
                    "uuid_v7", "get_hostname", "get_env_var", "get_timezone_name", "log"}
CLOSURE_FNS = {"for_each", "filter", "map_keys", "map_values", "replace_with"}
# functions whose first argument must be a path expression, not a value
PATH_ARG = {"del": "target", "exists": "field"}
SKIP_SIGNATURE = {"type_def", "unnest"} | NEVER_CALL   # handled separately / special syntax

TZ_NAMES = [b"UTC", b"local", b"Europe/London", b"America/New_York", b"Asia/Kolkata", b"Australia/Lord_Howe",
            b"+02:00", b"bogus", b""]
STRFTIME = [b"%Y-%m-%d", b"%+", b"%Y-%m-%dT%H:%M:%S%.f%:z", b"%s", b"%d/%b/%Y:%T %z", b"%c", b"%v %T",
            b"%Y-%m-%d %H:%M:%S", b"%a %b %e %T %Y", b"%F %T%.9f %Z", b"%", b"%Q", b"", b"%Y%Y%Y%Y", b"%-", b"%:::z", b"%#z"]
SAMPLE_TEXTS = [
    b'{"a": 1, "b": [true, null, 1.5, "x"]}', b"[1,2,3]", b"<134>1 2020-03-13T20:45:38.119Z dynamicwireless.name non 2426 ID931 [exampleSDID@32473 iut=\"3\"] Try to override the THX port",
    b"127.0.0.1 bob frank [10/Oct/2000:13:55:36 -0700] \"GET /apache_pb.gif HTTP/1.0\" 200 2326",
    b"key1=value1 key2=\"value 2\" k3", b"a,b,\"c d\"", b"https://user:pw@example.com:8080/p/a?q=1&r=a%20b#frag",
    b"foo=bar&baz=1", b"2001:db8::1", b"192.168.0.1", b"192.168.0.0/16", b"::ffff:192.0.2.1", b"1.1.1.1",
    b"1h30m", b"1.5s", b"10MiB", b"1 GB", b"SGVsbG8=", b"48656c6c6f", b"a%20b", b"xn--bcher-kva.example",
    b"<a x=\"1\"><b>t</b><c/></a>", b"a: 1\nb: [1, 2]\n", b"{ \"a\" => 1, :b => nil }",
    b"2021-02-11T10:32:50.553955473Z", b"Mozilla/5.0 (Windows NT 10.0; Win64; x64) AppleWebKit/537.36 Chrome/90 Safari/537.36",
    b"I0505 17:59:40.692994   28133 klog.go:70] hello from klog", b"CEF:0|Vendor|Product|1.0|100|name|5|src=1.2.3.4 msg=hi",
    b"cpu,host=A usage=0.5 1590488773254420000", b"Hello %{word:w}", b"/a/b/c.txt", b"\x1b[31mred\x1b[0m",
    b"2 123456789010 eni-1235b8ca123456789 - - - - - - - 1431280876 1431280934 - NODATA",
    b"=?utf-8?q?Hello?=", b"www.example.co.uk", b"3EAG2wTCDfEt", b"123e4567-e89b-12d3-a456-426614174000",
]
GROK_PATTERNS = [b"%{word:w}", b"%{number:n} %{notSpace:s}", b"%{data:d}", b"(%{integer:i})?", b"%{NUMBER:n}",
                 b"%{GREEDYDATA:g}", b"%{", b"%{nonexistent:x}", b""]


def kinds_of_mask(mask):
    return [k for k in ALL_KINDS if mask & BITS[k]]


def int_for(rng, fname, kw):
    r = rng.random()
    small = [0, 1, 2, 3, 5, 10, 16, 36, 37, -1, -2, 64, 100, 255, 1000]
    if kw in ("base",):
        return rng.choice([2, 8, 10, 16, 36, 0, 1, 37, -1, 62, gv.I64_MAX, gv.I64_MIN])
    if kw == "compression_level" and "zstd" in fname:
        # zstd's "ultra" levels (20+) allocate gigabyte-sized contexts (about 1.5 s for 5 bytes on an
        # idle machine, much more under memory pressure): not a termination question
        return rng.choice([-7, -1, 0, 1, 3, 9, 15, 19, rng.randint(-5, 19)])
    if kw == "buf_size":
        # the decode buffer is allocated up front: keep it below the worker's memory limit
        return rng.choice([0, 1, 16, 1000, 65536, 1 << 20, 1 << 24, -1, -5, gv.I64_MIN])
    if kw in ("length", "chunk_size", "max_depth", "limit", "count", "plus_parts",
              "rate_limit_secs", "precision", "scale", "from", "start", "end", "protocol",
              "source_port", "destination_port", "seed", "compression_level"):
        if r < 0.6:
            return rng.choice(small)
        if r < 0.8:
            return rng.choice([gv.I64_MAX, gv.I64_MIN, 1 << 31, 1 << 32, -(1 << 31), 65535, 65536, 400, -400, 309, -324, 28, 29])
        return rng.randint(-50, 50)
    return gv.rand_int(rng)


def bytes_for(rng, fname, kw):
    r = rng.random()
    if "timezone" in kw:
        return rng.choice(TZ_NAMES)
    if kw in ("format", "timestamp_format"):
        return rng.choice(STRFTIME)
    if kw == "pattern" and "grok" in fname:
        return rng.choice(GROK_PATTERNS)
    if kw in ("separator", "delimiter", "key_value_delimiter", "field_delimiter", "decimal_separator",
              "grouping_separator", "suffix", "attr_prefix", "text_key", "replace_single", "replace_repeated"):
        return rng.choice([b",", b".", b"=", b" ", b"", b"::", b"\t", b"ab", "é".encode(), b"\xff", b"\n", b"|"])
    if kw in ("key", "iv"):
        return bytes(rng.getrandbits(8) for _ in range(rng.choice([0, 8, 12, 16, 24, 32, 48, 64])))
    if r < 0.35:
        return rng.choice(SAMPLE_TEXTS)
    if r < 0.5:
        t = bytearray(rng.choice(SAMPLE_TEXTS))
        for _ in range(rng.randint(1, 3)):
            if not t:
                break
            i = rng.randrange(len(t))
            c = rng.random()
            if c < 0.4:
                t[i] = rng.getrandbits(8)
            elif c < 0.7:
                del t[i]
            else:
                t[i:i] = rng.choice([b"\"", b"\\", b"{", b"[", b"\x00", b"\xff", b"=", b" ", b"%", b"-", b"9" * 25])
        return bytes(t)
    return gv.rand_bytes(rng, 16)


def value_for(rng, fname, kw, kind, depth=2):
    if kind == "bytes":
        return bytes_for(rng, fname, kw)
    if kind == "integer":
        return int_for(rng, fname, kw)
    if kind == "float":
        return gv.rand_float(rng)
    if kind == "boolean":
        return rng.random() < 0.5
    if kind == "null":
        return None
    if kind == "timestamp":
        return gv.rand_ts(rng, wide=rng.random() < 0.3)
    if kind == "regex":
        return rng.choice(gv.REGEXES)
    if kind == "array":
        if kw in ("path",):
            # indices stay small: writing at index +/-2^31.. pads that many elements by design
            # (memory exhaustion, out of scope)
            return [rng.choice([b"a", b"b", 0, -1, 1, b"", 7, -9, 300, 2.5, None]) for _ in range(rng.randint(0, 3))]
        if kw in ("patterns", "substrings", "fields_ordering", "except", "keys", "filters", "alias_sources"):
            return [bytes_for(rng, fname, "pattern" if kw == "patterns" else kw) for _ in range(rng.randint(0, 3))]
        return [gv.rand_value(rng, depth - 1, maxlen=3) for _ in range(rng.randint(0, 4))]
    if kind == "object":
        return gv.rand_object(rng, depth, maxlen=3, simple_keys=rng.random() < 0.7)
    raise ValueError(kind)


def spec_of_kind(kind):
    """External kind spec for one argument slot."""
    if kind == "array":
        return {"p": [], "a": {"k": {}, "u": {"inf": "any"}}}
    if kind == "object":
        return {"p": [], "o": {"k": {}, "u": {"inf": "any"}}}
    return {"p": [kind]}


def _deep_has(v, tags):
    from ..wire import tag
    t = tag(v)
    if t in tags:
        return True
    if t == "array":
        return any(_deep_has(e, tags) for e in v)
    if t == "object":
        return any(_deep_has(e, tags) for e in v.values())
    return False


def tight_collection_spec(kind, values):
    from ..wire import tag
    prims, arr, obj = set(), False, False
    for v in values:
        if tag(v) != kind:
            return None
        for e in (v if kind == "array" else v.values()):
            t = tag(e)
            if t == "array":
                arr = True
            elif t == "object":
                obj = True
            else:
                prims.add(t)
    if not (prims or arr or obj):
        return None
    if arr and obj and {"bytes", "integer", "float", "boolean", "null"} <= prims and not ({"regex", "timestamp"} & prims):
        # vrl collapses such an element kind to its "json" unknown, whose nested collections exclude
        # regex / timestamp (Kind::is_json is shallow; C19's subject): declaring it would misdeclare
        # rows that nest those values
        if any(_deep_has(v, ("regex", "timestamp")) for v in values):
            return None
    elem = {"p": sorted(prims)}
    if arr:
        elem["a"] = {"k": {}, "u": {"inf": "any"}}
    if obj:
        elem["o"] = {"k": {}, "u": {"inf": "any"}}
    return {"p": [], ("a" if kind == "array" else "o"): {"k": {}, "u": elem}}


CLOSURE_TEMPLATES = {
    "for_each": ["-> |_k, _v| { null }", "-> |k, v| { .out = [k, v] }", "-> |_k, v| { v }"],
    "filter": ["-> |_k, _v| { true }", "-> |_k, v| { v != null }", "-> |k, _v| { k != 0 && k != \"a\" }"],
    "map_keys": ["-> |k| { k }", "-> |k| { upcase(k) }", "-> |k| { k + \"_\" }"],
    "map_values": ["-> |v| { v }", "-> |_v| { 1 }", "-> |v| { [v] }"],
    "replace_with": ["-> |m| { upcase!(m.string) }", "-> |_m| { \"\" }", "-> |m| { to_string(length(m.captures)) }"],
}


class Call:
    """A concrete call: function, used params with chosen kinds, per-param form."""

    def __init__(self, f, used, closure=None):
        self.f = f
        self.used = used          # list of (param dict, kind, form) ; form: "event" | "lit"
        self.closure = closure

    def slots(self):
        return ["a%d" % i for i in range(len(self.used))]

    def render(self, bang, values=None):
        """Source text (keyword arguments throughout). Event-form params read .aN; literal-form
        params need `values`."""
        fname = self.f["id"]
        args = []
        for i, (p, kind, form) in enumerate(self.used):
            txt = ".a%d" % i if form == "event" else lit(values[i])
            args.append("%s: %s" % (p["keyword"], txt))
        s = "%s%s(%s)" % (fname, "!" if bang else "", ", ".join(args))
        if self.closure:
            s += " " + self.closure
        return s

    def schema(self, typed=True, rows=None):
        """External event kind. rows (optional): the argument rows that will be delivered — collection
        slots are then declared with the tightest *element* kind all rows conform to (array<integer>
        rather than array<any>), so that functions deriving their result type from the element kinds
        of their arguments (append, push, concat, flatten, slice, zip, ...) are put to the test."""
        known = {}
        for i, (p, kind, form) in enumerate(self.used):
            if form == "event":
                spec = spec_of_kind(kind) if typed else "any"
                if typed and rows is not None and kind in ("array", "object"):
                    spec = tight_collection_spec(kind, [r[i] for r in rows]) or spec
                known["a%d" % i] = spec
        return {"p": [], "o": {"k": known, "u": {"p": ["undefined"]}}}


def choose_call(rng, f, wrong_kind_p=0.0, literal_p=0.25):
    """Pick parameters, kinds and forms for one call shape of function f."""
    fname = f["id"]
    used = []
    for p in f["params"]:
        if not p["required"] and rng.random() < 0.55:
            continue
        ks = kinds_of_mask(p["kind"])
        if not ks:
            ks = ["bytes"]
        if rng.random() < wrong_kind_p:
            others = [k for k in ALL_KINDS if k not in ks]
            kind = rng.choice(others) if others else rng.choice(ks)
        else:
            kind = rng.choice(ks)
        form = "event"
        if p["enum"] is not None or kind == "regex" or rng.random() < literal_p:
            form = "lit"
        used.append((p, kind, form))
    closure = None
    if f["closure"]:
        closure = rng.choice(CLOSURE_TEMPLATES.get(fname, ["-> |_a, _b| { null }"]))
    return Call(f, used, closure)


def choose_values(rng, call):
    fname = call.f["id"]
    vals = []
    for p, kind, form in call.used:
        if p["enum"] is not None and kind == "bytes" and rng.random() < 0.9:
            vals.append(rng.choice(p["enum"]).encode("utf-8"))
        elif p["enum"] is not None and kind == "array":
            vals.append([e.encode("utf-8") for e in rng.sample(p["enum"], rng.randint(0, min(3, len(p["enum"]))))])
        else:
            vals.append(value_for(rng, fname, p["keyword"], kind))
    return vals


STRING_LIT_RE = re.compile(r'"((?:[^"\\]|\\.)*)"|s\'([^\']*)\'')


def mutate_source(rng, src):
    """Text-level mutation of an example program: edit inside string literals, numbers, or
    anywhere."""
    r = rng.random()
    if r < 0.5:
        ms = list(STRING_LIT_RE.finditer(src))
        if ms:
            m = rng.choice(ms)
            a, b = m.span()
            inner = src[a + 1:b - 1] if src[a] == '"' else src[a + 2:b - 1]
            inner = list(inner)
            for _ in range(rng.randint(1, 3)):
                c = rng.random()
                if inner and c < 0.4:
                    del inner[rng.randrange(len(inner))]
                elif c < 0.8:
                    inner.insert(rng.randrange(len(inner) + 1),
                                 rng.choice(["0", "9", "-", ":", " ", "a", "é", "%", "{", "[", "=", ",", ".", "Z", "+", "/", "9" * 20]))
                elif inner:
                    i = rng.randrange(len(inner))
                    inner[i] = rng.choice(["0", "x", " ", "é", "-"])
            inner = "".join(inner).replace("\\", "").replace('"', "").replace("{", "\\{").replace("}", "\\}")
            return src[:a] + '"' + inner + '"' + src[b:]
    if r < 0.75:
        nums = list(re.finditer(r"(?<![\w.])-?\d+(?![\w.])", src))
        if nums:
            m = rng.choice(nums)
            new = str(rng.choice([0, -1, 1, 2, 36, 37, gv.I64_MAX, -9223372036854775807, 400, -400, 65536]))
            return src[:m.start()] + new + src[m.end():]
    # raw byte-level edit
    if not src:
        return src
    i = rng.randrange(len(src))
    c = rng.random()
    if c < 0.4:
        return src[:i] + src[i + 1:]
    if c < 0.8:
        return src[:i] + rng.choice(list("()[]{}.,:;!?|&=+-*/%\"'\\ \n#_09aé")) + src[i:]
    j = rng.randrange(len(src))
    a, b = min(i, j), max(i, j)
    return src[:a] + src[b:]
