"""Value generators: edge pools and random nested values."""
import math
import struct

from ..wire import Ts, Rx, bits2f, f2bits

I64_MIN = -(1 << 63)
I64_MAX = (1 << 63) - 1

INT_EDGES = sorted(set(
    [0, 1, -1, 2, -2, 3, 7, 10, -10, 100, 255, 256, 1000, -1000,
     I64_MIN, I64_MIN + 1, I64_MAX, I64_MAX - 1]
    + [s * ((1 << k) + d) for k in (7, 8, 15, 16, 31, 32, 52, 53, 54, 62) for d in (-1, 0, 1) for s in (1, -1)]
    + [9007199254740993, 9007199254740992, 9007199254740991, -9007199254740993]
))
INT_EDGES = [i for i in INT_EDGES if I64_MIN <= i <= I64_MAX]

FLOAT_EDGES = [
    0.0, -0.0, 1.0, -1.0, 0.5, -0.5, 1.5, 2.5, -2.5, 0.1, 0.2, 0.3, 1e-7, 1e7, 1e15, 1e16, 1e17,
    9007199254740992.0, 9007199254740994.0, 9223372036854775807.0, -9223372036854775808.0,
    9.223372036854778e18, 1.8446744073709552e19,
    float("inf"), float("-inf"), 5e-324, -5e-324, 2.2250738585072014e-308, 2.225073858507201e-308,
    1.7976931348623157e308, -1.7976931348623157e308, 1e308, 1e-308, 3.141592653589793,
    2.718281828459045, 123456.789, 0.29, 1e21, 1e-5, 4.35, 2.675, 1.005,
]


def nextafter_up(f):
    if f != f or f == float("inf"):
        return f
    if f == 0.0:
        return 5e-324
    b = f2bits(f)
    b = b + 1 if f > 0 else b - 1
    return bits2f(b)


def nextafter_down(f):
    return -nextafter_up(-f)


def rand_int(rng):
    r = rng.random()
    if r < 0.35:
        return rng.choice(INT_EDGES)
    if r < 0.55:
        return rng.randint(-20, 20)
    if r < 0.75:
        k = rng.randint(1, 63)
        return max(I64_MIN, min(I64_MAX, rng.choice((1, -1)) * (rng.getrandbits(k))))
    if r < 0.85:
        e = rng.choice(INT_EDGES)
        return max(I64_MIN, min(I64_MAX, e + rng.randint(-3, 3)))
    return rng.randint(I64_MIN, I64_MAX)


def rand_float(rng, finite=False):
    while True:
        r = rng.random()
        if r < 0.3:
            f = rng.choice(FLOAT_EDGES)
        elif r < 0.45:
            f = float(rng.randint(-1000, 1000)) / rng.choice((1, 2, 4, 10, 100, 1000))
        elif r < 0.6:
            f = float(rand_int(rng))
        elif r < 0.75:
            f = bits2f(rng.getrandbits(64))
        elif r < 0.85:
            f = rng.choice(FLOAT_EDGES)
            for _ in range(rng.randint(1, 3)):
                f = nextafter_up(f) if rng.random() < 0.5 else nextafter_down(f)
        else:
            f = rng.uniform(-1, 1) * 10 ** rng.randint(-30, 30)
        if f != f:
            continue
        if finite and math.isinf(f):
            continue
        return f


BYTES_EDGES = [
    b"", b"a", b"A", b"ab", b"abc", b"a\x00", b"\x00", b"\xff", b"\xfe\xff", b" ", b"  a  ", b"\n",
    b"\t", "é".encode(), "ß".encode(), "İ".encode(), "ǆ".encode(), "Σ".encode(), "ς".encode(),
    "日本語".encode(), "😀".encode(), "á".encode(), " ".encode(), " x".encode(),
    b"\xc3", b"\xe2\x82", b"\xf0\x9f\x98", b"\xed\xa0\x80", b"hello world", b"Hello, World!",
    b"foo bar baz", b"0", b"1", b"-1", b"true", b"null", b"1.5", b"{}", b"[]", b"\"", b"\\",
    b"a=b", b"a,b", b"%41", b"a b", b"a.b", b"[0]",
]

ALPHA = "abcdefghijklmnopqrstuvwxyzABCXYZ0123456789 _-.,:;=/\\\"'%[]{}()<>|&!?*+@#$^~\n\t"
UNI = "éßİıǆΣςσǅΩ日本語😀́   ​﻿İẞ"


def rand_text(rng, maxlen=12, unicode_p=0.25):
    n = rng.randint(0, maxlen)
    out = []
    for _ in range(n):
        if rng.random() < unicode_p:
            out.append(rng.choice(UNI))
        else:
            out.append(rng.choice(ALPHA))
    return "".join(out)


def rand_bytes(rng, maxlen=12, utf8_only=False):
    r = rng.random()
    if r < 0.25:
        b = rng.choice(BYTES_EDGES)
        if utf8_only:
            try:
                b.decode("utf-8")
            except UnicodeDecodeError:
                b = b"x"
        return b
    if r < 0.85 or utf8_only:
        return rand_text(rng, maxlen).encode("utf-8")
    return bytes(rng.getrandbits(8) for _ in range(rng.randint(0, maxlen)))


TS_EDGES = [
    Ts(0, 0), Ts(0, 1), Ts(-1, 999999999), Ts(1, 0), Ts(1600000000, 123456789),
    Ts(951782400, 0), Ts(1709164800, 0), Ts(2147483647, 0), Ts(2147483648, 0), Ts(-2147483649, 0),
    Ts(4102444800, 0), Ts(-9223372036, 0), Ts(9223372036, 854775807), Ts(253402300799, 999999999),
    Ts(1678586400, 0), Ts(1699164000, 0), Ts(1711846800, 0),
]


def rand_ts(rng, wide=False):
    r = rng.random()
    if r < 0.3:
        return rng.choice(TS_EDGES)
    if r < 0.8 or not wide:
        return Ts(rng.randint(-9223372036, 9223372036), rng.choice((0, 1, 500000000, 999999999, rng.randint(0, 999999999))))
    return Ts(rng.randint(-62135596800, 253402300799), rng.randint(0, 999999999))


REGEXES = [Rx("a"), Rx("^a.*b$"), Rx("(?i)foo"), Rx("\\d+"), Rx("(?P<x>[a-z]+)"), Rx(""), Rx("a|b")]

KEYS = ["a", "b", "c", "d", "k", "x", "y", "foo", "bar", "a b", "a.b", "", "0", "é", "_", "@t", "\"q\"", "a\\b"]
SIMPLE_KEYS = ["a", "b", "c", "d", "e", "foo", "bar", "k1", "k2", "x"]


def rand_key(rng, simple=False):
    if simple:
        return rng.choice(SIMPLE_KEYS)
    if rng.random() < 0.8:
        return rng.choice(KEYS)
    return rand_text(rng, 5)


def rand_scalar(rng, kinds=None, utf8_only=False):
    kinds = kinds or ["null", "boolean", "integer", "float", "bytes", "timestamp", "regex"]
    k = rng.choice(kinds)
    if k == "null":
        return None
    if k == "boolean":
        return rng.random() < 0.5
    if k == "integer":
        return rand_int(rng)
    if k == "float":
        return rand_float(rng)
    if k == "bytes":
        return rand_bytes(rng, utf8_only=utf8_only)
    if k == "timestamp":
        return rand_ts(rng)
    if k == "regex":
        return rng.choice(REGEXES)
    raise ValueError(k)


JSON_SCALARS = ["null", "boolean", "integer", "float", "bytes"]


def rand_value(rng, depth=3, kinds=None, simple_keys=False, utf8_only=False, maxlen=4):
    """Random nested value. kinds: allowed scalar kinds (default all)."""
    if depth <= 0 or rng.random() < 0.45:
        return rand_scalar(rng, kinds, utf8_only)
    if rng.random() < 0.5:
        return [rand_value(rng, depth - 1, kinds, simple_keys, utf8_only, maxlen)
                for _ in range(rng.randint(0, maxlen))]
    return {rand_key(rng, simple_keys): rand_value(rng, depth - 1, kinds, simple_keys, utf8_only, maxlen)
            for _ in range(rng.randint(0, maxlen))}


def rand_object(rng, depth=3, kinds=None, simple_keys=True, utf8_only=False, maxlen=4):
    return {rand_key(rng, simple_keys): rand_value(rng, depth - 1, kinds, simple_keys, utf8_only, maxlen)
            for _ in range(rng.randint(0, maxlen))}
