"""String pools / generators / classifiers for C28 (Unicode strings with casing and whitespace variety)."""

# The 25 code points with the UCD property White_Space (PropList.txt).
WHITE_SPACE = frozenset(
    [0x09, 0x0A, 0x0B, 0x0C, 0x0D, 0x20, 0x85, 0xA0, 0x1680]
    + list(range(0x2000, 0x200B))
    + [0x2028, 0x2029, 0x202F, 0x205F, 0x3000])
assert len(WHITE_SPACE) == 25
WS_CHARS = "".join(chr(c) for c in sorted(WHITE_SPACE))
WS_ASCII = "\t\n\x0b\x0c\r "
WS_UNICODE = "".join(c for c in WS_CHARS if ord(c) > 0x7F)
# Look like spaces / are spaces for some libraries (Python's isspace: 1C-1F), but are NOT White_Space.
NOT_WS = "\x1c\x1d\x1e\x1f\u180e\u200b\u200c\u200d\u2060\ufeff\x00\x08\x7f"

LOWER = "abcdefghijklmnopqrstuvwxyz"
UPPER = "ABCDEFGHIJKLMNOPQRSTUVWXYZ"
DIGITS = "0123456789"
SEPS = "_- ./"
PUNCT = ",:;=\\\"'%[]{}()<>|&!?*+@#$^~"
# casing special cases: expanding / contracting / context-sensitive / titlecase / length-changing in UTF-8
SPECIAL = "\xdf\u0130\u0131\u01c6\u01c5\u01c4\u03a3\u03c2\u03c3\u0149\u017f\u212a\u212b\u1e9e\u2126\u0390\u1fb3\u1fbc\ufb03\ufb05"
CASED = "\xe0\xe9\xc9\xf1\xd1\xf6\xd6\xe7\xc7\u0436\u0416\u044f\u042f\u03b1\u0391\u03c9\u03a9\u03b4\u0394"
COMBINING = "\u0301\u0307\u0308\u0345\u0300"
OTHER = "\u65e5\u672c\u8a9e\U0001f600\U0001d49c\u0661\u0662\u0663\xbd\xb2"

WORDS = ["foo", "bar", "baz", "a", "b", "c", "x", "id", "http", "xml", "request", "v", "s3", "bucket",
         "2", "12", "3d", "ab1", "é", "straße", "ǆ", "σας", "İd", "ω", "ж"]


def lossless(b):
    try:
        b.decode("utf-8")
        return True
    except UnicodeDecodeError:
        return False


def rand_word_cased(rng):
    w = rng.choice(WORDS)
    r = rng.random()
    if r < 0.35:
        return w
    if r < 0.55:
        return w.upper()
    if r < 0.8:
        return w[:1].upper() + w[1:]
    return "".join(ch.upper() if rng.random() < 0.5 else ch for ch in w)


def rand_identifier(rng):
    n = rng.randint(1, 5)
    style = rng.randrange(7)
    ws = [rand_word_cased(rng) for _ in range(n)]
    if style == 0:
        return "_".join(w.lower() for w in ws)
    if style == 1:
        return "-".join(w.lower() for w in ws)
    if style == 2:
        return ws[0].lower() + "".join(w[:1].upper() + w[1:].lower() for w in ws[1:])
    if style == 3:
        return "".join(w[:1].upper() + w[1:].lower() for w in ws)
    if style == 4:
        return "_".join(w.upper() for w in ws)
    if style == 5:
        return "".join(ws)
    return "".join(w + rng.choice(["", "", "_", "-", " ", "__", "-_", ".", "/"]) for w in ws)


def rand_chars(rng, maxlen=10):
    pools = [LOWER, UPPER, DIGITS, SEPS, PUNCT, SPECIAL, CASED, COMBINING, OTHER, WS_CHARS, NOT_WS]
    weights = [6, 4, 2, 3, 1, 4, 3, 1, 1, 2, 1]
    n = rng.randint(0, maxlen)
    return "".join(rng.choice(rng.choices(pools, weights)[0]) for _ in range(n))


def rand_ws_run(rng, maxlen=3, contested=True):
    n = rng.choice([0, 0, 1, 1, 2, maxlen])
    out = []
    for _ in range(n):
        r = rng.random()
        if r < 0.4:
            out.append(rng.choice(WS_ASCII))
        elif r < 0.85 or not contested:
            out.append(rng.choice(WS_UNICODE))
        else:
            out.append(rng.choice(NOT_WS))
    return "".join(out)


def rand_str(rng, maxlen=10):
    r = rng.random()
    if r < 0.3:
        return rand_identifier(rng)
    if r < 0.6:
        return rand_chars(rng, maxlen)
    if r < 0.8:
        return rand_ws_run(rng) + rand_chars(rng, 5) + rand_ws_run(rng, 2) + rand_chars(rng, 3) + rand_ws_run(rng)
    if r < 0.9:
        return "".join(rng.choice(LOWER[:3] + UPPER[:2] + "_1") for _ in range(rng.randint(0, 6)))
    return rng.choice(["", "a", "A", " ", "\xdf", "\u0130", "\u03a3", "a\u03a3", "\u0391\u03a3", "\u01c5",
                       "a_b_c", "aB", "XMLHttpRequest", "foo2bar", "\u212a", "\ufeff", "\x85", "x\u0301",
                       "\U0001f600", "A1", "1a", "aBC", "hello world", "Hello, World!", "  a  ",
                       "\u3000x\u3000", "\u200bx\u200b"])


def rand_invalid_utf8(rng):
    frags = [b"\xff", b"\xfe", b"\xc3", b"\xe2\x82", b"\xf0\x9f\x98", b"\xed\xa0\x80", b"\x80", b"\xbf",
             b"\xc0\xaf", b"\xf8", b"\xe2", b"\xf0"]
    parts = []
    for _ in range(rng.randint(1, 4)):
        if rng.random() < 0.5:
            parts.append(rng.choice(frags))
        else:
            parts.append(rand_chars(rng, 3).encode("utf-8"))
    if all(lossless(p) for p in parts) and lossless(b"".join(parts)):
        parts.append(rng.choice(frags))
    b = b"".join(parts)
    return b if not lossless(b) else b + b"\xff"


def str_class(s):
    """Coarse feature class of a (valid) string."""
    if s == "":
        return "empty"
    if all(ord(c) < 128 for c in s):
        if any(ord(c) in WHITE_SPACE for c in s):
            return "ascii_ws"
        has_d = any(c in DIGITS for c in s)
        has_u = any(c in UPPER for c in s)
        has_l = any(c in LOWER for c in s)
        has_sep = any(c in SEPS for c in s)
        if has_d and (has_u or has_l):
            return "ascii_alnum" + ("_sep" if has_sep else "")
        if has_u and has_l:
            return "ascii_mixedcase" + ("_sep" if has_sep else "")
        if has_sep:
            return "ascii_sep"
        if has_u:
            return "ascii_upper"
        if has_l:
            return "ascii_lower"
        return "ascii_other"
    if any(c in SPECIAL for c in s):
        return "special_casing"
    if any(c in COMBINING for c in s):
        return "combining"
    if any(ord(c) in WHITE_SPACE or c in NOT_WS for c in s):
        return "unicode_ws"
    if any(c.lower() != c or c.upper() != c for c in s if ord(c) > 127):
        return "nonascii_cased"
    return "nonascii_uncased"


def strip_model(s):
    i, j = 0, len(s)
    while i < j and ord(s[i]) in WHITE_SPACE:
        i += 1
    while j > i and ord(s[j - 1]) in WHITE_SPACE:
        j -= 1
    return s[i:j]
