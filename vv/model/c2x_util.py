"""Small helpers shared by c28/c29/c35: panic-location normalisation and input shrinking."""
import re

from ..wire import Ts, Rx


def panic_file(panic):
    """File path of a panic location without line/column, stable across toolchains."""
    loc = (panic or {}).get("loc") or "unknown"
    loc = re.sub(r"(:\d+)+$", "", loc)
    loc = re.sub(r"^/rustc/[0-9a-f]+/", "rust:", loc)
    loc = re.sub(r"^.*/registry/src/[^/]+/", "crate:", loc)
    loc = re.sub(r"^/repo/", "", loc)
    return loc


def shrink_candidates(v, depth=2):
    """Smaller variants of a Python-side value (bytes by characters, lists/dicts by members)."""
    out = []
    if type(v) is bytes:
        try:
            s = v.decode("utf-8")
        except UnicodeDecodeError:
            for i in range(len(v)):
                out.append(v[:i] + v[i + 1:])
            return out
        n = len(s)
        if n > 4:
            out.append(s[:n // 2].encode("utf-8"))
            out.append(s[n // 2:].encode("utf-8"))
        for i in range(n):
            out.append((s[:i] + s[i + 1:]).encode("utf-8"))
        return out
    if type(v) is list:
        for i in range(len(v)):
            out.append(v[:i] + v[i + 1:])
        if depth > 0:
            for i, x in enumerate(v):
                for c in shrink_candidates(x, depth - 1)[:6]:
                    out.append(v[:i] + [c] + v[i + 1:])
        return out
    if type(v) is dict:
        for k in v:
            out.append({kk: x for kk, x in v.items() if kk != k})
        if depth > 0:
            for k, x in v.items():
                for c in shrink_candidates(x, depth - 1)[:6]:
                    d = dict(v)
                    d[k] = c
                    out.append(d)
        return out
    if type(v) is int and not isinstance(v, bool):
        if v not in (0, 1, -1):
            out.extend([0, 1, v // 2])
        return out
    return out


def shrink_item(item, fields, still_fails, max_rounds=24, max_batch=64):
    """Greedy shrinking of dict `item` on `fields`.

    still_fails(list_of_items) -> list of bool (one request for the whole list).
    """
    cur = dict(item)
    for _ in range(max_rounds):
        cands = []
        for f in fields:
            for c in shrink_candidates(cur.get(f)):
                d = dict(cur)
                d[f] = c
                cands.append(d)
                if len(cands) >= max_batch:
                    break
        if not cands:
            break
        flags = still_fails(cands)
        hit = None
        for c, fl in zip(cands, flags):
            if fl:
                hit = c
                break
        if hit is None:
            break
        cur = hit
    return cur
