"""Generic Rocksoft-model CRC, parameterised by the public CRC catalogue
(https://reveng.sourceforge.io/crc-catalogue/all.htm).

The parameter table below was extracted from the `crc-catalog` crate (v2.4.0,
src/algorithm.rs), which transcribes the catalogue: name -> (width, poly, init, refin, refout,
xorout, check).  `check` is the published CRC of b"123456789"; `validated()` recomputes it with
the bit-serial model below and only returns the entries that reproduce their check value.
The implementation is the textbook bit-at-a-time shift register (Williams, "A painless guide
to CRC error detection algorithms", 1993) and shares nothing with the `crc` crate's
table-driven code.
"""

CHECK_INPUT = b"123456789"

CATALOGUE = {
    "CRC_3_GSM": (3, 0x3, 0x0, False, False, 0x7, 0x4),
    "CRC_3_ROHC": (3, 0x3, 0x7, True, True, 0x0, 0x6),
    "CRC_4_G_704": (4, 0x3, 0x0, True, True, 0x0, 0x7),
    "CRC_4_INTERLAKEN": (4, 0x3, 0xf, False, False, 0xf, 0xb),
    "CRC_5_EPC_C1G2": (5, 0x09, 0x09, False, False, 0x00, 0x00),
    "CRC_5_G_704": (5, 0x15, 0x00, True, True, 0x00, 0x07),
    "CRC_5_USB": (5, 0x05, 0x1f, True, True, 0x1f, 0x19),
    "CRC_6_CDMA2000_A": (6, 0x27, 0x3f, False, False, 0x00, 0x0d),
    "CRC_6_CDMA2000_B": (6, 0x07, 0x3f, False, False, 0x00, 0x3b),
    "CRC_6_DARC": (6, 0x19, 0x00, True, True, 0x00, 0x26),
    "CRC_6_G_704": (6, 0x03, 0x00, True, True, 0x00, 0x06),
    "CRC_6_GSM": (6, 0x2f, 0x00, False, False, 0x3f, 0x13),
    "CRC_7_MMC": (7, 0x09, 0x00, False, False, 0x00, 0x75),
    "CRC_7_ROHC": (7, 0x4f, 0x7f, True, True, 0x00, 0x53),
    "CRC_7_UMTS": (7, 0x45, 0x00, False, False, 0x00, 0x61),
    "CRC_8_AUTOSAR": (8, 0x2f, 0xff, False, False, 0xff, 0xdf),
    "CRC_8_BLUETOOTH": (8, 0xa7, 0x00, True, True, 0x00, 0x26),
    "CRC_8_CDMA2000": (8, 0x9b, 0xff, False, False, 0x00, 0xda),
    "CRC_8_DARC": (8, 0x39, 0x00, True, True, 0x00, 0x15),
    "CRC_8_DVB_S2": (8, 0xd5, 0x00, False, False, 0x00, 0xbc),
    "CRC_8_GSM_A": (8, 0x1d, 0x00, False, False, 0x00, 0x37),
    "CRC_8_GSM_B": (8, 0x49, 0x00, False, False, 0xff, 0x94),
    "CRC_8_HITAG": (8, 0x1d, 0xff, False, False, 0x00, 0xb4),
    "CRC_8_I_432_1": (8, 0x07, 0x00, False, False, 0x55, 0xa1),
    "CRC_8_I_CODE": (8, 0x1d, 0xfd, False, False, 0x00, 0x7e),
    "CRC_8_LTE": (8, 0x9b, 0x00, False, False, 0x00, 0xea),
    "CRC_8_MAXIM_DOW": (8, 0x31, 0x00, True, True, 0x00, 0xa1),
    "CRC_8_MIFARE_MAD": (8, 0x1d, 0xc7, False, False, 0x00, 0x99),
    "CRC_8_NRSC_5": (8, 0x31, 0xff, False, False, 0x00, 0xf7),
    "CRC_8_OPENSAFETY": (8, 0x2f, 0x00, False, False, 0x00, 0x3e),
    "CRC_8_ROHC": (8, 0x07, 0xff, True, True, 0x00, 0xd0),
    "CRC_8_SAE_J1850": (8, 0x1d, 0xff, False, False, 0xff, 0x4b),
    "CRC_8_SMBUS": (8, 0x07, 0x00, False, False, 0x00, 0xf4),
    "CRC_8_TECH_3250": (8, 0x1d, 0xff, True, True, 0x00, 0x97),
    "CRC_8_WCDMA": (8, 0x9b, 0x00, True, True, 0x00, 0x25),
    "CRC_10_ATM": (10, 0x233, 0x000, False, False, 0x000, 0x199),
    "CRC_10_CDMA2000": (10, 0x3d9, 0x3ff, False, False, 0x000, 0x233),
    "CRC_10_GSM": (10, 0x175, 0x000, False, False, 0x3ff, 0x12a),
    "CRC_11_FLEXRAY": (11, 0x385, 0x01a, False, False, 0x000, 0x5a3),
    "CRC_11_UMTS": (11, 0x307, 0x000, False, False, 0x000, 0x061),
    "CRC_12_CDMA2000": (12, 0xf13, 0xfff, False, False, 0x000, 0xd4d),
    "CRC_12_DECT": (12, 0x80f, 0x000, False, False, 0x000, 0xf5b),
    "CRC_12_GSM": (12, 0xd31, 0x000, False, False, 0xfff, 0xb34),
    "CRC_12_UMTS": (12, 0x80f, 0x000, False, True, 0x000, 0xdaf),
    "CRC_13_BBC": (13, 0x1cf5, 0x0000, False, False, 0x0000, 0x04fa),
    "CRC_14_DARC": (14, 0x0805, 0x0000, True, True, 0x0000, 0x082d),
    "CRC_14_GSM": (14, 0x202d, 0x0000, False, False, 0x3fff, 0x30ae),
    "CRC_15_CAN": (15, 0x4599, 0x0000, False, False, 0x0000, 0x059e),
    "CRC_15_MPT1327": (15, 0x6815, 0x0000, False, False, 0x0001, 0x2566),
    "CRC_16_ARC": (16, 0x8005, 0x0000, True, True, 0x0000, 0xbb3d),
    "CRC_16_CDMA2000": (16, 0xc867, 0xffff, False, False, 0x0000, 0x4c06),
    "CRC_16_CMS": (16, 0x8005, 0xffff, False, False, 0x0000, 0xaee7),
    "CRC_16_DDS_110": (16, 0x8005, 0x800d, False, False, 0x0000, 0x9ecf),
    "CRC_16_DECT_R": (16, 0x0589, 0x0000, False, False, 0x0001, 0x007e),
    "CRC_16_DECT_X": (16, 0x0589, 0x0000, False, False, 0x0000, 0x007f),
    "CRC_16_DNP": (16, 0x3d65, 0x0000, True, True, 0xffff, 0xea82),
    "CRC_16_EN_13757": (16, 0x3d65, 0x0000, False, False, 0xffff, 0xc2b7),
    "CRC_16_GENIBUS": (16, 0x1021, 0xffff, False, False, 0xffff, 0xd64e),
    "CRC_16_GSM": (16, 0x1021, 0x0000, False, False, 0xffff, 0xce3c),
    "CRC_16_IBM_3740": (16, 0x1021, 0xffff, False, False, 0x0000, 0x29b1),
    "CRC_16_IBM_SDLC": (16, 0x1021, 0xffff, True, True, 0xffff, 0x906e),
    "CRC_16_ISO_IEC_14443_3_A": (16, 0x1021, 0xc6c6, True, True, 0x0000, 0xbf05),
    "CRC_16_KERMIT": (16, 0x1021, 0x0000, True, True, 0x0000, 0x2189),
    "CRC_16_LJ1200": (16, 0x6f63, 0x0000, False, False, 0x0000, 0xbdf4),
    "CRC_16_M17": (16, 0x5935, 0xffff, False, False, 0x0000, 0x772b),
    "CRC_16_MAXIM_DOW": (16, 0x8005, 0x0000, True, True, 0xffff, 0x44c2),
    "CRC_16_MCRF4XX": (16, 0x1021, 0xffff, True, True, 0x0000, 0x6f91),
    "CRC_16_MODBUS": (16, 0x8005, 0xffff, True, True, 0x0000, 0x4b37),
    "CRC_16_NRSC_5": (16, 0x080b, 0xffff, True, True, 0x0000, 0xa066),
    "CRC_16_OPENSAFETY_A": (16, 0x5935, 0x0000, False, False, 0x0000, 0x5d38),
    "CRC_16_OPENSAFETY_B": (16, 0x755b, 0x0000, False, False, 0x0000, 0x20fe),
    "CRC_16_PROFIBUS": (16, 0x1dcf, 0xffff, False, False, 0xffff, 0xa819),
    "CRC_16_RIELLO": (16, 0x1021, 0xb2aa, True, True, 0x0000, 0x63d0),
    "CRC_16_SPI_FUJITSU": (16, 0x1021, 0x1d0f, False, False, 0x0000, 0xe5cc),
    "CRC_16_T10_DIF": (16, 0x8bb7, 0x0000, False, False, 0x0000, 0xd0db),
    "CRC_16_TELEDISK": (16, 0xa097, 0x0000, False, False, 0x0000, 0x0fb3),
    "CRC_16_TMS37157": (16, 0x1021, 0x89ec, True, True, 0x0000, 0x26b1),
    "CRC_16_UMTS": (16, 0x8005, 0x0000, False, False, 0x0000, 0xfee8),
    "CRC_16_USB": (16, 0x8005, 0xffff, True, True, 0xffff, 0xb4c8),
    "CRC_16_XMODEM": (16, 0x1021, 0x0000, False, False, 0x0000, 0x31c3),
    "CRC_17_CAN_FD": (17, 0x1685b, 0x00000, False, False, 0x00000, 0x04f03),
    "CRC_21_CAN_FD": (21, 0x102899, 0x000000, False, False, 0x000000, 0x0ed841),
    "CRC_24_BLE": (24, 0x00065b, 0x555555, True, True, 0x000000, 0xc25a56),
    "CRC_24_FLEXRAY_A": (24, 0x5d6dcb, 0xfedcba, False, False, 0x000000, 0x7979bd),
    "CRC_24_FLEXRAY_B": (24, 0x5d6dcb, 0xabcdef, False, False, 0x000000, 0x1f23b8),
    "CRC_24_INTERLAKEN": (24, 0x328b63, 0xffffff, False, False, 0xffffff, 0xb4f3e6),
    "CRC_24_LTE_A": (24, 0x864cfb, 0x000000, False, False, 0x000000, 0xcde703),
    "CRC_24_LTE_B": (24, 0x800063, 0x000000, False, False, 0x000000, 0x23ef52),
    "CRC_24_OPENPGP": (24, 0x864cfb, 0xb704ce, False, False, 0x000000, 0x21cf02),
    "CRC_24_OS_9": (24, 0x800063, 0xffffff, False, False, 0xffffff, 0x200fa5),
    "CRC_30_CDMA": (30, 0x2030b9c7, 0x3fffffff, False, False, 0x3fffffff, 0x04c34abf),
    "CRC_31_PHILIPS": (31, 0x04c11db7, 0x7fffffff, False, False, 0x7fffffff, 0x0ce9e46c),
    "CRC_32_AIXM": (32, 0x814141ab, 0x00000000, False, False, 0x00000000, 0x3010bf7f),
    "CRC_32_AUTOSAR": (32, 0xf4acfb13, 0xffffffff, True, True, 0xffffffff, 0x1697d06a),
    "CRC_32_BASE91_D": (32, 0xa833982b, 0xffffffff, True, True, 0xffffffff, 0x87315576),
    "CRC_32_BZIP2": (32, 0x04c11db7, 0xffffffff, False, False, 0xffffffff, 0xfc891918),
    "CRC_32_CD_ROM_EDC": (32, 0x8001801b, 0x00000000, True, True, 0x00000000, 0x6ec2edc4),
    "CRC_32_CKSUM": (32, 0x04c11db7, 0x00000000, False, False, 0xffffffff, 0x765e7680),
    "CRC_32_ISCSI": (32, 0x1edc6f41, 0xffffffff, True, True, 0xffffffff, 0xe3069283),
    "CRC_32_ISO_HDLC": (32, 0x04c11db7, 0xffffffff, True, True, 0xffffffff, 0xcbf43926),
    "CRC_32_JAMCRC": (32, 0x04c11db7, 0xffffffff, True, True, 0x00000000, 0x340bc6d9),
    "CRC_32_MEF": (32, 0x741b8cd7, 0xffffffff, True, True, 0x00000000, 0xd2c22f51),
    "CRC_32_MPEG_2": (32, 0x04c11db7, 0xffffffff, False, False, 0x00000000, 0x0376e6e7),
    "CRC_32_XFER": (32, 0x000000af, 0x00000000, False, False, 0x00000000, 0xbd0be338),
    "CRC_40_GSM": (40, 0x0004820009, 0x0000000000, False, False, 0xffffffffff, 0xd4164fc646),
    "CRC_64_ECMA_182": (64, 0x42f0e1eba9ea3693, 0x0000000000000000, False, False, 0x0000000000000000, 0x6c40df5f0b497347),
    "CRC_64_GO_ISO": (64, 0x000000000000001b, 0xffffffffffffffff, True, True, 0xffffffffffffffff, 0xb90956c775a41001),
    "CRC_64_MS": (64, 0x259c84cba6426349, 0xffffffffffffffff, True, True, 0x0000000000000000, 0x75d4b74f024eceea),
    "CRC_64_REDIS": (64, 0xad93d23594c935a9, 0x0000000000000000, True, True, 0x0000000000000000, 0xe9c6d914c4b8d9ca),
    "CRC_64_WE": (64, 0x42f0e1eba9ea3693, 0xffffffffffffffff, False, False, 0xffffffffffffffff, 0x62ec59e3f1a4f00a),
    "CRC_64_XZ": (64, 0x42f0e1eba9ea3693, 0xffffffffffffffff, True, True, 0xffffffffffffffff, 0x995dc9bbdf1939fa),
    "CRC_82_DARC": (82, 0x0308c0111011401440411, 0x000000000000000000000, True, True, 0x000000000000000000000, 0x09ea83f625023801fd612),
}


def reflect(x, width):
    r = 0
    for _ in range(width):
        r = (r << 1) | (x & 1)
        x >>= 1
    return r


def crc(data, width, poly, init, refin, refout, xorout):
    """Bit-serial Rocksoft model; works for any width >= 1."""
    top = 1 << (width - 1)
    mask = (1 << width) - 1
    reg = init & mask
    for byte in data:
        if refin:
            byte = reflect(byte, 8)
        for i in range(7, -1, -1):
            bit = (byte >> i) & 1
            msb = 1 if reg & top else 0
            reg = (reg << 1) & mask
            if bit ^ msb:
                reg ^= poly
    if refout:
        reg = reflect(reg, width)
    return (reg ^ xorout) & mask


_TABLE_CACHE = {}


def _table(width, poly, refin):
    """256-entry table for the byte-wise variant (used only for speed on long inputs; it is
    cross-checked against the bit-serial model in validated())."""
    key = (width, poly, refin)
    t = _TABLE_CACHE.get(key)
    if t is not None:
        return t
    mask = (1 << width) - 1
    t = []
    if refin:
        rpoly = reflect(poly, width)
        for b in range(256):
            r = b
            for _ in range(8):
                r = (r >> 1) ^ rpoly if r & 1 else r >> 1
            t.append(r & mask)
    else:
        # operate on a register left-aligned to max(width, 8) bits
        w = max(width, 8)
        p = poly << (w - width)
        top = 1 << (w - 1)
        m = (1 << w) - 1
        for b in range(256):
            r = b << (w - 8)
            for _ in range(8):
                r = ((r << 1) ^ p) & m if r & top else (r << 1) & m
            t.append(r)
    _TABLE_CACHE[key] = t
    return t


def crc_fast(data, width, poly, init, refin, refout, xorout):
    """Byte-wise implementation (independent formulation of the same model)."""
    mask = (1 << width) - 1
    t = _table(width, poly, refin)
    if refin:
        reg = reflect(init & mask, width)
        for byte in data:
            reg = t[(reg ^ byte) & 0xFF] ^ (reg >> 8)
        if not refout:
            reg = reflect(reg, width)
    else:
        w = max(width, 8)
        m = (1 << w) - 1
        reg = (init & mask) << (w - width)
        for byte in data:
            reg = (t[((reg >> (w - 8)) ^ byte) & 0xFF] ^ (reg << 8)) & m
        reg >>= (w - width)
        if refout:
            reg = reflect(reg, width)
    return (reg ^ xorout) & mask


def compute(name, data):
    w, poly, init, refin, refout, xorout, _check = CATALOGUE[name]
    return crc_fast(data, w, poly, init, refin, refout, xorout)


_PROBES = [b"", b"\x00", b"\xff", b"a", CHECK_INPUT, bytes(range(256)), b"\x80" * 9 + b"\x01"]


def validated():
    """Returns (good_names, bad_names): entries whose bit-serial CRC of b"123456789" equals the
    published check value and for which the byte-wise variant agrees with the bit-serial one."""
    good, bad = [], []
    for name, (w, poly, init, refin, refout, xorout, check) in CATALOGUE.items():
        ok = crc(CHECK_INPUT, w, poly, init, refin, refout, xorout) == check
        if ok:
            for p in _PROBES:
                if crc(p, w, poly, init, refin, refout, xorout) != crc_fast(p, w, poly, init, refin, refout, xorout):
                    ok = False
                    break
        (good if ok else bad).append(name)
    return good, bad
