"""Reference evaluator (oracle B of C31) for the leaf kinds of Datadog search queries whose
meaning the search-syntax documentation and `match_datadog_query`'s own examples fix
unambiguously.  Everything else evaluates to None = "not judged".

A leaf descriptor is a JSON-able dict:
  {"k": "exists"|"missing",             "f": FIELD}
  {"k": "term"|"phrase",                "f": FIELD, "v": text}
  {"k": "prefix",                       "f": FIELD, "v": prefix}
  {"k": "wildcard",                     "f": FIELD, "v": pattern with * only}
  {"k": "cmp",   "op": ">"|">="|"<"|"<=", "f": FIELD, "n": number | None (non-numeric bound)}
  {"k": "range", "lo": number|None, "hi": number|None, "li": bool, "ui": bool, "f": FIELD}
  {"k": "default_term", "v": word}
  {"k": "all"}
FIELD = ["attr", [path segments]] | ["tag", key] | ["res", name]
Events are Python-side values (dict of bytes/int/float/list/None/dict).
"""
import re

ABSENT = object()
DEFAULT_PATHS = [["message"], ["custom", "error", "message"], ["custom", "error", "stack"], ["custom", "title"]]
INT_RE = re.compile(r"-?(0|[1-9][0-9]*)\Z")
WORD_RE = re.compile(r"[a-z]+\Z")
WORDS_RE = re.compile(r"[a-z]+( [a-z]+)*\Z")


def lookup(ev, path):
    cur = ev
    for seg in path:
        if not isinstance(cur, dict) or seg not in cur:
            return ABSENT
        cur = cur[seg]
    return cur


def vkind(v):
    if v is ABSENT:
        return "absent"
    if v is None:
        return "null"
    if isinstance(v, bool):
        return "bool"
    if isinstance(v, int):
        return "int"
    if isinstance(v, float):
        return "float"
    if isinstance(v, bytes):
        return "str_nl" if b"\n" in v else "str"
    if isinstance(v, list):
        return "array"
    return "object"


def field_value(ev, f):
    """Value addressed by FIELD (for tags: the list of tag strings with that key, or ABSENT)."""
    if f[0] == "attr":
        return lookup(ev, f[1])
    if f[0] == "res":
        return lookup(ev, [f[1]])
    tags = lookup(ev, ["tags"])
    if not isinstance(tags, list):
        return ABSENT
    key = f[1].encode()
    mine = [t for t in tags if isinstance(t, bytes) and (t == key or t.startswith(key + b":"))]
    return mine if mine else ABSENT


def field_kind(ev, f):
    v = field_value(ev, f)
    if f[0] == "tag":
        return "absent" if v is ABSENT else "tags"
    return vkind(v)


def glob_match(pat, s):
    rx = "".join(".*" if c == "*" else re.escape(c) for c in pat)
    return re.fullmatch(rx, s, re.S) is not None


def is_num(v):
    return isinstance(v, (int, float)) and not isinstance(v, bool)


def cmp_num(op, x, n):
    if op == ">":
        return x > n
    if op == ">=":
        return x >= n
    if op == "<":
        return x < n
    return x <= n


def tags_ok(ev):
    tags = lookup(ev, ["tags"])
    return tags is ABSENT or (isinstance(tags, list) and all(isinstance(t, bytes) for t in tags))


def evaluate(desc, ev):
    """True / False / None (not judged)."""
    k = desc["k"]
    if k == "all":
        return True
    if k == "default_term":
        word = desc["v"]
        if not WORD_RE.match(word):
            return None
        vals = [lookup(ev, p) for p in DEFAULT_PATHS]
        if lookup(ev, ["_default_"]) is not ABSENT:
            return None
        hit = False
        for v in vals:
            if v is ABSENT:
                continue
            if not isinstance(v, bytes):
                return None
            try:
                s = v.decode()
            except UnicodeDecodeError:
                return None
            if s == "":
                continue
            if not WORDS_RE.match(s):
                return None
            if word in s.split(" "):
                hit = True
        return hit
    f = desc["f"]
    if f[0] == "tag":
        if not tags_ok(ev):
            return None
        mine = field_value(ev, f)
        key = f[1].encode()
        if k in ("exists", "missing"):
            r = mine is not ABSENT
            return r if k == "exists" else not r
        if mine is ABSENT:
            return False      # nothing is addressed: no term/prefix/wildcard/comparison can hold
        if k in ("term", "phrase"):
            return (key + b":" + desc["v"].encode()) in mine
        if k == "prefix":
            return any(t.startswith(key + b":" + desc["v"].encode()) for t in mine)
        if k == "wildcard":
            try:
                return any(glob_match(f[1] + ":" + desc["v"], t.decode()) for t in mine)
            except UnicodeDecodeError:
                return None
        return None           # tag comparisons / ranges: only the key-absent case is judged
    v = field_value(ev, f)
    if k in ("exists", "missing"):
        if v is None:
            return None       # is a null attribute "present"? not fixed by the documentation
        r = v is not ABSENT
        return r if k == "exists" else not r
    if v is ABSENT:
        return False
    if k in ("term", "phrase"):
        text = desc["v"]
        if isinstance(v, bytes):
            return v == text.encode()
        if isinstance(v, bool):
            return None
        if isinstance(v, int):
            if INT_RE.match(text):
                return int(text) == v
            if re.match(r"[A-Za-z]", text):
                return False
            return None
        if isinstance(v, float):
            return False if re.match(r"[A-Za-z]", text) and text.lower() not in ("inf", "nan", "infinity") else None
        return None
    if k == "prefix":
        return v.startswith(desc["v"].encode()) if isinstance(v, bytes) else None
    if k == "wildcard":
        if not isinstance(v, bytes) or "?" in desc["v"]:
            return None
        try:
            return glob_match(desc["v"], v.decode())
        except UnicodeDecodeError:
            return None
    if k == "cmp":
        if desc.get("n") is None or not is_num(v):
            return None
        return cmp_num(desc["op"], v, desc["n"])
    if k == "range":
        if not is_num(v):
            return None
        lo, hi = desc["lo"], desc["hi"]
        if lo is None and hi is None:
            return None
        ok = True
        if lo is not None:
            ok = ok and cmp_num(">=" if desc["li"] else ">", v, lo)
        if hi is not None:
            ok = ok and cmp_num("<=" if desc["ui"] else "<", v, hi)
        return ok
    return None
