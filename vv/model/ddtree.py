"""Parser for the Rust `{:?}` rendering of `QueryNode` (Datadog search syntax tree) into plain
Python data, so that round-trip differences can be located and classified.

Node forms:  {"_": "AttributeTerm", "attr": "foo", "value": "bar"}
             {"_": "Boolean", "oper": "And", "nodes": [...]}, {"_": "NegatedNode", "node": {...}}
Comparison values:  ("Unbounded",) | ("String", s) | ("Integer", i) | ("Float", f)
"""


class DebugParseError(Exception):
    pass


class _P:
    def __init__(self, s):
        self.s = s
        self.i = 0

    def ws(self):
        while self.i < len(self.s) and self.s[self.i] in " \n\t":
            self.i += 1

    def peek(self):
        self.ws()
        return self.s[self.i] if self.i < len(self.s) else ""

    def eat(self, ch):
        self.ws()
        if not self.s.startswith(ch, self.i):
            raise DebugParseError("expected %r at %d in %r" % (ch, self.i, self.s[:200]))
        self.i += len(ch)

    def ident(self):
        self.ws()
        j = self.i
        while j < len(self.s) and (self.s[j].isalnum() or self.s[j] == "_"):
            j += 1
        if j == self.i:
            raise DebugParseError("identifier expected at %d in %r" % (self.i, self.s[:200]))
        out = self.s[self.i:j]
        self.i = j
        return out

    def string(self):
        self.eat('"')
        out = []
        s = self.s
        while True:
            if self.i >= len(s):
                raise DebugParseError("unterminated string")
            c = s[self.i]
            self.i += 1
            if c == '"':
                return "".join(out)
            if c != "\\":
                out.append(c)
                continue
            e = s[self.i]
            self.i += 1
            if e == "n":
                out.append("\n")
            elif e == "r":
                out.append("\r")
            elif e == "t":
                out.append("\t")
            elif e == "0":
                out.append("\0")
            elif e == "u":
                self.eat("{")
                j = s.index("}", self.i)
                out.append(chr(int(s[self.i:j], 16)))
                self.i = j + 1
            else:
                out.append(e)   # \" \\ \'

    def raw_until_paren(self):
        j = self.s.index(")", self.i)
        out = self.s[self.i:j].strip()
        self.i = j
        return out

    def value(self):
        c = self.peek()
        if c == '"':
            return self.string()
        if c == "[":
            self.eat("[")
            items = []
            while self.peek() != "]":
                items.append(self.value())
                if self.peek() == ",":
                    self.eat(",")
            self.eat("]")
            return items
        name = self.ident()
        if name == "true":
            return True
        if name == "false":
            return False
        c = self.peek()
        if c == "{":
            self.eat("{")
            node = {"_": name}
            while self.peek() != "}":
                k = self.ident()
                self.eat(":")
                node[k] = self.value()
                if self.peek() == ",":
                    self.eat(",")
            self.eat("}")
            return node
        if c == "(":
            self.eat("(")
            if name == "Integer":
                v = ("Integer", int(self.raw_until_paren()))
            elif name == "Float":
                v = ("Float", float(self.raw_until_paren()))
            else:
                v = (name, self.value())
            self.eat(")")
            return v
        if name == "Unbounded":
            return ("Unbounded",)
        if name in ("And", "Or", "Gt", "Lt", "Gte", "Lte"):
            return name
        return {"_": name}


def parse(text):
    p = _P(text)
    v = p.value()
    p.ws()
    if p.i != len(p.s):
        raise DebugParseError("trailing text at %d in %r" % (p.i, text[:200]))
    return v


def node_types(t, out=None):
    """Multiset (list) of node type names in a tree."""
    if out is None:
        out = []
    if isinstance(t, dict):
        out.append(t["_"])
        if "nodes" in t:
            for c in t["nodes"]:
                node_types(c, out)
        if "node" in t:
            node_types(t["node"], out)
    return out


def leaves(t):
    if not isinstance(t, dict):
        return
    if "nodes" in t:
        for c in t["nodes"]:
            yield from leaves(c)
    elif "node" in t:
        yield from leaves(t["node"])
    else:
        yield t
