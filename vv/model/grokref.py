"""Reference model for Datadog-style grok rules (oracle of C32), independent of onig and of the
pattern files shipped with vrl.

A rule is a list of elements (JSON-able):
  {"t": "lit", "s": text}                      literal text (metacharacters are escaped on rendering)
  {"t": "raw", "s": regex_source}              literal regex source from a small portable vocabulary
  {"t": "m", "m": matcher, "arg": regex|None, "field": path|None, "filter": [name, arg?]|None}
  {"t": "alias", "name": alias, "field": path|None}
Aliases: {name: [elements]}.

Matcher meanings are taken from the Datadog log-parsing documentation ("Matcher and filter"
tables).  Where the documentation leaves a detail open, the matcher has several *variants*; a
result is only used when every combination of variants gives the same answer.
"""
import itertools
import math
import re

META = set("\\.[](){}*+?|^$")

OCT_STRICT = r"(?:25[0-5]|2[0-4][0-9]|1[0-9][0-9]|[1-9]?[0-9])"
OCT_LENIENT = r"(?:25[0-5]|2[0-4][0-9]|[01]?[0-9]?[0-9])"
HEX = "[0-9a-fA-F]"

# name -> list of variant regex sources (Python `re` syntax, str patterns, DOTALL applied globally)
MATCHERS = {
    # "a word: starts with a word boundary, contains a-z A-Z 0-9 _, ends with a word boundary (\b\w+\b)"
    "word": [r"(?a:\b\w+\b)", r"\b\w+\b"],
    # "any string until the next space"
    "notSpace": [r"(?a:\S+)", r"\S+"],
    # "an integer number" (is a leading + part of it?)
    "integer": [r"-?[0-9]+", r"[+-]?[0-9]+"],
    # "a decimal floating point number" (sign +, `1.` and `.5` forms are open)
    # third variant: the atomic (possessive) form that the library's own pattern file uses — the
    # "corresponding regular expression" of a rule is built from the library's pattern definitions,
    # so inputs on which atomicity matters are not judged (the variants disagree)
    "number": [r"-?[0-9]+(?:\.[0-9]+)?", r"[+-]?(?:[0-9]+(?:\.[0-9]*)?|\.[0-9]+)",
               r"[+-]?(?>[0-9]+(?:\.[0-9]*)?|\.[0-9]+)"],
    # "any string including spaces and newlines, equivalent to .*" (greedy or not is open)
    "data": [r".*?", r".*"],
    "greedyData": [r".*"],
    # "a double-quoted / single-quoted string" (backslash escapes inside are open)
    "doubleQuotedString": [r'"[^"]*"', r'"(?:\\.|[^"\\])*"'],
    "singleQuotedString": [r"'[^']*'", r"'(?:\\.|[^'\\])*'"],
    "quotedString": [r"""(?:"[^"]*"|'[^']*')""", r"""(?:"(?:\\.|[^"\\])*"|'(?:\\.|[^'\\])*')"""],
    "uuid": [r"%s{8}-%s{4}-%s{4}-%s{4}-%s{12}" % ((HEX,) * 5)],
    # "an IPv4 address" (leading zeros and adjacency to further digits are open)
    "ipv4": [r"%s(?:\.%s){3}" % (OCT_STRICT, OCT_STRICT),
             r"%s(?:\.%s){3}" % (OCT_LENIENT, OCT_LENIENT),
             r"(?<![0-9])%s(?:\.%s){3}(?![0-9])" % (OCT_LENIENT, OCT_LENIENT)],
}
STRING_MATCHERS = ("word", "notSpace", "data", "greedyData", "doubleQuotedString", "singleQuotedString",
                   "quotedString", "uuid", "ipv4", "regex")


def esc_literal(text):
    return "".join("\\" + c if c in META else c for c in text)


def grok_string(s):
    """A string-literal argument inside %{...}: only \\\\ and \\" escapes exist."""
    return '"' + s.replace("\\", "\\\\").replace('"', '\\"') + '"'


def filter_text(flt):
    name = flt[0]
    if name == "scale":
        return "scale(%s)" % flt[1]
    if name == "nullIf":
        return "nullIf(%s)" % grok_string(flt[1])
    return name


def element_text(el):
    t = el["t"]
    if t == "lit":
        return esc_literal(el["s"])
    if t == "raw":
        return el["s"]
    if t == "alias":
        return "%%{%s%s}" % (el["name"], (":" + el["field"]) if el.get("field") else "")
    head = el["m"]
    if head == "regex":
        head = "regex(%s)" % grok_string(el["arg"])
    out = "%{" + head
    if el.get("field"):
        out += ":" + el["field"]
        if el.get("filter"):
            out += ":" + filter_text(el["filter"])
    return out + "}"


def rule_text(elements):
    return "".join(element_text(e) for e in elements)


class Unsupported(Exception):
    pass


def ambiguous_kinds(elements, aliases, seen=None):
    """Matcher names (with >1 variant) reachable from the rule, in first-use order."""
    out = []
    seen = seen or ()
    for el in elements:
        if el["t"] == "m" and el["m"] != "regex" and len(MATCHERS[el["m"]]) > 1 and el["m"] not in out:
            out.append(el["m"])
        elif el["t"] == "alias":
            if el["name"] in seen:
                raise Unsupported("cycle")
            for k in ambiguous_kinds(aliases[el["name"]], aliases, seen + (el["name"],)):
                if k not in out:
                    out.append(k)
    return out


def assemble(elements, aliases, choice, fields, depth=0):
    """Regex source for one variant choice; appends (group, path, matcher, filter) to fields."""
    if depth > 8:
        raise Unsupported("depth")
    out = []
    for el in elements:
        t = el["t"]
        if t == "lit":
            out.append(re.escape(el["s"]))
        elif t == "raw":
            out.append(el["s"])
        elif t == "alias":
            if el.get("field"):
                g = "g%d" % len(fields)
                fields.append((g, el["field"], "alias", None))
                out.append("(?P<%s>%s)" % (g, assemble(aliases[el["name"]], aliases, choice, fields, depth + 1)))
            else:
                out.append(assemble(aliases[el["name"]], aliases, choice, fields, depth + 1))
        else:
            m = el["m"]
            src = el["arg"] if m == "regex" else MATCHERS[m][choice.get(m, 0)]
            if el.get("field"):
                g = "g%d" % len(fields)
                fields.append((g, el["field"], m, el.get("filter")))
                out.append("(?P<%s>%s)" % (g, src))
            else:
                out.append("(?:%s)" % src)
    return "".join(out)


class Ref:
    """All variant regexes of one rule."""

    def __init__(self, elements, aliases=None, max_variants=48):
        aliases = aliases or {}
        kinds = ambiguous_kinds(elements, aliases)
        spaces = [range(len(MATCHERS[k])) for k in kinds]
        n = 1
        for s in spaces:
            n *= len(s)
        if n > max_variants:
            raise Unsupported("too many variants")
        self.regexes = []
        self.fields = None
        for combo in itertools.product(*spaces):
            fields = []
            src = assemble(elements, aliases, dict(zip(kinds, combo)), fields)
            self.regexes.append(re.compile(r"\A(?:" + src + r")\Z", re.S))
            self.fields = fields

    def match(self, text):
        """-> None if the variants disagree, else (matched, {group: text or None})."""
        first = None
        for rx in self.regexes:
            m = rx.match(text)
            res = (False, None) if m is None else (True, m.groupdict())
            if first is None:
                first = res
            elif res != first:
                return None
        return first


INT_TEXT = re.compile(r"[+-]?[0-9]+\Z")
NUM_TEXT = re.compile(r"[+-]?[0-9]+(?:\.[0-9]+)?(?:[eE][+-]?[0-9]+)?\Z")
I64 = (-(1 << 63), (1 << 63) - 1)


def expected_value(matcher, flt, text):
    """What the field must hold for captured `text`:
    ("absent",) | ("bytes", b) | ("int", i) | ("num", f) | ("bool", b) | ("nojudge", why)"""
    if text is None or text == "":
        return ("nojudge", "empty capture")
    # implicit conversion by the matcher itself (documentation: "...and parses it as an integer /
    # double precision number")
    if matcher == "integer":
        if not INT_TEXT.match(text) or not (I64[0] <= int(text) <= I64[1]):
            return ("nojudge", "integer out of range")
        cur = ("int", int(text))
    elif matcher == "number":
        if not NUM_TEXT.match(text):
            return ("nojudge", "number form")
        cur = ("num", float(text))
    else:
        cur = ("bytes", text)
    if flt is None:
        return _final(cur)
    name = flt[0]
    if name == "scale":
        if cur[0] == "bytes":
            if not NUM_TEXT.match(cur[1]):
                return ("nojudge", "scale of non-number")
            v = float(cur[1])
        else:
            v = float(cur[1])
        r = v * float(flt[1])
        if math.isinf(r) or r != r:
            return ("nojudge", "scale overflow")
        return ("num", r)
    if cur[0] != "bytes":
        return ("nojudge", "string filter after typed matcher")
    s = cur[1]
    if name == "lowercase" or name == "uppercase":
        if not s.isascii():
            return ("nojudge", "case mapping of non-ascii")
        return ("bytes", (s.lower() if name == "lowercase" else s.upper()).encode())
    if name == "integer":
        if not INT_TEXT.match(s) or not (I64[0] <= int(s) <= I64[1]):
            return ("nojudge", "integer filter on non-integer")
        return ("int", int(s))
    if name == "number":
        if not NUM_TEXT.match(s):
            return ("nojudge", "number filter on non-number")
        r = float(s)
        if math.isinf(r):
            return ("nojudge", "number overflow")
        return ("num", r)
    if name == "nullIf":
        return ("absent",) if s == flt[1] else ("bytes", s.encode())
    if name == "boolean":
        if s.lower() == "true":
            return ("bool", True)
        if s.lower() == "false":
            return ("bool", False)
        return ("nojudge", "boolean of other text")
    return ("nojudge", "unknown filter")


def _final(cur):
    if cur[0] == "bytes":
        return ("bytes", cur[1].encode())
    return cur


def holds(exp, present, value):
    """Does the observed field (present?, value) satisfy the expectation?"""
    kind = exp[0]
    if kind == "absent":
        return not present or value is None
    if not present:
        return False
    if kind == "bytes":
        return isinstance(value, bytes) and value == exp[1]
    if kind == "int":
        return isinstance(value, (int, float)) and not isinstance(value, bool) and value == exp[1]
    if kind == "bool":
        return value is exp[1]
    if kind == "num":
        if isinstance(value, bool) or not isinstance(value, (int, float)):
            return False
        e = exp[1]
        return value == e or abs(value - e) <= 1e-9 * max(abs(e), abs(value))
    return True
