"""Reference interpreter for the VRL core language over the generator AST (gen/ast.py).

Direct-style evaluator written from the language documentation: sequential blocks, flat
variable store, `return` ends the program (or the closure iteration), `abort` ends the
program with an abort outcome, `??` / `ok, err =` handle *errors* only, `||`/`&&` short-circuit,
`if` runs exactly one branch. Error messages are not modelled (errors carry a class only).
"""
from ..wire import dec, tag, veq, Ts, Rx
from . import value as mv
from ..props.c10 import model as cmp_model
from ..props.c11 import model as arith_model, Err as ArithErr


class VErr(Exception):
    """Runtime error (ExpressionError::Error)."""
    def __init__(self, msg="error"):
        super().__init__(msg)
        self.msg = msg


class VAbort(Exception):
    def __init__(self, message):
        super().__init__("abort")
        self.message = message   # bytes | None


class VReturn(Exception):
    def __init__(self, value):
        super().__init__("return")
        self.value = value


class Unmodelled(Exception):
    """The program left the modelled subset (generator bug) — case is skipped, never judged."""


class NeedDefault(Exception):
    """`ok, err = e` failed at a site whose default value was not observed in the real run."""
    def __init__(self, site):
        super().__init__(site)
        self.site = site


def truthy_null_false(v):
    return v is None or v is False


def has_errmsg(v):
    if isinstance(v, ErrMsg):
        return True
    if type(v) is list:
        return any(has_errmsg(x) for x in v)
    if type(v) is dict:
        return any(has_errmsg(x) for x in v.values())
    return False


def mtag(v):
    return "bytes" if isinstance(v, ErrMsg) else tag(v)


def maybe_equal(a, b):
    """Three-valued equality when placeholders are involved: True / False / None (unknown)."""
    ea, eb = isinstance(a, ErrMsg), isinstance(b, ErrMsg)
    if ea or eb:
        other = b if ea else a
        if isinstance(other, ErrMsg):
            return None
        if type(other) is bytes and len(other) > 0:
            return None
        return False
    if type(a) is not type(b):
        return False
    if type(a) is list:
        if len(a) != len(b):
            return False
        rs = [maybe_equal(x, y) for x, y in zip(a, b)]
    elif type(a) is dict:
        if a.keys() != b.keys():
            return False
        rs = [maybe_equal(a[k], b[k]) for k in a]
    else:
        return veq(a, b)
    if any(r is False for r in rs):
        return False
    if any(r is None for r in rs):
        return None
    return True


class Interp:
    def __init__(self, event, meta=None, defaults=None, step_limit=20000):
        self.event = event
        self.meta = {} if meta is None else meta
        self.vars = {}
        self.defaults = defaults or {}
        self.trace = []          # notable runtime facts, for coverage accounting
        self.steps = 0
        self.step_limit = step_limit
        self.closure_depth = 0
        self.site_counter = 0

    # -- helpers
    def tick(self):
        self.steps += 1
        if self.steps > self.step_limit:
            raise Unmodelled("step limit")

    def read_path(self, root, segs):
        path = [(k, x) for k, x in segs]
        if root == ".":
            found, v = mv.get(self.event, path)
        elif root == "%":
            found, v = mv.get(self.meta, path)
        else:
            if root not in self.vars:
                return None
            found, v = mv.get(self.vars[root], path)
        return v if found else None

    def write_target(self, t, value):
        if t[0] == "noop":
            return
        path = [(k, x) for k, x in t[2]]
        if t[0] == "tvar":
            name = t[1]
            if not path:
                self.vars[name] = value
            elif name in self.vars:
                self.vars[name] = mv.insert(self.vars[name], path, value)
            else:
                self.vars[name] = mv.insert(None, path, value)
        else:
            if t[1] == ".":
                self.event = mv.insert(self.event, path, value)
            else:
                self.meta = mv.insert(self.meta, path, value)

    def read_target(self, t):
        if t[0] == "tvar":
            return self.read_path(t[1], t[2])
        return self.read_path(t[1], t[2])

    # -- program
    def run(self, stmts):
        """Returns ("ok", v) | ("ret", v) | ("abort", msg) | ("error", None)."""
        try:
            v = self.block(stmts)
            return ("ok", v)
        except VReturn as r:
            return ("ret", r.value)
        except VAbort as a:
            return ("abort", a.message)
        except VErr:
            return ("error", None)

    def block(self, stmts):
        v = None
        for s in stmts:
            v = self.ev(s)
        return v

    # -- expressions
    def ev(self, n):
        self.tick()
        t = n[0]
        m = getattr(self, "ev_" + t, None)
        if m is None:
            raise Unmodelled("node " + t)
        return m(n)

    def ev_lit(self, n):
        return dec(n[1])

    def ev_var(self, n):
        return self.vars.get(n[1])

    def ev_path(self, n):
        return self.read_path(n[1], n[2])

    def ev_arr(self, n):
        return [self.ev(e) for e in n[1]]

    def ev_obj(self, n):
        # values are evaluated in key order; duplicate keys keep the last
        items = {}
        for k, e in n[1]:
            items[k] = e
        out = {}
        for k in sorted(items, key=lambda s: s.encode("utf-8")):
            out[k] = self.ev(items[k])
        return out

    def ev_grp(self, n):
        return self.ev(n[1])

    def ev_block(self, n):
        return self.block(n[1])

    def ev_not(self, n):
        v = self.ev(n[1])
        if type(v) is not bool:
            raise VErr("not: non-boolean")
        return not v

    def ev_op(self, n):
        op, lhs, rhs = n[1], n[2], n[3]
        if op == "??":
            try:
                return self.ev(lhs)
            except VErr:
                self.trace.append(("coalesce_rhs",))
                return self.ev(rhs)
        if op == "||":
            a = self.ev(lhs)
            if truthy_null_false(a):
                self.trace.append(("or_rhs_evaluated",))
                return self.ev(rhs)
            self.trace.append(("or_rhs_skipped",))
            return a
        if op == "&&":
            a = self.ev(lhs)
            if truthy_null_false(a):
                self.trace.append(("and_rhs_skipped",))
                return False
            self.trace.append(("and_rhs_evaluated",))
            b = self.ev(rhs)
            if type(a) is bool and b is None:
                return False
            if type(a) is bool and type(b) is bool:
                return a and b
            raise VErr("and: non-boolean")
        a = self.ev(lhs)
        b = self.ev(rhs)
        if has_errmsg(a) or has_errmsg(b):
            if op in ("==", "!="):
                r = maybe_equal(a, b)
                if r is not None:
                    return r if op == "==" else not r
            raise Unmodelled("error-message operand")
        if op == "|":
            if type(a) is dict and type(b) is dict:
                out = dict(a)
                out.update(b)
                return dict(sorted(out.items(), key=lambda kv: kv[0].encode("utf-8")))
            raise VErr("merge: non-object")
        if op in ("==", "!=", "<", "<=", ">", ">="):
            res = cmp_model(a, b)
            idx = {"<": 0, "==": 1, ">": 2, "!=": 3, "<=": 4, ">=": 5}[op]
            r = res[idx]
            if r is None:
                raise VErr("compare: type")
            return r
        if op in ("+", "-", "*", "/"):
            try:
                return arith_model(op, a, b)
            except ArithErr:
                raise VErr("arith")
        raise Unmodelled("op " + op)

    def ev_if(self, n):
        for pred, body in n[1]:
            p = None
            for e in pred:
                p = self.ev(e)
            if type(p) is not bool:
                raise VErr("if: non-boolean predicate")
            if p:
                self.trace.append(("if_branch",))
                return self.block(body) if body else None
        if n[2] is not None:
            self.trace.append(("else_branch",))
            return self.block(n[2]) if n[2] else None
        self.trace.append(("missing_else",))
        return None

    def ev_assign(self, n):
        v = self.ev(n[2])
        self.write_target(n[1], v)
        return v

    def ev_massign(self, n):
        cur = self.read_target(n[1])
        v = self.ev(n[2])
        if type(cur) is dict and type(v) is dict:
            out = dict(cur)
            out.update(v)
            out = dict(sorted(out.items(), key=lambda kv: kv[0].encode("utf-8")))
            self.write_target(n[1], out)
            return out
        raise VErr("merge-assign: non-object")

    def ev_assign2(self, n):
        site = n[4] if len(n) > 4 else None
        try:
            v = self.ev(n[3])
        except VErr:
            self.trace.append(("assign2_failed", site))
            if site not in self.defaults:
                raise NeedDefault(site)
            self.write_target(n[1], self.defaults[site])
            msg = ErrMsg()
            self.write_target(n[2], msg)
            return msg
        self.trace.append(("assign2_ok", site))
        self.write_target(n[1], v)
        self.write_target(n[2], None)
        return v

    def ev_abort(self, n):
        msg = None
        if n[1] is not None:
            m = self.ev(n[1])
            if isinstance(m, ErrMsg):
                raise Unmodelled("abort with error message")
            if type(m) is not bytes:
                raise VErr("abort: non-string message")
            msg = m
        self.trace.append(("abort",))
        raise VAbort(msg)

    def ev_return(self, n):
        v = self.ev(n[1])
        self.trace.append(("return", self.closure_depth))
        raise VReturn(v)

    def ev_probe(self, n):
        return self.ev(n[2])

    # -- calls
    def ev_call(self, n):
        name, args, bang, closure = n[1], n[2], n[3], n[4]
        f = getattr(self, "fn_" + name, None)
        if f is None:
            raise Unmodelled("function " + name)
        return f(args, closure)

    def arg(self, args, i, kw=None):
        for k, e in args:
            if kw is not None and k == kw:
                return e
        pos = [e for k, e in args if k is None]
        return pos[i] if i < len(pos) else None

    def fn_del(self, args, closure):
        q = self.arg(args, 0, "target")
        compact_e = self.arg(args, 1, "compact")
        compact = False
        if compact_e is not None:
            compact = self.ev(compact_e)
            if type(compact) is not bool:
                raise VErr("del: compact")
        if q[0] != "path" and q[0] != "var":
            raise Unmodelled("del target")
        root, segs = (q[1], q[2]) if q[0] == "path" else (q[1], [])
        path = [(k, x) for k, x in segs]
        if root == ".":
            new, found, removed = mv.remove(self.event, path, compact)
            self.event = new
        elif root == "%":
            new, found, removed = mv.remove(self.meta, path, compact)
            self.meta = new
        else:
            if root not in self.vars:
                return None
            new, found, removed = mv.remove(self.vars[root], path, compact)
            self.vars[root] = new
        return removed if found else None

    def fn_exists(self, args, closure):
        q = self.arg(args, 0, "field")
        if q[0] != "path":
            raise Unmodelled("exists target")
        root, path = q[1], [(k, x) for k, x in q[2]]
        if root == ".":
            return mv.get(self.event, path)[0]
        if root == "%":
            return mv.get(self.meta, path)[0]
        if root not in self.vars:
            return False
        return mv.get(self.vars[root], path)[0]

    def _bytes_ascii(self, v, what):
        if isinstance(v, ErrMsg):
            raise Unmodelled("case of error message")
        if type(v) is not bytes:
            raise VErr(what + ": not string")
        if any(c > 0x7F for c in v):
            raise Unmodelled("non-ascii string in " + what)
        return v

    def fn_upcase(self, args, closure):
        return self._bytes_ascii(self.ev(self.arg(args, 0, "value")), "upcase").upper()

    def fn_downcase(self, args, closure):
        return self._bytes_ascii(self.ev(self.arg(args, 0, "value")), "downcase").lower()

    def fn_length(self, args, closure):
        v = self.ev(self.arg(args, 0, "value"))
        if isinstance(v, ErrMsg):
            raise Unmodelled("length of error message")
        if type(v) in (bytes, list, dict):
            return len(v)
        raise VErr("length: type")

    def fn_push(self, args, closure):
        a = self.ev(self.arg(args, 0, "value"))
        x = self.ev(self.arg(args, 1, "item"))
        if type(a) is not list:
            raise VErr("push: type")
        return a + [x]

    def fn_append(self, args, closure):
        a = self.ev(self.arg(args, 0, "value"))
        b = self.ev(self.arg(args, 1, "items"))
        if type(a) is not list or type(b) is not list:
            raise VErr("append: type")
        return a + b

    def fn_keys(self, args, closure):
        v = self.ev(self.arg(args, 0, "value"))
        if type(v) is not dict:
            raise VErr("keys: type")
        return [k.encode("utf-8") for k in sorted(v, key=lambda s: s.encode("utf-8"))]

    def fn_values(self, args, closure):
        v = self.ev(self.arg(args, 0, "value"))
        if type(v) is not dict:
            raise VErr("values: type")
        return [v[k] for k in sorted(v, key=lambda s: s.encode("utf-8"))]

    def _assert_kind(self, args, kind):
        v = self.ev(self.arg(args, 0, "value"))
        if mtag(v) != kind:
            raise VErr("type assertion")
        return v

    def fn_string(self, args, closure):
        return self._assert_kind(args, "bytes")

    def fn_int(self, args, closure):
        return self._assert_kind(args, "integer")

    def fn_float(self, args, closure):
        return self._assert_kind(args, "float")

    def fn_bool(self, args, closure):
        return self._assert_kind(args, "boolean")

    def fn_array(self, args, closure):
        return self._assert_kind(args, "array")

    def fn_object(self, args, closure):
        return self._assert_kind(args, "object")

    def _is(self, args, kind):
        return mtag(self.ev(self.arg(args, 0, "value"))) == kind

    def fn_is_string(self, args, closure):
        return self._is(args, "bytes")

    def fn_is_integer(self, args, closure):
        return self._is(args, "integer")

    def fn_is_float(self, args, closure):
        return self._is(args, "float")

    def fn_is_boolean(self, args, closure):
        return self._is(args, "boolean")

    def fn_is_null(self, args, closure):
        return self._is(args, "null")

    def fn_is_array(self, args, closure):
        return self._is(args, "array")

    def fn_is_object(self, args, closure):
        return self._is(args, "object")

    def fn_merge(self, args, closure):
        a = self.ev(self.arg(args, 0, "to"))
        b = self.ev(self.arg(args, 1, "from"))
        if self.arg(args, 2, "deep") is not None:
            raise Unmodelled("merge deep")
        if type(a) is not dict or type(b) is not dict:
            raise VErr("merge: type")
        out = dict(a)
        out.update(b)
        return dict(sorted(out.items(), key=lambda kv: kv[0].encode("utf-8")))

    # -- closures
    def _with_params(self, params, values, body):
        """Run the closure body once with params bound; restores the store afterwards, on
        success and on failure (parameters are scoped to the closure)."""
        saved = []
        for p, v in zip(params, values):
            if p == "_":
                continue
            saved.append((p, p in self.vars, self.vars.get(p)))
            self.vars[p] = v
        self.closure_depth += 1
        try:
            try:
                return self.block(body)
            except VReturn as r:
                # inside a closure `return` ends the current iteration with its value
                self.trace.append(("closure_return",))
                return r.value
        finally:
            self.closure_depth -= 1
            for p, had, old in reversed(saved):
                if had:
                    self.vars[p] = old
                else:
                    self.vars.pop(p, None)

    def _items(self, v):
        if type(v) is dict:
            return [(k.encode("utf-8"), v[k]) for k in sorted(v, key=lambda s: s.encode("utf-8"))]
        if type(v) is list:
            return list(enumerate(v))
        # iterating a non-collection (possible only when the runtime value left the compile-time
        # type) is not specified by the documentation
        raise Unmodelled("iteration over non-collection")

    def fn_for_each(self, args, closure):
        v = self.ev(self.arg(args, 0, "value"))
        params, body = closure
        for k, x in self._items(v):
            self.trace.append(("iteration", "for_each", tag(v)))
            self._with_params(params, [k, x], body)
        return None

    def fn_filter(self, args, closure):
        v = self.ev(self.arg(args, 0, "value"))
        params, body = closure
        if type(v) is dict:
            out = {}
            for k, x in self._items(v):
                self.trace.append(("iteration", "filter", "object"))
                r = self._with_params(params, [k, x], body)
                if type(r) is not bool:
                    raise Unmodelled("filter: non-boolean closure result")
                if r:
                    out[k.decode("utf-8")] = x
            return out
        if type(v) is list:
            out = []
            for k, x in self._items(v):
                self.trace.append(("iteration", "filter", "array"))
                r = self._with_params(params, [k, x], body)
                if type(r) is not bool:
                    raise Unmodelled("filter: non-boolean closure result")
                if r:
                    out.append(x)
            return out
        raise Unmodelled("iteration over non-collection")

    def fn_map_values(self, args, closure):
        v = self.ev(self.arg(args, 0, "value"))
        if self.arg(args, 1, "recursive") is not None:
            raise Unmodelled("map_values recursive")
        params, body = closure
        if type(v) is dict:
            out = {}
            for k, x in self._items(v):
                self.trace.append(("iteration", "map_values", "object"))
                out[k.decode("utf-8")] = self._with_params(params, [x], body)
            return out
        if type(v) is list:
            out = []
            for _, x in self._items(v):
                self.trace.append(("iteration", "map_values", "array"))
                out.append(self._with_params(params, [x], body))
            return out
        raise Unmodelled("iteration over non-collection")

    def fn_map_keys(self, args, closure):
        v = self.ev(self.arg(args, 0, "value"))
        if self.arg(args, 1, "recursive") is not None:
            raise Unmodelled("map_keys recursive")
        params, body = closure
        if type(v) is not dict:
            raise Unmodelled("iteration over non-collection")
        out = {}
        for k, x in self._items(v):
            self.trace.append(("iteration", "map_keys", "object"))
            nk = self._with_params(params, [k], body)
            if type(nk) is not bytes:
                raise VErr("map_keys: non-string key")
            try:
                nks = nk.decode("utf-8")
            except UnicodeDecodeError:
                raise Unmodelled("map_keys: non-utf8 key")
            if nks in out:
                raise Unmodelled("map_keys: key collision")
            out[nks] = x
        return dict(sorted(out.items(), key=lambda kv: kv[0].encode("utf-8")))


class ErrMsg:
    """Placeholder for an error-message string: equal to any non-empty byte string."""
    def __repr__(self):
        return "<error message>"


def model_eq(model_v, real_v):
    """Compare a model value (may contain ErrMsg placeholders) with a real value."""
    if isinstance(model_v, ErrMsg):
        return type(real_v) is bytes and len(real_v) > 0
    tm, tr = type(model_v), type(real_v)
    if tm is not tr:
        return False
    if tm is list:
        return len(model_v) == len(real_v) and all(model_eq(a, b) for a, b in zip(model_v, real_v))
    if tm is dict:
        return model_v.keys() == real_v.keys() and all(model_eq(model_v[k], real_v[k]) for k in model_v)
    return model_v == real_v
