"""Independent membership predicate  value ∈ Kind  over exported kinds, and a sampler.

KIND = {"never":true} | {"p":[prims], "a":COLL?, "o":COLL?}
COLL = {"k":{key:KIND}, "u":KIND | {"inf":[flags]}}
Build-spec extras ("any", "json", "any_object", {"inf":"any"|"json"}) are normalised first.
"""
from ..wire import tag
from ..gen import values as gv

PRIMS = ["bytes", "integer", "float", "boolean", "timestamp", "regex", "null"]
ANY_FLAGS = PRIMS + ["array", "object"]
JSON_FLAGS = ["bytes", "integer", "float", "boolean", "null", "array", "object"]


def normalise(k):
    """Bring a build spec into export shape."""
    if k == "any":
        return {"p": list(PRIMS), "a": {"k": {}, "u": {"inf": list(ANY_FLAGS)}},
                "o": {"k": {}, "u": {"inf": list(ANY_FLAGS)}}}
    if k == "json":
        fl = [p for p in JSON_FLAGS if p not in ("array", "object")]
        return {"p": fl, "a": {"k": {}, "u": {"inf": list(JSON_FLAGS)}},
                "o": {"k": {}, "u": {"inf": list(JSON_FLAGS)}}}
    if k == "any_object":
        return {"p": [], "o": {"k": {}, "u": {"inf": list(ANY_FLAGS)}}}
    if k == "never" or k.get("never"):
        return {"never": True}
    out = {"p": list(k.get("p", []))}
    for c in ("a", "o"):
        if c in k:
            coll = k[c]
            u = coll.get("u")
            if u is None:
                u = {"p": ["undefined"]}
            elif isinstance(u, dict) and "inf" in u:
                inf = u["inf"]
                if inf == "any":
                    inf = list(ANY_FLAGS)
                elif inf == "json":
                    inf = list(JSON_FLAGS)
                u = {"inf": [f for f in inf if f != "undefined"]}
            else:
                u = normalise(u)
            out[c] = {"k": {kk: normalise(vv) for kk, vv in coll.get("k", {}).items()}, "u": u}
    return out


def admits_undefined(k):
    return (not k.get("never")) and "undefined" in k.get("p", ())


def inf_member(v, flags):
    t = tag(v)
    if t not in flags:
        return False
    if t == "array":
        return all(inf_member(x, flags) for x in v)
    if t == "object":
        return all(inf_member(x, flags) for x in v.values())
    return True


def member(v, k, expr_level=False, why=None):
    """v ∈ k ?  `why` (list) receives a short explanation on failure."""
    if k.get("never") or k.get("toodeep"):
        if why is not None:
            why.append("kind is never")
        return False
    t = tag(v)
    if t not in ("array", "object"):
        if t in k.get("p", ()):
            return True
        if expr_level and v is None and "undefined" in k.get("p", ()):
            return True
        if why is not None:
            why.append("%s not in %s" % (t, k.get("p")))
        return False
    ckey = "a" if t == "array" else "o"
    coll = k.get(ckey)
    if coll is None:
        if why is not None:
            why.append("%s not admitted (prims %s%s%s)" % (t, k.get("p"), " +array" if "a" in k else "", " +object" if "o" in k else ""))
        return False
    known = coll.get("k", {})
    u = coll.get("u")
    if t == "array":
        items = [(str(i), x) for i, x in enumerate(v)]
        present = set(str(i) for i in range(len(v)))
    else:
        items = list(v.items())
        present = set(v.keys())
    for key, x in items:
        if key in known:
            if not member(x, known[key], False, why):
                if why is not None:
                    why.append("at known %s[%s]" % (t, key))
                return False
        else:
            if isinstance(u, dict) and "inf" in u:
                if not inf_member(x, u["inf"]):
                    if why is not None:
                        why.append("at unknown %s[%s]: %s not within infinite %s" % (t, key, tag(x), u["inf"]))
                    return False
            else:
                if u is None or not member(x, u, False, why):
                    if why is not None:
                        why.append("at unknown %s[%s]" % (t, key))
                    return False
    for key, kk in known.items():
        if key not in present and not admits_undefined(kk):
            if why is not None:
                why.append("known %s[%s] missing but does not admit undefined" % (t, key))
            return False
    return True


# ----------------------------------------------------------------------------------------
# sampling

def sample_prim(p, rng):
    return gv.rand_scalar(rng, [p])


def sample_inf(flags, rng, depth):
    flags = [f for f in flags if f != "undefined"]
    if depth <= 0:
        flags = [f for f in flags if f not in ("array", "object")] or ["null"]
    f = rng.choice(flags)
    if f == "array":
        return [sample_inf(flags, rng, depth - 1) for _ in range(rng.randint(0, 3))]
    if f == "object":
        return {gv.rand_key(rng, simple=rng.random() < 0.8): sample_inf(flags, rng, depth - 1)
                for _ in range(rng.randint(0, 3))}
    return sample_prim(f, rng)


class NoMember(Exception):
    pass


def sample(k, rng, depth=3):
    """Draw a *defined* member of k (k must be normalised / exported). Raises NoMember."""
    if k.get("never"):
        raise NoMember()
    choices = [p for p in k.get("p", ()) if p != "undefined"]
    if "a" in k:
        choices.append("array")
    if "o" in k:
        choices.append("object")
    if not choices:
        raise NoMember()
    rng.shuffle(choices)
    for c in choices:
        try:
            if c == "array":
                return sample_coll(k["a"], rng, depth, True)
            if c == "object":
                return sample_coll(k["o"], rng, depth, False)
            return sample_prim(c, rng)
        except NoMember:
            continue
    raise NoMember()


def sample_coll(coll, rng, depth, is_array):
    known = coll.get("k", {})
    u = coll.get("u")

    def draw_unknown():
        if isinstance(u, dict) and "inf" in u:
            if not u["inf"]:
                raise NoMember()
            return sample_inf(u["inf"], rng, max(depth - 1, 0))
        if u is None:
            raise NoMember()
        return sample(u, rng, depth - 1)

    def unknown_possible():
        if isinstance(u, dict) and "inf" in u:
            return bool(u["inf"])
        if u is None or u.get("never"):
            return False
        return bool([p for p in u.get("p", ()) if p != "undefined"]) or "a" in u or "o" in u

    if is_array:
        idx = sorted(int(i) for i in known)
        # required length: highest known index that does not admit undefined
        req = 0
        for i in idx:
            if not admits_undefined(known[str(i)]):
                req = i + 1
        maxlen = (idx[-1] + 1) if idx else 0
        extra_ok = unknown_possible()
        n = req
        if rng.random() < 0.6:
            hi = maxlen + (2 if extra_ok else 0)
            if hi > req:
                n = rng.randint(req, hi)
        out = []
        for i in range(n):
            if str(i) in known:
                kk = known[str(i)]
                try:
                    out.append(sample(kk, rng, depth - 1))
                except NoMember:
                    # only undefined admitted: array must stop here
                    break
            else:
                if not extra_ok:
                    break
                out.append(draw_unknown())
        if len(out) < req:
            raise NoMember()
        return out
    out = {}
    for key, kk in known.items():
        if admits_undefined(kk) and rng.random() < 0.35:
            continue
        try:
            out[key] = sample(kk, rng, depth - 1)
        except NoMember:
            if not admits_undefined(kk):
                raise
    if unknown_possible() and depth > 0:
        for _ in range(rng.choice([0, 0, 1, 2])):
            key = gv.rand_key(rng, simple=rng.random() < 0.8)
            if key not in known:
                out[key] = draw_unknown()
    return dict(sorted(out.items(), key=lambda kv: kv[0].encode()))


def short(k, depth=2):
    """Compact rendering of a kind for signatures / evidence."""
    if k.get("never"):
        return "never"
    parts = list(k.get("p", ()))
    for c, name in (("a", "array"), ("o", "object")):
        if c in k:
            coll = k[c]
            u = coll.get("u")
            if isinstance(u, dict) and "inf" in u:
                us = "inf"
            else:
                us = short(u, depth - 1) if (u is not None and depth > 0) else "…"
            if depth > 0:
                ks = ",".join("%s:%s" % (kk, short(vv, depth - 1)) for kk, vv in sorted(coll.get("k", {}).items())[:4])
            else:
                ks = "…"
            parts.append("%s{%s|%s}" % (name, ks, us))
    return "|".join(parts) if parts else "∅"
