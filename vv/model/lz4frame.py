"""LZ4 helpers written from the public format descriptions (lz4_Block_format.md, lz4_Frame_format.md,
xxHash specification): XXH32, an LZ4 *block* decoder, and an LZ4 *frame* builder that wraps given
block payloads (stored or already compressed). Independent of vrl / lz4_flex."""
import struct

M32 = 0xFFFFFFFF
P1, P2, P3, P4, P5 = 2654435761, 2246822519, 3266489917, 668265263, 374761393


def _rotl(x, r):
    return ((x << r) | (x >> (32 - r))) & M32


def _round(acc, lane):
    acc = (acc + lane * P2) & M32
    return (_rotl(acc, 13) * P1) & M32


def xxh32(data, seed=0):
    n = len(data)
    i = 0
    if n >= 16:
        v1 = (seed + P1 + P2) & M32
        v2 = (seed + P2) & M32
        v3 = seed & M32
        v4 = (seed - P1) & M32
        while i + 16 <= n:
            a, b, c, d = struct.unpack_from("<IIII", data, i)
            v1 = _round(v1, a)
            v2 = _round(v2, b)
            v3 = _round(v3, c)
            v4 = _round(v4, d)
            i += 16
        h = (_rotl(v1, 1) + _rotl(v2, 7) + _rotl(v3, 12) + _rotl(v4, 18)) & M32
    else:
        h = (seed + P5) & M32
    h = (h + n) & M32
    while i + 4 <= n:
        (w,) = struct.unpack_from("<I", data, i)
        h = (h + w * P3) & M32
        h = (_rotl(h, 17) * P4) & M32
        i += 4
    while i < n:
        h = (h + data[i] * P5) & M32
        h = (_rotl(h, 11) * P1) & M32
        i += 1
    h ^= h >> 15
    h = (h * P2) & M32
    h ^= h >> 13
    h = (h * P3) & M32
    h ^= h >> 16
    return h


class Lz4Error(Exception):
    pass


def block_decode(src, max_out=1 << 26):
    """Decode one raw LZ4 block (no size prefix)."""
    out = bytearray()
    i, n = 0, len(src)
    if n == 0:
        return b""
    while True:
        if i >= n:
            raise Lz4Error("truncated: token")
        token = src[i]
        i += 1
        lit = token >> 4
        if lit == 15:
            while True:
                if i >= n:
                    raise Lz4Error("truncated: literal length")
                b = src[i]
                i += 1
                lit += b
                if b != 255:
                    break
        if i + lit > n:
            raise Lz4Error("truncated: literals")
        out += src[i:i + lit]
        i += lit
        if i == n:
            break  # last sequence has no match part
        if i + 2 > n:
            raise Lz4Error("truncated: offset")
        off = src[i] | (src[i + 1] << 8)
        i += 2
        if off == 0 or off > len(out):
            raise Lz4Error("bad offset")
        ml = token & 15
        if ml == 15:
            while True:
                if i >= n:
                    raise Lz4Error("truncated: match length")
                b = src[i]
                i += 1
                ml += b
                if b != 255:
                    break
        ml += 4
        start = len(out) - off
        if off >= ml:
            out += out[start:start + ml]
        else:
            for k in range(ml):
                out.append(out[start + k])
        if len(out) > max_out:
            raise Lz4Error("output too large")
    return bytes(out)


BLOCK_MAX = {4: 1 << 16, 5: 1 << 18, 6: 1 << 20, 7: 1 << 22}


def build_frame(content, blocks, bd_code=4, block_checksum=False, content_checksum=False,
                content_size=False, independent=True):
    """blocks: list of (payload_bytes, is_uncompressed); `content` is the original data (for the
    optional content size / checksum)."""
    flg = 0x40  # version 01
    if independent:
        flg |= 0x20
    if block_checksum:
        flg |= 0x10
    if content_size:
        flg |= 0x08
    if content_checksum:
        flg |= 0x04
    desc = bytes([flg, bd_code << 4])
    if content_size:
        desc += struct.pack("<Q", len(content))
    hc = (xxh32(desc) >> 8) & 0xFF
    out = bytearray(b"\x04\x22\x4d\x18") + desc + bytes([hc])
    for payload, stored in blocks:
        size = len(payload) | (0x80000000 if stored else 0)
        out += struct.pack("<I", size) + payload
        if block_checksum:
            out += struct.pack("<I", xxh32(payload))
    out += b"\x00\x00\x00\x00"
    if content_checksum:
        out += struct.pack("<I", xxh32(content))
    return bytes(out)


def self_test():
    assert xxh32(b"") == 0x02CC5D05
    assert xxh32(b"a") == 0x550D7456
    assert xxh32(b"abc") == 0x32D153FF
    assert xxh32(b"Nobody inspects the spammish repetition") == 0xE2293B2F
    assert block_decode(bytes([0x50]) + b"hello") == b"hello"
    # 'aaaaaaaaaaaa' : 1 literal 'a', match offset 1 length 6(+4... ) then final literals
    assert block_decode(bytes([0x12, ord("a"), 1, 0, 0x50]) + b"aaaaa") == b"a" * 12
    return True
