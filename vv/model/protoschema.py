"""A small .proto (proto2/proto3) source parser -> message schemas.

Independent of vrl / prost-reflect: reads the `.proto` text that sits next to a bundled `.desc`
and derives, for every message type, the fully-qualified name (`package.Outer.Inner`) and its
fields (label, scalar type / enum / message / map<K,V>, oneof membership, proto2 default,
field presence discipline).  The binary `.desc` is never parsed here.

Supported: syntax, package, import (only the well-known `google/protobuf/timestamp.proto`, whose
source is embedded), message (nested), enum (nested / top level), fields with labels
optional/required/repeated, map<K,V>, oneof, field options (`default`, `packed`, `json_name`, ...),
reserved / extensions / option statements (ignored).  Anything else raises `ProtoSyntaxError`.
"""
import os
import re

SCALARS = {
    "double", "float", "int32", "int64", "uint32", "uint64", "sint32", "sint64",
    "fixed32", "fixed64", "sfixed32", "sfixed64", "bool", "string", "bytes",
}
MAP_KEY_TYPES = SCALARS - {"double", "float", "bytes"}

WELL_KNOWN = {
    "google/protobuf/timestamp.proto": (
        'syntax = "proto3";\n'
        "package google.protobuf;\n"
        "message Timestamp {\n  int64 seconds = 1;\n  int32 nanos = 2;\n}\n"
    ),
}


class ProtoSyntaxError(Exception):
    pass


class EnumType:
    def __init__(self, full_name, values, syntax):
        self.full_name = full_name
        self.values = values          # [(name, number)] in declaration order
        self.syntax = syntax

    def first(self):
        return self.values[0][0]

    def names(self):
        return [n for n, _ in self.values]


class TypeRef:
    """Element type of a field / map value: kind in SCALARS | 'enum' | 'message'."""

    def __init__(self, kind, type_name=None):
        self.kind = kind
        self.type_name = type_name     # fully-qualified for enum / message

    def cls(self):
        if self.kind == "enum":
            return "enum"
        if self.kind == "message":
            return "message"
        return self.kind


class Field:
    def __init__(self, name, number, label, elem, map_key=None, oneof=None, default=None, options=None):
        self.name = name
        self.number = number
        self.label = label             # 'optional' | 'required' | 'repeated' | None (proto3 implicit)
        self.elem = elem               # TypeRef (for maps: the value type)
        self.map_key = map_key         # scalar type name when this is map<K,V>
        self.oneof = oneof
        self.default = default         # proto2 [default = ...] raw token
        self.options = options or {}
        self.presence = None           # 'explicit' | 'implicit' | 'repeated' | 'map' (set by File)

    @property
    def is_map(self):
        return self.map_key is not None

    @property
    def is_repeated(self):
        return self.label == "repeated" and not self.is_map

    def cls(self):
        """Field-kind class used in signatures / coverage."""
        if self.is_map:
            return "map<%s,%s>" % (self.map_key, self.elem.cls())
        if self.is_repeated:
            return "repeated<%s>" % self.elem.cls()
        return self.elem.cls()


class Message:
    def __init__(self, full_name, syntax, fields, synthetic=False):
        self.full_name = full_name
        self.syntax = syntax
        self.fields = fields
        self.synthetic = synthetic     # map entry type synthesised by protoc

    def field(self, name):
        for f in self.fields:
            if f.name == name:
                return f
        return None


class File:
    def __init__(self, path):
        self.path = path
        self.syntax = "proto2"
        self.package = ""
        self.imports = []
        self.messages = {}             # full name -> Message (declared in this file)
        self.enums = {}                # full name -> EnumType
        self.all_messages = {}         # incl. imports
        self.all_enums = {}


# ------------------------------------------------------------------------------------------
# tokenizer

TOKEN_RE = re.compile(r"""
    (?P<ws>\s+)
  | (?P<lc>//[^\n]*)
  | (?P<bc>/\*.*?\*/)
  | (?P<str>"(?:\\.|[^"\\])*"|'(?:\\.|[^'\\])*')
  | (?P<num>[-+]?(?:0[xX][0-9a-fA-F]+|\d+\.?\d*(?:[eE][-+]?\d+)?|\.\d+(?:[eE][-+]?\d+)?|inf|nan)\b)
  | (?P<id>\.?[A-Za-z_][A-Za-z0-9_]*(?:\.[A-Za-z_][A-Za-z0-9_]*)*)
  | (?P<p>[{}\[\]()<>;=,:-])
""", re.S | re.X)


def tokenize(text):
    pos, out = 0, []
    while pos < len(text):
        m = TOKEN_RE.match(text, pos)
        if not m:
            raise ProtoSyntaxError("unexpected character %r at offset %d" % (text[pos], pos))
        pos = m.end()
        k = m.lastgroup
        if k in ("ws", "lc", "bc"):
            continue
        out.append((k, m.group()))
    return out


class Parser:
    def __init__(self, text, path):
        self.toks = tokenize(text)
        self.i = 0
        self.file = File(path)
        self.raw_messages = []         # (full_name, scope, [raw field tuples])

    # -- token helpers
    def peek(self):
        return self.toks[self.i] if self.i < len(self.toks) else (None, None)

    def next(self):
        t = self.peek()
        if t[0] is None:
            raise ProtoSyntaxError("unexpected end of file")
        self.i += 1
        return t

    def expect(self, val):
        k, v = self.next()
        if v != val:
            raise ProtoSyntaxError("expected %r, got %r" % (val, v))

    def ident(self):
        k, v = self.next()
        if k != "id":
            raise ProtoSyntaxError("expected identifier, got %r" % v)
        return v

    def skip_statement(self):
        depth = 0
        while True:
            k, v = self.next()
            if v == "{":
                depth += 1
            elif v == "}":
                depth -= 1
                if depth == 0:
                    return
            elif v == ";" and depth == 0:
                return

    def skip_block(self):
        self.expect("{")
        depth = 1
        while depth:
            k, v = self.next()
            if v == "{":
                depth += 1
            elif v == "}":
                depth -= 1

    # -- grammar
    def parse(self):
        f = self.file
        while self.peek()[0] is not None:
            k, v = self.peek()
            if v == ";":
                self.next()
            elif v == "syntax":
                self.next()
                self.expect("=")
                f.syntax = self.next()[1][1:-1]
                self.expect(";")
            elif v == "edition":
                raise ProtoSyntaxError("editions are not supported")
            elif v == "package":
                self.next()
                f.package = self.ident()
                self.expect(";")
            elif v == "import":
                self.next()
                if self.peek()[1] in ("public", "weak"):
                    self.next()
                f.imports.append(self.next()[1][1:-1])
                self.expect(";")
            elif v == "option":
                self.skip_statement()
            elif v == "message":
                self.next()
                self.message(f.package)
            elif v == "enum":
                self.next()
                self.enum(f.package)
            elif v in ("service", "extend"):
                self.next()
                self.ident()
                self.skip_block()
            else:
                raise ProtoSyntaxError("unexpected top-level token %r" % v)
        return f

    def enum(self, scope):
        name = self.ident()
        full = (scope + "." if scope else "") + name
        self.expect("{")
        values = []
        while self.peek()[1] != "}":
            k, v = self.peek()
            if v == ";":
                self.next()
            elif v in ("option", "reserved"):
                self.skip_statement()
            else:
                vname = self.ident()
                self.expect("=")
                num = int(self.next()[1], 0)
                if self.peek()[1] == "[":
                    self.options()
                self.expect(";")
                values.append((vname, num))
        self.expect("}")
        self.file.enums[full] = EnumType(full, values, self.file.syntax)

    def options(self):
        """[a = b, (x.y).z = c] -> dict of raw tokens."""
        self.expect("[")
        out = {}
        while True:
            key = []
            while self.peek()[1] != "=":
                key.append(self.next()[1])
            self.expect("=")
            k, v = self.next()
            if v == "{":                       # aggregate value: skip
                depth = 1
                while depth:
                    kk, vv = self.next()
                    depth += (vv == "{") - (vv == "}")
                v = "{...}"
            elif v == "-":
                v = "-" + self.next()[1]
            out["".join(key)] = v
            k2, v2 = self.next()
            if v2 == "]":
                return out
            if v2 != ",":
                raise ProtoSyntaxError("bad option list near %r" % v2)

    def field_tail(self):
        self.expect("=")
        num = int(self.next()[1], 0)
        opts = self.options() if self.peek()[1] == "[" else {}
        self.expect(";")
        return num, opts

    def message(self, scope):
        name = self.ident()
        full = (scope + "." if scope else "") + name
        self.expect("{")
        raw = []
        self.body(full, raw, None)
        self.expect("}")
        self.raw_messages.append((full, raw))

    def body(self, full, raw, oneof):
        while self.peek()[1] != "}":
            k, v = self.peek()
            if v == ";":
                self.next()
            elif v in ("option", "reserved", "extensions"):
                self.skip_statement()
            elif v == "message" and oneof is None:
                self.next()
                self.message(full)
            elif v == "enum" and oneof is None:
                self.next()
                self.enum(full)
            elif v == "extend" and oneof is None:
                self.next()
                self.ident()
                self.skip_block()
            elif v == "oneof" and oneof is None:
                self.next()
                oname = self.ident()
                self.expect("{")
                self.body(full, raw, oname)
                self.expect("}")
            elif v == "group":
                raise ProtoSyntaxError("groups are not supported")
            elif v == "map" and self.toks[self.i + 1][1] == "<":
                self.next()
                self.expect("<")
                kt = self.ident()
                self.expect(",")
                vt = self.ident()
                self.expect(">")
                fname = self.ident()
                num, opts = self.field_tail()
                if kt not in MAP_KEY_TYPES:
                    raise ProtoSyntaxError("bad map key type %s" % kt)
                raw.append(dict(name=fname, number=num, label="repeated", type=vt, map_key=kt,
                                oneof=None, options=opts))
            else:
                label = None
                if v in ("optional", "required", "repeated") and oneof is None:
                    label = v
                    self.next()
                    if self.peek()[1] == "group":
                        raise ProtoSyntaxError("groups are not supported")
                t = self.ident()
                fname = self.ident()
                num, opts = self.field_tail()
                raw.append(dict(name=fname, number=num, label=label, type=t, map_key=None,
                                oneof=oneof, options=opts))


def _resolve(type_name, scope, messages, enums):
    """protobuf name resolution: innermost scope outwards."""
    if type_name.startswith("."):
        cand = [type_name[1:]]
    else:
        parts = scope.split(".") if scope else []
        cand = [".".join(parts[:n] + [type_name]) for n in range(len(parts), -1, -1)]
    for c in cand:
        if c in messages:
            return TypeRef("message", c)
        if c in enums:
            return TypeRef("enum", c)
    raise ProtoSyntaxError("unresolved type %s in %s" % (type_name, scope))


def _camel(name):
    out, up = [], True
    for ch in name:
        if ch == "_":
            up = True
        elif up:
            out.append(ch.upper())
            up = False
        else:
            out.append(ch)
    return "".join(out)


def parse_text(text, path="<text>", loader=None):
    p = Parser(text, path)
    f = p.parse()
    f.all_enums = dict(f.enums)
    raw_all = {full: (raw, f.syntax) for full, raw in p.raw_messages}
    imported = {}
    for imp in f.imports:
        if loader is None:
            raise ProtoSyntaxError("import %s: no loader" % imp)
        sub = loader(imp)
        imported.update(sub.all_messages)
        f.all_enums.update(sub.all_enums)
    names = set(raw_all) | set(imported)
    for full, (raw, syntax) in raw_all.items():
        fields = []
        for r in raw:
            if r["type"] in SCALARS:
                elem = TypeRef(r["type"])
            else:
                elem = _resolve(r["type"], full, names, f.all_enums)
            fld = Field(r["name"], r["number"], r["label"], elem, map_key=r["map_key"], oneof=r["oneof"],
                        default=r["options"].get("default"), options=r["options"])
            if fld.is_map:
                fld.presence = "map"
            elif fld.label == "repeated":
                fld.presence = "repeated"
            elif fld.label == "required":
                fld.presence = "explicit"
            elif fld.oneof is not None or elem.kind == "message":
                fld.presence = "explicit"
            elif syntax == "proto2":
                fld.presence = "explicit"
            else:
                fld.presence = "explicit" if fld.label == "optional" else "implicit"
            fields.append(fld)
        f.messages[full] = Message(full, syntax, fields)
    # synthetic map entry messages, named as protoc does (CamelCase(field) + "Entry")
    for full in list(f.messages):
        for fld in f.messages[full].fields:
            if fld.is_map:
                ename = "%s.%sEntry" % (full, _camel(fld.name))
                kf = Field("key", 1, None, TypeRef(fld.map_key))
                vf = Field("value", 2, None, fld.elem)
                syntax = f.messages[full].syntax
                for x in (kf, vf):
                    if x.elem.kind == "message":
                        x.presence = "explicit"
                    else:
                        x.presence = "explicit" if syntax == "proto2" else "implicit"
                    if syntax == "proto2":
                        x.label = "optional"
                f.messages[ename] = Message(ename, syntax, [kf, vf], synthetic=True)
    f.all_messages = dict(imported)
    f.all_messages.update(f.messages)
    return f


def load(path, root=None):
    """Parse a .proto file; imports are resolved among the embedded well-known files or under `root`."""
    root = root or os.path.dirname(path)

    def loader(imp):
        if imp in WELL_KNOWN:
            return parse_text(WELL_KNOWN[imp], imp, loader)
        p = os.path.join(root, imp)
        with open(p, "r", encoding="utf-8") as fh:
            return parse_text(fh.read(), p, loader)

    with open(path, "r", encoding="utf-8") as fh:
        return parse_text(fh.read(), path, loader)


def discover(root):
    """All (.desc path, parsed File) pairs below root where X.desc has X.proto next to it."""
    out = []
    for d, _dirs, files in sorted(os.walk(root)):
        for fn in sorted(files):
            if fn.endswith(".desc"):
                proto = os.path.join(d, fn[:-5] + ".proto")
                if os.path.exists(proto):
                    out.append((os.path.join(d, fn), load(proto, root)))
    return out
