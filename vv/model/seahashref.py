"""Pure-Python SeaHash (v4 "reference" algorithm as specified in the seahash documentation:
four-lane state, little-endian 8-byte reads with a zero-padded tail, PCG-style `diffuse`,
finalisation diffuse(a ^ b ^ c ^ d ^ len)).  Written from the specification, not from the
optimised code path vrl links.  `selftest()` checks the published vectors."""

M64 = 0xFFFFFFFFFFFFFFFF
SEEDS = (0x16f11fe89b0d677c, 0xb480a793d8e6c86c, 0x6fe2e5aaf078ebc9, 0x14f994a4c5259381)
K = 0x6eed0e9da4d94a4f


def diffuse(x):
    x = (x * K) & M64
    a = x >> 32
    b = x >> 60
    x ^= a >> b
    return (x * K) & M64


def seahash(data, seeds=SEEDS):
    a, b, c, d = seeds
    for i in range(0, len(data), 8):
        x = int.from_bytes(data[i:i + 8], "little")
        a, b, c, d = b, c, d, diffuse(a ^ x)
    return diffuse(a ^ b ^ c ^ d ^ len(data))


def selftest():
    """Published vectors: crate documentation / reference test-suite."""
    ok = diffuse(94203824938) == 17289265692384716055
    ok = ok and diffuse(0xDEADBEEF) == 12110756357096144265
    ok = ok and seahash(b"to be or not to be") == 1988685042348123509
    return ok
