"""Raw (block) Snappy decoder written from the public format description (format_description.txt).
Independent of vrl / the snap crate; used only to attribute a round-trip fault to a side."""


class SnappyError(Exception):
    pass


def decode(src, max_out=1 << 26):
    n = len(src)
    i = 0
    total = 0
    shift = 0
    while True:
        if i >= n:
            raise SnappyError("truncated length")
        b = src[i]
        i += 1
        total |= (b & 0x7F) << shift
        if not b & 0x80:
            break
        shift += 7
        if shift > 35:
            raise SnappyError("bad length")
    if total > max_out:
        raise SnappyError("too large")
    out = bytearray()
    while i < n:
        tag = src[i]
        i += 1
        kind = tag & 3
        if kind == 0:
            ln = tag >> 2
            if ln >= 60:
                nb = ln - 59
                if i + nb > n:
                    raise SnappyError("truncated literal length")
                ln = int.from_bytes(src[i:i + nb], "little")
                i += nb
            ln += 1
            if i + ln > n:
                raise SnappyError("truncated literal")
            out += src[i:i + ln]
            i += ln
            continue
        if kind == 1:
            if i + 1 > n:
                raise SnappyError("truncated copy1")
            ln = ((tag >> 2) & 7) + 4
            off = ((tag >> 5) << 8) | src[i]
            i += 1
        elif kind == 2:
            if i + 2 > n:
                raise SnappyError("truncated copy2")
            ln = (tag >> 2) + 1
            off = src[i] | (src[i + 1] << 8)
            i += 2
        else:
            if i + 4 > n:
                raise SnappyError("truncated copy4")
            ln = (tag >> 2) + 1
            off = int.from_bytes(src[i:i + 4], "little")
            i += 4
        if off == 0 or off > len(out):
            raise SnappyError("bad offset")
        start = len(out) - off
        if off >= ln:
            out += out[start:start + ln]
        else:
            for k in range(ln):
                out.append(out[start + k])
    if len(out) != total:
        raise SnappyError("length mismatch")
    return bytes(out)
