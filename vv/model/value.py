"""Reference model of path operations on values (documented behaviour of vrl's Value
get / insert / remove): negative indices count from the end, writing past the end pads with
null (negative indices pad at the front), writing through a non-container replaces it,
remove with `prune` drops containers that became empty (the root is only emptied).

Paths are lists of ("f", name) / ("i", n). Functions are pure: they return new values.
"""
import copy


def _index(arr, i):
    if i >= 0:
        return i if i < len(arr) else None
    j = len(arr) + i
    return j if j >= 0 else None


def get(v, path):
    """Returns (found, value)."""
    for kind, x in path:
        if kind == "f":
            if type(v) is dict and x in v:
                v = v[x]
            else:
                return (False, None)
        else:
            if type(v) is list:
                j = _index(v, x)
                if j is None:
                    return (False, None)
                v = v[j]
            else:
                return (False, None)
    return (True, v)


def insert(v, path, new):
    """Returns the updated value."""
    if not path:
        return copy.deepcopy(new)
    (kind, x), rest = path[0], path[1:]
    if kind == "f":
        obj = dict(v) if type(v) is dict else {}
        obj[x] = insert(obj.get(x), rest, new)
        return dict(sorted(obj.items(), key=lambda kv: kv[0].encode("utf-8")))
    arr = list(v) if type(v) is list else []
    if x >= 0:
        while len(arr) <= x:
            arr.append(None)
        arr[x] = insert(arr[x], rest, new)
        return arr
    need = -x
    if len(arr) < need:
        pad = need - len(arr)
        arr = [None] * pad + arr
        arr[0] = insert(None, rest, new)
        return arr
    j = len(arr) + x
    arr[j] = insert(arr[j], rest, new)
    return arr


def _empty(v):
    return (type(v) is dict or type(v) is list) and len(v) == 0


def remove(v, path, prune=False):
    """Returns (new_value, found, removed_value)."""
    if not path:
        if type(v) is dict:
            return ({}, True, v)
        if type(v) is list:
            return ([], True, v)
        return (None, True, v)
    new, found, removed, _ = _remove(v, path, prune)
    return (new, found, removed)


def _remove(v, path, prune):
    # returns (new_v, found, removed, became_empty)
    (kind, x), rest = path[0], path[1:]
    if kind == "f":
        if type(v) is not dict or x not in v:
            return (v, False, None, False)
        if not rest:
            obj = dict(v)
            removed = obj.pop(x)
            return (obj, True, removed, len(obj) == 0)
        child, found, removed, empty = _remove(v[x], rest, prune)
        if not found:
            return (v, False, None, False)
        obj = dict(v)
        if prune and empty:
            del obj[x]
        else:
            obj[x] = child
        return (obj, True, removed, len(obj) == 0)
    if type(v) is not list:
        return (v, False, None, False)
    j = _index(v, x)
    if j is None:
        return (v, False, None, False)
    if not rest:
        arr = list(v)
        removed = arr.pop(j)
        return (arr, True, removed, len(arr) == 0)
    child, found, removed, empty = _remove(v[j], rest, prune)
    if not found:
        return (v, False, None, False)
    arr = list(v)
    if prune and empty:
        del arr[j]
    else:
        arr[j] = child
    return (arr, True, removed, len(arr) == 0)


def locations(v, prefix=(), out=None, limit=400):
    """All (path, value) locations of v, including the root."""
    if out is None:
        out = []
    if len(out) >= limit:
        return out
    out.append((list(prefix), v))
    if type(v) is dict:
        for k, x in v.items():
            locations(x, prefix + (("f", k),), out, limit)
    elif type(v) is list:
        for i, x in enumerate(v):
            locations(x, prefix + (("i", i),), out, limit)
    return out
