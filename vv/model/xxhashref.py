"""Pure-Python XXH32, XXH64, XXH3-64 and XXH3-128, written from the xxHash specification
(https://github.com/Cyan4973/xxHash/blob/dev/doc/xxhash_spec.md) and the reference
`xxhash.h` algorithm description.  Independent of the `xxhash-rust` crate vrl links.

`selftest()` checks every function against published vectors:
  * the canonical empty-input values from the specification,
  * XXH32/XXH64 values of the reference `xxhsum` sanity buffer,
  * the vectors of the `twox-hash` crate's test-suite (an unrelated implementation whose
    vectors were produced by the reference C library) covering every XXH3 length class.
It returns the set of variant names whose vectors all passed; a caller must not use the others.
"""
import struct

M32 = 0xFFFFFFFF
M64 = 0xFFFFFFFFFFFFFFFF

P32_1 = 0x9E3779B1
P32_2 = 0x85EBCA77
P32_3 = 0xC2B2AE3D
P32_4 = 0x27D4EB2F
P32_5 = 0x165667B1

P64_1 = 0x9E3779B185EBCA87
P64_2 = 0xC2B2AE3D27D4EB4F
P64_3 = 0x165667B19E3779F9
P64_4 = 0x85EBCA77C2B2AE63
P64_5 = 0x27D4EB2F165667C5

PRIME_MX1 = 0x165667919E3779F9
PRIME_MX2 = 0x9FB21C651E98DF25

K_SECRET = bytes([
    0xb8, 0xfe, 0x6c, 0x39, 0x23, 0xa4, 0x4b, 0xbe, 0x7c, 0x01, 0x81, 0x2c, 0xf7, 0x21, 0xad, 0x1c,
    0xde, 0xd4, 0x6d, 0xe9, 0x83, 0x90, 0x97, 0xdb, 0x72, 0x40, 0xa4, 0xa4, 0xb7, 0xb3, 0x67, 0x1f,
    0xcb, 0x79, 0xe6, 0x4e, 0xcc, 0xc0, 0xe5, 0x78, 0x82, 0x5a, 0xd0, 0x7d, 0xcc, 0xff, 0x72, 0x21,
    0xb8, 0x08, 0x46, 0x74, 0xf7, 0x43, 0x24, 0x8e, 0xe0, 0x35, 0x90, 0xe6, 0x81, 0x3a, 0x26, 0x4c,
    0x3c, 0x28, 0x52, 0xbb, 0x91, 0xc3, 0x00, 0xcb, 0x88, 0xd0, 0x65, 0x8b, 0x1b, 0x53, 0x2e, 0xa3,
    0x71, 0x64, 0x48, 0x97, 0xa2, 0x0d, 0xf9, 0x4e, 0x38, 0x19, 0xef, 0x46, 0xa9, 0xde, 0xac, 0xd8,
    0xa8, 0xfa, 0x76, 0x3f, 0xe3, 0x9c, 0x34, 0x3f, 0xf9, 0xdc, 0xbb, 0xc7, 0xc7, 0x0b, 0x4f, 0x1d,
    0x8a, 0x51, 0xe0, 0x4b, 0xcd, 0xb4, 0x59, 0x31, 0xc8, 0x9f, 0x7e, 0xc9, 0xd9, 0x78, 0x73, 0x64,
    0xea, 0xc5, 0xac, 0x83, 0x34, 0xd3, 0xeb, 0xc3, 0xc5, 0x81, 0xa0, 0xff, 0xfa, 0x13, 0x63, 0xeb,
    0x17, 0x0d, 0xdd, 0x51, 0xb7, 0xf0, 0xda, 0x49, 0xd3, 0x16, 0x55, 0x26, 0x29, 0xd4, 0x68, 0x9e,
    0x2b, 0x16, 0xbe, 0x58, 0x7d, 0x47, 0xa1, 0xfc, 0x8f, 0xf8, 0xb8, 0xd1, 0x7a, 0xd0, 0x31, 0xce,
    0x45, 0xcb, 0x3a, 0x8f, 0x95, 0x16, 0x04, 0x28, 0xaf, 0xd7, 0xfb, 0xca, 0xbb, 0x4b, 0x40, 0x7e,
])
SECRET_SIZE_MIN = 136
STRIPE_LEN = 64
SECRET_CONSUME_RATE = 8
MIDSIZE_MAX = 240
MIDSIZE_STARTOFFSET = 3
MIDSIZE_LASTOFFSET = 17
SECRET_LASTACC_START = 7
SECRET_MERGEACCS_START = 11


def r32(b, o):
    return struct.unpack_from("<I", b, o)[0]


def r64(b, o):
    return struct.unpack_from("<Q", b, o)[0]


def rotl32(x, r):
    return ((x << r) | (x >> (32 - r))) & M32


def rotl64(x, r):
    return ((x << r) | (x >> (64 - r))) & M64


def swap32(x):
    return struct.unpack("<I", struct.pack(">I", x & M32))[0]


def swap64(x):
    return struct.unpack("<Q", struct.pack(">Q", x & M64))[0]


# ------------------------------------------------------------------------------- XXH32

def _round32(acc, lane):
    acc = (acc + lane * P32_2) & M32
    acc = rotl32(acc, 13)
    return (acc * P32_1) & M32


def xxh32(data, seed=0):
    n = len(data)
    p = 0
    if n >= 16:
        v1 = (seed + P32_1 + P32_2) & M32
        v2 = (seed + P32_2) & M32
        v3 = seed & M32
        v4 = (seed - P32_1) & M32
        while p + 16 <= n:
            v1 = _round32(v1, r32(data, p))
            v2 = _round32(v2, r32(data, p + 4))
            v3 = _round32(v3, r32(data, p + 8))
            v4 = _round32(v4, r32(data, p + 12))
            p += 16
        h = (rotl32(v1, 1) + rotl32(v2, 7) + rotl32(v3, 12) + rotl32(v4, 18)) & M32
    else:
        h = (seed + P32_5) & M32
    h = (h + n) & M32
    while p + 4 <= n:
        h = (h + r32(data, p) * P32_3) & M32
        h = (rotl32(h, 17) * P32_4) & M32
        p += 4
    while p < n:
        h = (h + data[p] * P32_5) & M32
        h = (rotl32(h, 11) * P32_1) & M32
        p += 1
    h ^= h >> 15
    h = (h * P32_2) & M32
    h ^= h >> 13
    h = (h * P32_3) & M32
    h ^= h >> 16
    return h


# ------------------------------------------------------------------------------- XXH64

def _round64(acc, lane):
    acc = (acc + lane * P64_2) & M64
    acc = rotl64(acc, 31)
    return (acc * P64_1) & M64


def _merge64(h, v):
    v = _round64(0, v)
    h ^= v
    return (h * P64_1 + P64_4) & M64


def xxh64_avalanche(h):
    h ^= h >> 33
    h = (h * P64_2) & M64
    h ^= h >> 29
    h = (h * P64_3) & M64
    h ^= h >> 32
    return h


def xxh64(data, seed=0):
    n = len(data)
    p = 0
    if n >= 32:
        v1 = (seed + P64_1 + P64_2) & M64
        v2 = (seed + P64_2) & M64
        v3 = seed & M64
        v4 = (seed - P64_1) & M64
        while p + 32 <= n:
            v1 = _round64(v1, r64(data, p))
            v2 = _round64(v2, r64(data, p + 8))
            v3 = _round64(v3, r64(data, p + 16))
            v4 = _round64(v4, r64(data, p + 24))
            p += 32
        h = (rotl64(v1, 1) + rotl64(v2, 7) + rotl64(v3, 12) + rotl64(v4, 18)) & M64
        h = _merge64(h, v1)
        h = _merge64(h, v2)
        h = _merge64(h, v3)
        h = _merge64(h, v4)
    else:
        h = (seed + P64_5) & M64
    h = (h + n) & M64
    while p + 8 <= n:
        h ^= _round64(0, r64(data, p))
        h = (rotl64(h, 27) * P64_1 + P64_4) & M64
        p += 8
    if p + 4 <= n:
        h ^= (r32(data, p) * P64_1) & M64
        h = (rotl64(h, 23) * P64_2 + P64_3) & M64
        p += 4
    while p < n:
        h ^= (data[p] * P64_5) & M64
        h = (rotl64(h, 11) * P64_1) & M64
        p += 1
    return xxh64_avalanche(h)


# -------------------------------------------------------------------------------- XXH3

def xxh3_avalanche(h):
    h ^= h >> 37
    h = (h * PRIME_MX1) & M64
    h ^= h >> 32
    return h


def rrmxmx(h, length):
    h ^= rotl64(h, 49) ^ rotl64(h, 24)
    h = (h * PRIME_MX2) & M64
    h ^= ((h >> 35) + length) & M64
    h = (h * PRIME_MX2) & M64
    return h ^ (h >> 28)


def mul128_fold64(a, b):
    p = a * b
    return (p & M64) ^ (p >> 64)


def mix16(data, o, secret, so, seed):
    lo = r64(data, o)
    hi = r64(data, o + 8)
    return mul128_fold64(lo ^ ((r64(secret, so) + seed) & M64),
                         hi ^ ((r64(secret, so + 8) - seed) & M64))


def derive_secret(seed):
    if seed == 0:
        return K_SECRET
    out = bytearray(192)
    for i in range(12):
        lo = (r64(K_SECRET, 16 * i) + seed) & M64
        hi = (r64(K_SECRET, 16 * i + 8) - seed) & M64
        struct.pack_into("<QQ", out, 16 * i, lo, hi)
    return bytes(out)


ACC_INIT = [P32_3, P64_1, P64_2, P64_3, P64_4, P32_2, P64_5, P32_1]


def _accumulate512(acc, data, o, secret, so):
    for i in range(8):
        v = r64(data, o + 8 * i)
        k = v ^ r64(secret, so + 8 * i)
        acc[i ^ 1] = (acc[i ^ 1] + v) & M64
        acc[i] = (acc[i] + (k & M32) * (k >> 32)) & M64


def _scramble(acc, secret, so):
    for i in range(8):
        a = acc[i]
        a ^= a >> 47
        a ^= r64(secret, so + 8 * i)
        acc[i] = (a * P32_1) & M64


def _hash_long_accs(data, secret):
    n = len(data)
    acc = list(ACC_INIT)
    stripes_per_block = (len(secret) - STRIPE_LEN) // SECRET_CONSUME_RATE
    block_len = STRIPE_LEN * stripes_per_block
    nb_blocks = (n - 1) // block_len
    for b in range(nb_blocks):
        for s in range(stripes_per_block):
            _accumulate512(acc, data, b * block_len + s * STRIPE_LEN, secret, s * SECRET_CONSUME_RATE)
        _scramble(acc, secret, len(secret) - STRIPE_LEN)
    nb_stripes = ((n - 1) - block_len * nb_blocks) // STRIPE_LEN
    for s in range(nb_stripes):
        _accumulate512(acc, data, nb_blocks * block_len + s * STRIPE_LEN, secret, s * SECRET_CONSUME_RATE)
    _accumulate512(acc, data, n - STRIPE_LEN, secret, len(secret) - STRIPE_LEN - SECRET_LASTACC_START)
    return acc


def _merge_accs(acc, secret, so, start):
    r = start
    for i in range(4):
        r += mul128_fold64(acc[2 * i] ^ r64(secret, so + 16 * i), acc[2 * i + 1] ^ r64(secret, so + 16 * i + 8))
    return xxh3_avalanche(r & M64)


def xxh3_64(data, seed=0):
    n = len(data)
    s = K_SECRET
    if n == 0:
        return xxh64_avalanche(seed ^ r64(s, 56) ^ r64(s, 64))
    if n <= 3:
        c1, c2, c3 = data[0], data[n >> 1], data[n - 1]
        combined = (c1 << 16) | (c2 << 24) | c3 | (n << 8)
        bitflip = ((r32(s, 0) ^ r32(s, 4)) + seed) & M64
        return xxh64_avalanche(combined ^ bitflip)
    if n <= 8:
        seed ^= swap32(seed & M32) << 32
        in1 = r32(data, 0)
        in2 = r32(data, n - 4)
        bitflip = ((r64(s, 8) ^ r64(s, 16)) - seed) & M64
        in64 = (in2 + (in1 << 32)) & M64
        return rrmxmx(in64 ^ bitflip, n)
    if n <= 16:
        bf1 = ((r64(s, 24) ^ r64(s, 32)) + seed) & M64
        bf2 = ((r64(s, 40) ^ r64(s, 48)) - seed) & M64
        lo = r64(data, 0) ^ bf1
        hi = r64(data, n - 8) ^ bf2
        acc = (n + swap64(lo) + hi + mul128_fold64(lo, hi)) & M64
        return xxh3_avalanche(acc)
    if n <= 128:
        acc = (n * P64_1) & M64
        if n > 32:
            if n > 64:
                if n > 96:
                    acc += mix16(data, 48, s, 96, seed)
                    acc += mix16(data, n - 64, s, 112, seed)
                acc += mix16(data, 32, s, 64, seed)
                acc += mix16(data, n - 48, s, 80, seed)
            acc += mix16(data, 16, s, 32, seed)
            acc += mix16(data, n - 32, s, 48, seed)
        acc += mix16(data, 0, s, 0, seed)
        acc += mix16(data, n - 16, s, 16, seed)
        return xxh3_avalanche(acc & M64)
    if n <= MIDSIZE_MAX:
        acc = (n * P64_1) & M64
        rounds = n // 16
        for i in range(8):
            acc += mix16(data, 16 * i, s, 16 * i, seed)
        acc = xxh3_avalanche(acc & M64)
        for i in range(8, rounds):
            acc += mix16(data, 16 * i, s, 16 * (i - 8) + MIDSIZE_STARTOFFSET, seed)
        acc += mix16(data, n - 16, s, SECRET_SIZE_MIN - MIDSIZE_LASTOFFSET, seed)
        return xxh3_avalanche(acc & M64)
    secret = derive_secret(seed)
    acc = _hash_long_accs(data, secret)
    return _merge_accs(acc, secret, SECRET_MERGEACCS_START, (n * P64_1) & M64)


def _mix32(lo, hi, data, o1, o2, secret, so, seed):
    lo = (lo + mix16(data, o1, secret, so, seed)) & M64
    lo ^= (r64(data, o2) + r64(data, o2 + 8)) & M64
    hi = (hi + mix16(data, o2, secret, so + 16, seed)) & M64
    hi ^= (r64(data, o1) + r64(data, o1 + 8)) & M64
    return lo, hi


def _fin128_mid(lo, hi, n, seed):
    l = (lo + hi) & M64
    h = (lo * P64_1 + hi * P64_4 + ((n - seed) & M64) * P64_2) & M64
    l = xxh3_avalanche(l)
    h = (0 - xxh3_avalanche(h)) & M64
    return (h << 64) | l


def xxh3_128(data, seed=0):
    n = len(data)
    s = K_SECRET
    if n == 0:
        bl = r64(s, 64) ^ r64(s, 72)
        bh = r64(s, 80) ^ r64(s, 88)
        return (xxh64_avalanche(seed ^ bh) << 64) | xxh64_avalanche(seed ^ bl)
    if n <= 3:
        c1, c2, c3 = data[0], data[n >> 1], data[n - 1]
        cl = (c1 << 16) | (c2 << 24) | c3 | (n << 8)
        ch = rotl32(swap32(cl), 13)
        bl = ((r32(s, 0) ^ r32(s, 4)) + seed) & M64
        bh = ((r32(s, 8) ^ r32(s, 12)) - seed) & M64
        return (xxh64_avalanche(ch ^ bh) << 64) | xxh64_avalanche(cl ^ bl)
    if n <= 8:
        seed ^= swap32(seed & M32) << 32
        ilo = r32(data, 0)
        ihi = r32(data, n - 4)
        in64 = ilo + (ihi << 32)
        bitflip = ((r64(s, 16) ^ r64(s, 24)) + seed) & M64
        keyed = in64 ^ bitflip
        m = keyed * ((P64_1 + (n << 2)) & M64)
        mlo, mhi = m & M64, (m >> 64) & M64
        mhi = (mhi + (mlo << 1)) & M64
        mlo ^= mhi >> 3
        mlo ^= mlo >> 35
        mlo = (mlo * PRIME_MX2) & M64
        mlo ^= mlo >> 28
        mhi = xxh3_avalanche(mhi)
        return (mhi << 64) | mlo
    if n <= 16:
        bl = ((r64(s, 32) ^ r64(s, 40)) - seed) & M64
        bh = ((r64(s, 48) ^ r64(s, 56)) + seed) & M64
        ilo = r64(data, 0)
        ihi = r64(data, n - 8)
        m = (ilo ^ ihi ^ bl) * P64_1
        mlo, mhi = m & M64, (m >> 64) & M64
        mlo = (mlo + ((n - 1) << 54)) & M64
        ihi ^= bh
        mhi = (mhi + ihi + (ihi & M32) * (P32_2 - 1)) & M64
        mlo ^= swap64(mhi)
        h = mlo * P64_2
        hlo, hhi = h & M64, (h >> 64) & M64
        hhi = (hhi + mhi * P64_2) & M64
        return (xxh3_avalanche(hhi) << 64) | xxh3_avalanche(hlo)
    if n <= 128:
        lo, hi = (n * P64_1) & M64, 0
        if n > 32:
            if n > 64:
                if n > 96:
                    lo, hi = _mix32(lo, hi, data, 48, n - 64, s, 96, seed)
                lo, hi = _mix32(lo, hi, data, 32, n - 48, s, 64, seed)
            lo, hi = _mix32(lo, hi, data, 16, n - 32, s, 32, seed)
        lo, hi = _mix32(lo, hi, data, 0, n - 16, s, 0, seed)
        return _fin128_mid(lo, hi, n, seed)
    if n <= MIDSIZE_MAX:
        lo, hi = (n * P64_1) & M64, 0
        i = 32
        while i < 160:
            lo, hi = _mix32(lo, hi, data, i - 32, i - 16, s, i - 32, seed)
            i += 32
        lo = xxh3_avalanche(lo)
        hi = xxh3_avalanche(hi)
        i = 160
        while i <= n:
            lo, hi = _mix32(lo, hi, data, i - 32, i - 16, s, MIDSIZE_STARTOFFSET + i - 160, seed)
            i += 32
        lo, hi = _mix32(lo, hi, data, n - 16, n - 32, s, SECRET_SIZE_MIN - MIDSIZE_LASTOFFSET - 16,
                        (0 - seed) & M64)
        return _fin128_mid(lo, hi, n, seed)
    secret = derive_secret(seed)
    acc = _hash_long_accs(data, secret)
    low = _merge_accs(acc, secret, SECRET_MERGEACCS_START, (n * P64_1) & M64)
    high = _merge_accs(acc, secret, len(secret) - STRIPE_LEN - SECRET_MERGEACCS_START,
                       (~(n * P64_2)) & M64)
    return (high << 64) | low


# ----------------------------------------------------------------------------- vectors

SANITY_PRIME64 = 11400714785074694797  # xsum_sanity_check.c PRIME64 (not XXH_PRIME64_1)


def sanity_buffer(n):
    """The `xxhsum` sanity-check buffer (xsum_sanity_check.c: XSUM_fillTestBuffer)."""
    out = bytearray(n)
    g = P32_1
    for i in range(n):
        out[i] = (g >> 56) & 0xFF
        g = (g * SANITY_PRIME64) & M64
    return bytes(out)



def mod251(n):
    """Input used by the twox-hash test-suite: byte i = i % 251."""
    return bytes(i % 251 for i in range(n))


_HELLO = b"Hello, world!\0"

VECTORS = {
    "XXH32": [
        (b"", 0, 0x02CC5D05),                       # specification
        (b"", 0x9E3779B1, 0x36B78AE7),              # xxhsum sanity table
        (sanity_buffer(1), 0, 0xCF65B03E),
        (sanity_buffer(14), 0, 0x1208E7E2),
        (sanity_buffer(222), 0, 0x5BD11DBD),
        (bytes([42]), 0, 0xE0FE705F),               # twox-hash (C reference values)
        (_HELLO, 0, 0x9E5E7E93),
        (bytes(range(100)), 0, 0x7F89BA44),
        (b"", 0x42C91977, 0xD6BF8459),
        (bytes(range(100)), 0x42C91977, 0x6D2F6C17),
    ],
    "XXH64": [
        (b"", 0, 0xEF46DB3751D8E999),               # specification
        (sanity_buffer(1), 0, 0xE934A84ADB052768),  # xxhsum sanity table
        (sanity_buffer(14), 0, 0x8282DCC4994E35C8),
        (sanity_buffer(222), 0, 0xB641AE8CB691C174),
        (bytes([42]), 0, 0x0A9EDECEBEB03AE4),       # twox-hash (C reference values)
        (_HELLO, 0, 0x7B06C531EA43E89F),
        (bytes(range(100)), 0, 0x6AC1E58032166597),
        (b"", 0xAE0543311B702D91, 0x4B6A04FCDF7A4672),
        (bytes(range(100)), 0xAE0543311B702D91, 0x567E355E0682E1F1),
    ],
}

_X3_64 = {
    0: 0x2D06800538D394C2,
    1: 0xC44BDFF4074EECDB, 2: 0xD6645FC3051A9457, 3: 0x5F4299FC161C9CBB,
    4: 0x60DAB036A58211F2, 5: 0xB075753A84CA0FBE, 6: 0xA6584D1D9A6AE704, 7: 0x0CD2084A62406B69,
    8: 0x3A1C2D7C85AF88F8,
    9: 0xE9612598145BB9DC, 10: 0xAB69A08EF83D8F77, 11: 0x1CF396AA4DE6198D, 12: 0x5ACE6A511C10894B,
    13: 0xB7A5D8A8309A2CB9, 14: 0x4CF45C944A9A2237, 15: 0x55ECEDC2B87BB042, 16: 0x8355E3A6F61770DB,
    17: 0x9EF341A99DE37328, 18: 0xF6912490D4C0EED5, 19: 0x60E726143CF50312,
    31: 0x4F36DB8E4DF378FD, 32: 0x3523581FE96E4C05, 33: 0xE68C56BA88991E58,
    126: 0x6C2A9EB7459CDC61, 127: 0x120B9787F8425F2F, 128: 0x85C6174C7FF4C46B,
    129: 0xEC7642B431BA3E5A, 130: 0x4D3224B100908A87, 131: 0xE57F7EA6741FE3A0,
    238: 0x30449A0B4899DEE9, 239: 0x972B14E3C46F214B, 240: 0x375A384D957FE865,
    241: 0x02E8CD95421C6D02, 242: 0xDDCB33C494051832, 243: 0x8835F9529193E3DC,
    244: 0xBC17C91EC3CF8D7F, 1024: 0xE5D78BAFA45B2AA5, 10240: 0xBCD63266DF6E2244,
}
_X3_64_SEEDED = {  # seed 0xdeadcafe
    0: 0x4AEDE68389C0E311, 1: 0x78FC079A75AAF3C0, 4: 0x1B7306B89F254507, 9: 0x7DF7627FD1F939B6,
    17: 0x49CA0FFF09501622, 129: 0x2BFDCAEC30FF3000, 241: 0xF98456BC25BE0901, 1024: 0x24839F0FCDF4D078,
}
_X3_128 = {
    0: 0x99AA06D3014798D86001C324468D497F,
    1: 0xA6CD5E9392000F6AC44BDFF4074EECDB, 2: 0x6A4A5274C1B0D3ADD6645FC3051A9457,
    3: 0xE3B55F57945A17CF5F4299FC161C9CBB,
    4: 0xEB70BF5FC779E9E6A6111D53E80A3DB5, 5: 0x9434532106A7C141C920D2347A85929B,
    6: 0x545F093D32B168FEA6B52F4DEA3896A3, 7: 0x61CE291BC3A4357DDBB207821E6D5EFE,
    8: 0xE1E4432A62217FE4CFD50C61C8BB98C1,
    9: 0x16C769D83E4AEBCE907931979DCA3746, 10: 0xBD930669A87B4B37E67BF1AD8DCF73A8,
    11: 0xACAD80718F47D4947D67CFC1730F22A3, 12: 0x38F92247A7F73CC57780EB31198F13CA,
    13: 0xAE92E123E9472408BD795526190266C0, 14: 0x5F91E6BF7418CFAA55D65715E2A57C31,
    15: 0x301A9F754E8F569A0017EA4BE19BC787, 16: 0x72950631827607E2842812CC870DCAE2,
    17: 0x685BC458B37D057FC06E233DF7729217, 18: 0x87CE996BB5576D8DE3A3C96BB0AF2C23,
    19: 0x7619BCEF2E311CD8C47DDC58873793DF,
    31: 0x4ED3946D393B687BB54DE3993874ED20, 32: 0x25E7C9B3424CEED2457D9566B6FCD697,
    33: 0x02175C3AABB00637E08D84951339DE86,
    126: 0x0ABC206287CE2AFE51810BE293232106, 127: 0xD5ADD870C9C9E00F060C2E3DDF0F2FB9,
    128: 0x14792FC3AF88DC6C05321A0B64D67B41,
    129: 0xDD5E74AC6B45F54EBC30B63382B09A3B, 130: 0x6CD2E56A10F1E7073EC5F135D0A7D28F,
    131: 0x6DA792F1702D44945609CFC79DBA18FD,
    238: 0x73A9E8F7BD3283C82A9BDDD0E5C4014C, 239: 0x9843AB31A06BE0DFFE21374628FCC539,
    240: 0x65B5BE86DA5540E7C92B68E16F83BBB6,
    241: 0x1DA1CB61BCB8A2A102E8CD95421C6D02, 242: 0x162384CB44D1D806DDCB33C494051832,
    243: 0xBD2E9FCF378C35E98835F9529193E3DC, 244: 0x3FF493D7A8137AB6BC17C91EC3CF8D7F,
    1024: 0xD0AC1F7B93BF57B9E5D78BAFA45B2AA5, 10240: 0x4F6375CCA7ECE1E1BCD63266DF6E2244,
}

# xxhsum sanity table, XXH3_64bits on the sanity buffer (seed 0)
_X3_64_SANITY = {1: 0xC44BDFF4074EECDB, 6: 0x27B56A84CD2D7325, 12: 0xA713DAF0DFBB77E7,
                 24: 0xA3FE70BF9D3510EB, 48: 0x397DA259ECBA1F11, 80: 0xBCDEFBBB2C47C90A,
                 195: 0xCD94217EE362EC3A}

VECTORS["XXH3-64"] = ([(mod251(n), 0, h) for n, h in _X3_64.items()]
                      + [(mod251(n), 0xDEADCAFE, h) for n, h in _X3_64_SEEDED.items()]
                      + [(sanity_buffer(n), 0, h) for n, h in _X3_64_SANITY.items()])
VECTORS["XXH3-128"] = [(mod251(n), 0, h) for n, h in _X3_128.items()]

FUNCS = {"XXH32": xxh32, "XXH64": xxh64, "XXH3-64": xxh3_64, "XXH3-128": xxh3_128}


def selftest():
    """-> (validated variant names, {variant: [failure descriptions]})."""
    good, bad = [], {}
    for name, vecs in VECTORS.items():
        f = FUNCS[name]
        fails = []
        for data, seed, want in vecs:
            got = f(data, seed)
            if got != want:
                fails.append("len=%d seed=%#x got=%#x want=%#x" % (len(data), seed, got, want))
        if fails:
            bad[name] = fails
        else:
            good.append(name)
    return good, bad
