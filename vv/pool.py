"""Worker subprocess wrapper (JSON lines) with CPU-time watchdog, and the fork pool."""
import json
import os
import resource
import select
import signal
import subprocess
import sys
import time

ROOT = os.path.dirname(os.path.dirname(os.path.abspath(__file__)))
WORKER_BIN = os.path.join(ROOT, ".build", "rel", "verif", "vv-worker")


class WorkerDied(Exception):
    def __init__(self, kind, detail, stderr_tail=""):
        super().__init__("%s: %s" % (kind, detail))
        self.kind = kind          # 'signal' | 'exit' | 'cpu_timeout' | 'wall_timeout' | 'oom'
        self.detail = detail
        self.stderr_tail = stderr_tail


class Worker:
    """One vv-worker subprocess. call(req) -> response dict."""

    def __init__(self, binary=None, mem_gib=4, env=None):
        self.binary = binary or WORKER_BIN
        self.mem_gib = mem_gib
        self.env = env
        self.proc = None
        self.restarts = 0
        self.start()

    def start(self):
        mem = self.mem_gib * (1 << 30)

        def pre():
            resource.setrlimit(resource.RLIMIT_AS, (mem, mem))
            resource.setrlimit(resource.RLIMIT_CORE, (0, 0))
            os.setpgrp()

        env = dict(os.environ)
        env.setdefault("TZ", "UTC")
        env["RUST_BACKTRACE"] = "0"
        if self.env:
            env.update(self.env)
        self.errfile = open("/dev/shm/vv-worker-%d-%d.err" % (os.getpid(), id(self) & 0xFFFF), "w+b")
        self.proc = subprocess.Popen(
            [self.binary], stdin=subprocess.PIPE, stdout=subprocess.PIPE, stderr=self.errfile,
            preexec_fn=pre, env=env, bufsize=0)
        self.buf = b""

    def cpu_seconds(self):
        try:
            with open("/proc/%d/stat" % self.proc.pid) as f:
                parts = f.read().rsplit(")", 1)[1].split()
            ticks = int(parts[11]) + int(parts[12])
            return ticks / os.sysconf("SC_CLK_TCK")
        except Exception:
            return 0.0

    def stderr_tail(self):
        try:
            self.errfile.flush()
            self.errfile.seek(0)
            data = self.errfile.read()
            return data[-2000:].decode("utf-8", "replace")
        except Exception:
            return ""

    def kill(self):
        if self.proc is not None:
            try:
                self.proc.kill()
                self.proc.wait(timeout=5)
            except Exception:
                pass
            try:
                name = self.errfile.name
                self.errfile.close()
                os.unlink(name)
            except Exception:
                pass
            self.proc = None

    def restart(self):
        self.kill()
        self.restarts += 1
        self.start()

    def call(self, req, cpu_limit=20.0, wall_limit=300.0):
        """Send one request. Raises WorkerDied on death / CPU budget expiry (worker is restarted)."""
        if self.proc is None:
            self.start()
        data = (json.dumps(req, separators=(",", ":")) + "\n").encode("utf-8")
        cpu0 = self.cpu_seconds()
        t0 = time.monotonic()
        try:
            self.proc.stdin.write(data)
            self.proc.stdin.flush()
        except (BrokenPipeError, OSError):
            return self._died()
        fd = self.proc.stdout.fileno()
        while True:
            nl = self.buf.find(b"\n")
            if nl >= 0:
                line = self.buf[:nl]
                self.buf = self.buf[nl + 1:]
                return json.loads(line)
            r, _, _ = select.select([fd], [], [], 0.5)
            if r:
                chunk = os.read(fd, 1 << 20)
                if not chunk:
                    return self._died()
                self.buf += chunk
                continue
            # no data for 0.5 s: check budgets
            used = self.cpu_seconds() - cpu0
            if used >= cpu_limit:
                tail = self.stderr_tail()
                self.restart()
                raise WorkerDied("cpu_timeout", "%.1f cpu-seconds" % used, tail)
            if time.monotonic() - t0 >= wall_limit:
                tail = self.stderr_tail()
                self.restart()
                raise WorkerDied("wall_timeout", "cpu=%.1f wall=%.1f" % (used, time.monotonic() - t0), tail)

    def _died(self):
        rc = None
        try:
            rc = self.proc.wait(timeout=5)
        except Exception:
            pass
        tail = self.stderr_tail()
        self.restart()
        if rc is not None and rc < 0:
            kind = "signal"
            detail = signal.Signals(-rc).name
        else:
            kind = "exit"
            detail = str(rc)
        low = tail.lower()
        if "memory allocation of" in low or "out of memory" in low or "capacity overflow" in low:
            kind = "oom"
        if "stack overflow" in low or "has overflowed its stack" in low:
            kind = "stack_overflow"
        raise WorkerDied(kind, detail, tail)


def splitmix(x):
    x = (x + 0x9E3779B97F4A7C15) & 0xFFFFFFFFFFFFFFFF
    z = x
    z = ((z ^ (z >> 30)) * 0xBF58476D1CE4E5B9) & 0xFFFFFFFFFFFFFFFF
    z = ((z ^ (z >> 27)) * 0x94D049BB133111EB) & 0xFFFFFFFFFFFFFFFF
    return z ^ (z >> 31)


def case_seed(seed, proc, index):
    return splitmix(splitmix(splitmix(seed) ^ (proc * 0x100000001B3)) ^ index)


def run_pool(nprocs, target, args):
    """Fork nprocs children running target(proc_index, *args) -> picklable result; returns list.
    A child that dies abnormally yields {'_child_died': reason}."""
    import multiprocessing as mp
    ctx = mp.get_context("fork")
    pipes = []
    procs = []
    for i in range(nprocs):
        rd, wr = ctx.Pipe(duplex=False)

        def child(i=i, wr=wr):
            try:
                res = target(i, *args)
            except BaseException as e:  # noqa
                import traceback
                res = {"_child_died": "%s\n%s" % (e, traceback.format_exc())}
            try:
                wr.send(res)
            except Exception as e:  # noqa
                wr.send({"_child_died": "send failed: %s" % e})
            wr.close()

        p = ctx.Process(target=child)
        p.start()
        wr.close()
        pipes.append(rd)
        procs.append(p)
    results = []
    for rd, p in zip(pipes, procs):
        try:
            results.append(rd.recv())
        except EOFError:
            results.append({"_child_died": "no result (exit %s)" % p.exitcode})
        p.join()
    return results
