"""C01 — compiled programs are type-sound (result, event, metadata, variables).

Monitor: generated programs (assignments, paths, if/else, operators, closures, `return`, arbitrary
stdlib calls) are compiled against an exact external schema and run on events sampled from that
schema. `probe(tag, x)` statements (a custom Function through vrl's public extension point)
record, at compile time, the kind the compiler assigns to `x` *at that program point* and the
target/metadata kinds there, and at run time the value of `x` plus event/metadata snapshots. An
independent membership predicate (model/kind.py) then checks: result ∈ reported result kind (or
returned value ∈ reported `returns` kind), final event ∈ final target kind, metadata ∈ final
metadata kind, and for every probe hit value ∈ kind-at-that-point, snapshots ∈ kinds-at-that-point.
"""
from ..wire import enc, dec, tag
from ..gen import ast as A
from ..gen.program import Opts
from ..model import kind as K
from . import core_common as cc
from . import full_common as fc

ID = "C01"
LEVEL = "exploration"
BUDGET = {"quick": 35, "thorough": 480}
FLOOR = {"quick": 30, "thorough": 60}
RULE = ("grammar-directed programs with probes after every statement (live variables, event paths) in "
        "every block/branch/closure; exact external schema; 4 conforming events per program. Non-trivial: "
        "the run finished Ok/return and the program has a branch, short-circuit, closure, path assignment "
        "or stdlib call; distinct by (set of construct kinds, outcome).")
ASSUMPTIONS = ["model/kind.py membership predicate is the reference for value ∈ Kind",
               "a null read is accepted where the kind admits undefined (Kind::get's documented upgrade)",
               "Kind accessors used for export report what the compiler holds"]
NEVENTS = 4


def opts(ctx):
    # arbitrary stdlib calls are left out on purpose: function type definitions are C03's business,
    # C01 is about flow typing (assignments, paths, branches, short-circuits, closures, return)
    return Opts(abort=False, ret=True, bang=False, closures=True, probes=True, stdlib=None,
                stdlib_p=0.0, var_paths=0.2, ctl_p=0.1, max_stmts=5, closure_fail_p=0.2)


def setup(ctx):
    ctx.usable = fc.usable_functions(ctx)


def gen_case(ctx, rng):
    o = opts(ctx)
    # most programs avoid the two constructs with known, recorded type holes (early `return`,
    # closures) so that the budget is spent on judging programs rather than on re-shrinking the
    # same findings; a third of the programs keep each of them
    if rng.random() < 0.65:
        o.ret = False
    if rng.random() < 0.65:
        o.closures = False
    return fc.gen_full_case(rng, o, NEVENTS)


def check_run(resp, run):
    """Returns list of (where, detail)."""
    out = []
    if "panic" in run:
        return out
    ty = resp["type"]
    o = run["out"]
    finished = False
    if "ok" in o:
        finished = True
        v = dec(o["ok"])
        why = []
        if not K.member(v, ty["kind"], True, why):
            out.append(("result", {"value": repr(v)[:200], "kind": K.short(ty["kind"], 3), "why": why[:3]}))
    elif "ret" in o:
        finished = True
        v = dec(o["ret"])
        why = []
        if not K.member(v, ty["returns"], True, why):
            out.append(("returns", {"value": repr(v)[:200], "kind": K.short(ty["returns"], 3), "why": why[:3]}))
    if finished:
        why = []
        ev = dec(run["event"])
        if not K.member(ev, ty["target"], False, why):
            out.append(("final_event", {"event": repr(ev)[:400], "kind": K.short(ty["target"], 3), "why": why[:4]}))
        why = []
        md = dec(run["meta"])
        if not K.member(md, ty["meta"], False, why):
            out.append(("final_metadata", {"meta": repr(md)[:200], "kind": K.short(ty["meta"], 3), "why": why[:4]}))
    probes = resp.get("probes", {})
    for t, hs in run.get("hits", {}).items():
        p = probes.get(t)
        if p is None:
            continue
        for h in hs:
            if "v" in h:
                v = dec(h["v"])
                why = []
                if not K.member(v, p["kind"], True, why):
                    out.append(("probe:" + t, {"value": repr(v)[:200], "kind": K.short(p["kind"], 3), "why": why[:3],
                                               "expr": p.get("expr")}))
                    break
            if h.get("event") is not None:
                why = []
                ev = dec(h["event"]["v"])
                if not K.member(ev, p["target"], False, why):
                    out.append(("snapshot_event:" + t, {"event": repr(ev)[:300], "kind": K.short(p["target"], 3), "why": why[:4]}))
                    break
            if h.get("meta") is not None:
                why = []
                md = dec(h["meta"]["v"])
                if not K.member(md, p["meta"], False, why):
                    out.append(("snapshot_meta:" + t, {"meta": repr(md)[:300], "kind": K.short(p["meta"], 3), "why": why[:4]}))
                    break
    return out


def where_class(w):
    return w.split(":")[0]


def run_case(ctx, case):
    stmts = case["stmts"]
    events = [dec(e) for e in case["events"]]
    src, resp = fc.run_full(ctx, stmts, events, snapshot=True)
    if "panic" in resp:
        ctx.skip("compile_panic(C04)")
        return
    if not resp.get("compiled"):
        ctx.skip("rejected:E" + "+".join(sorted(set(str(d["code"]) for d in resp.get("diags", []) if d["sev"] == "error"))))
        return
    ctx.count("programs_accepted")
    kinds = fc.interesting_kinds(stmts)
    for event, run in zip(events, resp["runs"]):
        bad = check_run(resp, run)
        if not bad:
            o = run.get("out", {})
            fin = "ok" in o or "ret" in o
            ctx.ok((tuple(kinds)[:8], next(iter(o), "panic")), fin and bool(kinds),
                   sample={"src": src[:600], "outcome": next(iter(o), "panic")})
            continue
        w0 = where_class(bad[0][0])
        out0 = next(iter(run.get("out", {})), "?")
        if w0 in ("final_event", "final_metadata") and out0 == "ret":
            # exact by construction: no shrinking needed
            ctx.violation("type:state:after_early_return", {"src": src[:1500], "event": repr(event)[:300],
                                                            "where": bad[0][0], "detail": bad[0][1]},
                          case={"stmts": stmts, "events": [enc(event)], "probe_info": {}})
            continue
        if w0 == "returns":
            ctx.violation("type:returns_kind", {"src": src[:1500], "event": repr(event)[:300],
                                                "where": bad[0][0], "detail": bad[0][1]},
                          case={"stmts": stmts, "events": [enc(event)], "probe_info": {}})
            continue
        presig = (w0, next(iter(run.get("out", {})), "?"), tuple(k for k in kinds if k in CULPRITS)[:3])
        seen = ctx.__dict__.setdefault("presig_seen", {})
        seen[presig] = seen.get(presig, 0) + 1
        if seen[presig] > 2 and ctx.corpus_idx is None:     # corpus inputs are always classified (exact-input findings)
            ctx.count("violations_not_shrunk(repeat of an already classified pre-signature)")
            ctx.evaluations += 1
            continue

        def still(cand, event=event):
            _, r2 = fc.run_full(ctx, cand, [event], snapshot=True)
            if not r2.get("compiled") or "panic" in r2:
                return False
            b2 = check_run(r2, r2["runs"][0])
            return any(where_class(w) == w0 for w, _ in b2)
        small = cc.shrink_full(stmts, still, budget=240 if ctx.corpus_idx is None else 16)
        s2, r2 = fc.run_full(ctx, small, [event], snapshot=True)
        b2 = check_run(r2, r2["runs"][0]) if r2.get("compiled") else bad
        b2 = [b for b in b2 if where_class(b[0]) == w0] or bad
        ctx.violation(classify(small, w0, r2), {"src": A.program_src(small), "event": repr(event)[:400],
                                                "where": b2[0][0], "detail": b2[0][1]},
                      case={"stmts": small, "events": [enc(event)], "probe_info": {}})


CULPRITS = ["del_var_path", "var_path_assign", "map_keys", "map_values", "filter", "for_each", "closure",
            "assign2", "massign", "return", "op??", "op||", "op&&", "if"]


def classify(small, where, resp):
    """Cause-oriented signature: <observable class>:<root-cause family of the minimal program>."""
    outcome = ""
    try:
        outcome = next(iter(resp["runs"][0]["out"]))
    except Exception:
        pass
    if where in ("final_event", "final_metadata") and outcome == "ret":
        return "type:state:after_early_return"
    if where == "returns":
        return "type:returns_kind"
    cls = "state" if (where.startswith("snapshot") or where.startswith("final")) else "value"
    return "type:%s:%s" % (cls, fc.cause(small))
