"""C02 — accepted programs without `!` / `abort` never fail at runtime.

Monitor: (a) generated programs containing no `f!()` call and no `abort` (closures, `??`,
`ok, err =`, stdlib calls without `!`) run on schema-conforming events: the outcome must be Ok
(the single exception is an error whose message ends in "operation would produce NaN");
(b) `ProgramInfo.fallible == false` => never Terminate::Error, `abortable == false` => never abort;
(c) per expression: `probe(tag, e)` wrapped around operator / call sub-expressions only compiles
when the compiler types `e` infallible (function arguments must be), so a wrapper probe whose
argument raises an error at run time pinpoints an "infallible" expression that failed.
"""
from ..wire import enc, dec
from ..gen import ast as A
from ..gen.program import Opts
from . import core_common as cc
from . import full_common as fc

ID = "C02"
LEVEL = "exploration"
BUDGET = {"quick": 35, "thorough": 480}
FLOOR = {"quick": 100, "thorough": 200}
RULE = ("grammar-directed programs without `!`/abort, wrapper probes around ~30% of infallible operator/call "
        "sub-expressions, stdlib calls restricted to forms the compiler accepts without `!`; 4 conforming "
        "events per program. Non-trivial: program has an operator on a non-literal operand or a call; "
        "distinct by (construct kinds, outcome).")
ASSUMPTIONS = ["events conform to the external schema the program was compiled against",
               "NaN-producing float arithmetic is the documented exception"]
NEVENTS = 4
NAN_MSG = "operation would produce NaN"


def opts(ctx):
    return Opts(abort=False, ret=True, bang=False, closures=True, probes=False, wrap_probes=0.3,
                var_paths=0.15, const_bias=0.15, ctl_p=0.08, max_stmts=5, closure_fail_p=0.2, unhandled_p=0.12)


def gen_case(ctx, rng):
    return fc.gen_full_case(rng, opts(ctx), NEVENTS)


def check_run(resp, run):
    out = []
    if "panic" in run:
        return out
    o = run["out"]
    info = resp["info"]
    if "error" in o and not o["error"].endswith(NAN_MSG):
        out.append(("program_error", {"error": o["error"][:300], "info": info}))
    if "abort" in o or "abort_other" in o:
        out.append(("program_abort", {"out": o}))
    for t, hs in run.get("hits", {}).items():
        if not t.startswith("p"):
            continue
        for h in hs:
            if "e" in h and not h["e"].endswith(NAN_MSG):
                out.append(("infallible_expr_failed:" + t, {"error": h["e"][:300],
                                                            "expr": resp["probes"].get(t, {}).get("expr")}))
                break
    return out


CULPRITS = ["del_var_path", "var_path_assign", "map_keys", "map_values", "filter", "for_each", "closure",
            "return", "assign2", "massign", "op??", "op||", "op&&", "if"]


def closure_has_side_effect(stmts):
    found = []

    def f(n, ctx):
        if n[0] in ("assign", "massign", "assign2") or (n[0] == "call" and n[1] == "del"):
            if any(c.startswith("closure:") for c in ctx):
                found.append(n[0])
    A.walk_program(stmts, f)
    return bool(found)


def argument_has_side_effect(stmts):
    found = []

    def f(n, ctx):
        if n[0] in ("assign", "massign", "assign2") or (n[0] == "call" and n[1] == "del"):
            if any(c.startswith("arg:") and c not in ("arg:del", "arg:probe") for c in ctx):
                found.append(n[0])
    A.walk_program(stmts, f)
    return bool(found)


def classify(small, where):
    return "fail:%s:%s" % (where.split(":")[0], fc.cause(small))


def run_case(ctx, case):
    stmts = case["stmts"]
    events = [dec(e) for e in case["events"]]
    src, resp = fc.run_full(ctx, stmts, events)
    if "panic" in resp:
        ctx.skip("compile_panic(C04)")
        return
    if not resp.get("compiled"):
        ctx.skip("rejected:E" + "+".join(sorted(set(str(d["code"]) for d in resp.get("diags", []) if d["sev"] == "error"))))
        return
    ctx.count("programs_accepted")
    info = resp["info"]
    if info["fallible"] or info["abortable"]:
        ctx.count("info_says_fallible_or_abortable(unexpected for bang-free programs)")
    kinds = fc.interesting_kinds(stmts)
    for event, run in zip(events, resp["runs"]):
        bad = check_run(resp, run)
        if not bad:
            o = run.get("out", {})
            ctx.ok((tuple(kinds)[:8], next(iter(o), "panic")), bool(kinds),
                   sample={"src": src[:500], "outcome": next(iter(o), "panic")})
            continue
        w0 = bad[0][0].split(":")[0]
        presig = (w0, tuple(k for k in kinds if k in CULPRITS)[:3])
        seen = ctx.__dict__.setdefault("presig_seen", {})
        seen[presig] = seen.get(presig, 0) + 1
        if seen[presig] > 2 and ctx.corpus_idx is None:     # corpus inputs are always classified (exact-input findings)
            ctx.count("violations_not_shrunk(repeat of an already classified pre-signature)")
            ctx.evaluations += 1
            continue

        def still(cand, event=event):
            _, r2 = fc.run_full(ctx, cand, [event])
            if not r2.get("compiled") or "panic" in r2:
                return False
            return any(w.split(":")[0] == w0 for w, _ in check_run(r2, r2["runs"][0]))
        small = cc.shrink_full(stmts, still, budget=240 if ctx.corpus_idx is None else 16)
        _, r2 = fc.run_full(ctx, small, [event])
        b2 = [b for b in (check_run(r2, r2["runs"][0]) if r2.get("compiled") else bad) if b[0].split(":")[0] == w0] or bad
        ctx.violation(classify(small, w0), {"src": A.program_src(small), "event": repr(event)[:400],
                                            "where": b2[0][0], "detail": b2[0][1]},
                      case={"stmts": small, "events": [enc(event)], "probe_info": {}})
