"""C03 — every stdlib function honours its declared signature.

Monitor: for every stdlib function, argument tuples are drawn per parameter from the kinds in
the parameter's mask (typed delivery: the external event is declared with exactly those kinds,
so the compiler decides fallibility from the function's own type definition), as literals, and
— untyped — from kinds outside the mask. Each call runs on the real runtime; the oracle checks
result ∈ declared type_def kind (independent membership predicate over the exported kind),
result tag ∈ documented return_kind mask, "typed infallible" (compiles without `!`) ⇒ never an
error, wrong runtime type ⇒ error or a well-typed result (never a panic).
"""
from ..wire import tag, dec, enc
from ..gen import stdlib_args as sa
from ..model import kind as K
from . import stdlib_common as sc

ID = "C03"
LEVEL = "exploration"
BUDGET = {"quick": 30, "thorough": 420}
FLOOR = {"quick": 150, "thorough": 300}
RULE = ("per case: one stdlib function, a random subset of optional params, one kind per param from its "
        "mask (30%: untyped delivery with kinds outside the mask), literal/event form per param, 12 value "
        "rows from edge pools. Non-trivial: the call returned Ok; distinct by (function, typed|untyped, "
        "kind vector, result tag).")
ASSUMPTIONS = ["model/kind.py membership predicate is the reference for value ∈ Kind",
               "dns_lookup/reverse_dns/http_request are never executed (no network)",
               "lenient success on a wrong runtime type with a well-typed result is counted, not a violation"]
NAN_MSG = "operation would produce NaN"


def gen_case(ctx, rng):
    wrong = 0.35 if rng.random() < 0.3 else 0.0
    return sc.gen_call_case(ctx, rng, wrong_kind_p=wrong)


def run_case(ctx, case):
    ex = sc.exec_call_case(ctx, case)
    if ex is None:
        return
    resp, fn = ex["resp"], case["fn"]
    if "panic" in resp:
        ctx.skip("compile_panic(reported by C04)")
        return
    if not resp.get("compiled"):
        ctx.skip(sc.reject_reason(resp))
        return
    f = ex["call"].f
    kind = resp["type"]["kind"]
    mask = f["return_kind"]
    kinds_vec = tuple(k for _, k, _ in case["used"])
    typed = case["typed"]
    for row, run in zip(ex["rows"], resp["runs"]):
        one = dict(case)
        one["rows"] = [[enc(v) for v in row]]
        detail = {"src": ex["src"], "args": [repr(v)[:200] for v in row], "typed": typed}
        if "panic" in run:
            # panics are C04's; C03 only claims "a wrong runtime type returns an error rather
            # than misbehaving"
            wrong = [kw for (kw, kind, form), p in zip(case["used"], ex["call"].used)
                     if not (sa.BITS[kind] & p[0]["kind"])]
            if run["panic"].get("msg", "").startswith("capacity overflow"):
                ctx.skip("resource_exhaustion:capacity_overflow")
            elif wrong:
                ctx.violation("c03:wrong_type_panic:%s" % fn,
                              dict(detail, panic=run["panic"], wrong_kind_params=wrong), case=one)
            else:
                ctx.skip("panic_in_domain(reported by C04)")
            continue
        out = run["out"]
        if "ok" in out:
            v = dec(out["ok"])
            why = []
            if not K.member(v, kind, expr_level=True, why=why):
                ctx.violation("c03:result_outside_typedef:%s" % fn,
                              dict(detail, result=repr(v)[:300], typedef=K.short(kind, 3), why=why[:3]), case=one)
                continue
            if not (sa.BITS[tag(v)] & mask):
                ctx.violation("c03:result_outside_return_kind:%s" % fn,
                              dict(detail, result=repr(v)[:300], return_kind=sa.kinds_of_mask(mask)), case=one)
                continue
            if not typed:
                ctx.count("untyped_ok_calls")
            ctx.ok((fn, typed, kinds_vec, tag(v)), True,
                   sample={"src": ex["src"], "args": [repr(x)[:80] for x in row], "result": repr(v)[:120]})
        elif "error" in out:
            if not ex["bang"] and not out["error"].endswith(NAN_MSG):
                ctx.violation("c03:infallible_call_failed:%s" % fn,
                              dict(detail, error=out["error"][:300]), case=one)
                continue
            ctx.ok((fn, typed, kinds_vec, "error"), False)
        else:
            ctx.violation("c03:unexpected_outcome:%s" % fn, dict(detail, out=out), case=one)
