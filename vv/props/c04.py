"""C04 — compiling and running never panics the host.

Monitor: every compile (`compile_with_state`), diagnostics rendering (plain and colored),
`final_type_info` and every run happens under `catch_unwind` in the worker with a panic hook that
captures message + file:line; worker death (abort / SIGSEGV) is classified by the parent. Any
panic or non-resource abort is a violation. Workloads: (a) signature-directed calls of every
stdlib function with edge values, typed / untyped / wrong-typed delivery; (b) source fuzz: byte,
token and unicode mutations of the repository's own corpus (function examples, lib/tests .vrl
files) and of generated programs; accepted mutants are run on hostile events.
Built with debug-assertions and overflow-checks on (a dev-profile host), see DESIGN.md section 1.
"""
import re

from ..wire import enc, dec
from ..gen import sources as gs
from ..gen import values as gv
from ..pool import WorkerDied
from . import stdlib_common as sc

ID = "C04"
LEVEL = "exploration"
BUDGET = {"quick": 35, "thorough": 480}
FLOOR = {"quick": 200, "thorough": 400}
RULE = ("60% stdlib call cases (function x kind vector x 12 value rows from edge pools; typed, untyped, "
        "wrong-kind), 40% source-fuzz cases (1-5 mutations of a corpus program, <= 2 KiB, nesting <= 25; "
        "accepted programs run on 3 hostile events). Non-trivial: reached the compiler past the parser "
        "or ran; distinct by (function, arg classes, outcome) / (outcome class, diagnostic codes).")
ASSUMPTIONS = ["stack overflow / allocation failure are out of scope by the property's text (counted as skips)",
               "profile release + debug-assertions + overflow-checks: a panic visible only with these switches "
               "is still a panic of a dev-profile host",
               "network functions are never executed"]


def setup(ctx):
    ctx.corpus = gs.load_corpus(ctx.stdlib())


def norm_msg(msg):
    m = re.sub(r"\d+", "N", msg)
    m = re.sub(r"\"[^\"]*\"", "S", m)
    m = re.sub(r"'[^']*'", "S", m)
    return m[:60]


def short_loc(loc):
    f = loc.rsplit(":", 1)[0]
    f = re.sub(r"^/root/\.cargo/registry/src/[^/]+/", "dep:", f)
    f = re.sub(r"^/rustc/[0-9a-f]+/", "std:", f)
    f = f.replace("/repo/", "")
    return f


def gen_case(ctx, rng):
    if rng.random() < 0.6:
        wrong = 0.3 if rng.random() < 0.3 else 0.0
        c = sc.gen_call_case(ctx, rng, wrong_kind_p=wrong)
        c["kind"] = "call"
        return c
    r = rng.random()
    if r < 0.8:
        base = rng.choice(ctx.corpus)
    else:
        base = gs.gen_program_source(rng)
    src = gs.mutate(rng, base) if rng.random() < 0.92 else base
    events = [gv.rand_object(rng, depth=3, simple_keys=rng.random() < 0.8) for _ in range(3)]
    return {"kind": "source", "src": src, "events": [enc(e) for e in events]}


def on_death(ctx, case, e):
    if e.kind in ("oom", "stack_overflow"):
        ctx.skip("resource_exhaustion:" + e.kind)
    elif e.kind in ("cpu_timeout", "wall_timeout"):
        ctx.skip("timeout(C05)")
    else:
        what = case.get("fn") if case and case.get("kind") == "call" else "source"
        first = (e.stderr_tail.strip().splitlines() or ["?"])[-1]
        ctx.violation("abort:%s:%s:%s" % (what, e.detail, norm_msg(first)),
                      {"kind": e.kind, "detail": e.detail, "stderr": e.stderr_tail[-600:],
                       "src": case.get("src") if case else None})


def report_panic(ctx, phase, what, panic, detail, case):
    if panic.get("msg", "").startswith("capacity overflow") or "memory allocation" in panic.get("msg", ""):
        # an allocation request beyond isize::MAX: memory exhaustion, out of scope by the property's text
        ctx.skip("resource_exhaustion:capacity_overflow")
        return
    sig = "panic:%s:%s@%s" % (phase, what, short_loc(panic["loc"]))
    detail = dict(detail)
    detail["panic"] = panic
    ctx.violation(sig, detail, case=case)


def run_case(ctx, case):
    if case["kind"] == "call":
        ex = sc.exec_call_case(ctx, case, extra={"render": True})
        if ex is None:
            return
        resp, fn = ex["resp"], case["fn"]
        if "panic" in resp:
            report_panic(ctx, resp.get("where", "compile"), fn, resp["panic"], {"src": ex["src"]}, case)
            return
        for which in ("plain", "colored"):
            r = resp.get("render", {}).get(which, {})
            if "panic" in r:
                report_panic(ctx, "render", fn, r["panic"], {"src": ex["src"]}, case)
        if not resp.get("compiled"):
            ctx.ok(("call_rejected", fn), False)
            return
        for row, run in zip(ex["rows"], resp["runs"]):
            if "panic" in run:
                one = dict(case)
                one["rows"] = [[enc(v) for v in row]]
                report_panic(ctx, "run", fn, run["panic"],
                             {"src": ex["src"], "args": [repr(v)[:200] for v in row]}, one)
                continue
            cls = tuple(sc.arg_class(v) for v in row)
            ctx.ok((fn, cls, "ok" if "ok" in run["out"] else "err"), True,
                   sample={"src": ex["src"], "args": [repr(v)[:60] for v in row], "out": str(run["out"])[:100]})
        return
    # source fuzz
    src = case["src"]
    resp = ctx.call({"op": "run", "src": src, "render": True, "probe": False,
                     "events": [{"e": e} for e in case["events"]]})
    if "panic" in resp:
        report_panic(ctx, resp.get("where", "compile"), "source", resp["panic"], {"src": src}, case)
        return
    if "bad_request" in resp:
        ctx.skip("harness:bad_request")
        return
    for which in ("plain", "colored"):
        r = resp.get("render", {}).get(which, {})
        if "panic" in r:
            report_panic(ctx, "render", "source", r["panic"], {"src": src}, case)
            return
        if r and not r.get("ok", True):
            ctx.violation("render:fmt_error", {"src": src}, case=case)
            return
    codes = tuple(sorted(set(d["code"] for d in resp.get("diags", []))))[:6]
    if not resp.get("compiled"):
        parsed = not (len(codes) == 1 and codes[0] in (202, 203, 204, 205, 206, 207, 208, 209, 210))
        ctx.ok(("rejected", codes), parsed, sample={"src": src[:200], "codes": codes})
        return
    outs = []
    for run in resp["runs"]:
        if "panic" in run:
            report_panic(ctx, "run", "source", run["panic"], {"src": src}, case)
            return
        outs.append(next(iter(run["out"])))
    ctx.ok(("accepted", codes, tuple(sorted(set(outs)))), True, sample={"src": src[:200], "outcomes": outs})
