"""C05 — stdlib calls terminate promptly (restated as bounded progress).

Monitor: every stdlib call whose arguments encode to <= 4 KiB must finish within 2 CPU-seconds of
the worker and within its 4 GiB address-space limit (normal calls take micro- to milliseconds).
A batch that exceeds the budget is re-run row by row; a row that exceeds 2 s alone is re-run once
more on a fresh worker with 30 CPU-seconds, and only a second expiry is a violation
(`hang:<function>`); an allocation failure on <= 4 KiB of arguments is
`unbounded_growth:<function>`. CPU time of the worker process is the clock, never wall time.
"""
import json

from ..wire import enc, dec, tag
from ..pool import WorkerDied
from . import stdlib_common as sc

ID = "C05"
LEVEL = "exploration"
BUDGET = {"quick": 35, "thorough": 480}
FLOOR = {"quick": 150, "thorough": 300}
RULE = ("stdlib call cases biased to numeric extremes (negative/huge scales, counts, widths, precisions, "
        "indices, radices), non-finite floats and pathological strings, all arguments <= 4 KiB encoded. "
        "Non-trivial: the call completed (or was killed); distinct by (function, numeric-argument magnitude "
        "classes, completed|error).")
ASSUMPTIONS = ["bounded-progress restatement: 2 CPU-seconds / 4 GiB for <= 4 KiB of arguments; a finite run "
               "cannot decide unbounded termination",
               "network functions are never executed"]
BATCH_CPU = 6.0
ROW_CPU = 2.0
CONFIRM_CPU = 30.0   # thorough; quick uses 12


def gen_case(ctx, rng):
    c = sc.gen_call_case(ctx, rng, wrong_kind_p=0.1 if rng.random() < 0.2 else 0.0, literal_p=0.15)
    return c


def size_ok(case):
    return all(len(json.dumps(r)) <= 4096 for r in case["rows"])


def one_row(case, row):
    c = dict(case)
    c["rows"] = [row]
    return c


def confirm(ctx, case, row):
    """Row exceeded ROW_CPU alone: confirm with CONFIRM_CPU on a fresh worker."""
    single = one_row(case, row)
    seen = ctx.__dict__.setdefault("confirmed_fns", set())
    if case["fn"] in seen:
        # already confirmed (and reported) for this function in this process: do not spend
        # another 30 CPU-seconds on the same signature
        ctx.count("repeat_of_confirmed_hang")
        ctx.violations.get("hang:%s" % case["fn"], ctx.violations.get("unbounded_growth:%s" % case["fn"], {"count": 0}))["count"] += 1
        return
    try:
        sc.exec_call_case(ctx, single, cpu_limit=CONFIRM_CPU if ctx.tier == 'thorough' else 8.0)
        ctx.count("slow_but_finished")
        return
    except WorkerDied as e:
        args = [repr(dec(v))[:120] for v in row]
        if e.kind in ("cpu_timeout", "oom"):
            seen.add(case["fn"])
        if e.kind == "cpu_timeout":
            ctx.violation("hang:%s" % case["fn"],
                          {"fn": case["fn"], "used": case["used"], "args": args, "cpu": e.detail}, case=single)
        elif e.kind == "oom":
            ctx.violation("unbounded_growth:%s" % case["fn"],
                          {"fn": case["fn"], "used": case["used"], "args": args, "stderr": e.stderr_tail[-300:]}, case=single)
        elif e.kind == "stack_overflow":
            ctx.skip("resource_exhaustion:stack_overflow")
        else:
            ctx.skip("inconclusive:" + e.kind)


def bisect_rows(ctx, case):
    if case["fn"] in ctx.__dict__.get("confirmed_fns", ()):
        ctx.count("repeat_of_confirmed_hang")
        return
    for row in case["rows"]:
        single = one_row(case, row)
        try:
            sc.exec_call_case(ctx, single, cpu_limit=ROW_CPU)
        except WorkerDied as e:
            if e.kind in ("cpu_timeout", "oom"):
                confirm(ctx, case, row)
            elif e.kind == "stack_overflow":
                ctx.skip("resource_exhaustion:stack_overflow")
            else:
                ctx.skip("inconclusive:" + e.kind)


def on_death(ctx, case, e):
    if case is None:
        ctx.skip("inconclusive:no_case")
        return
    if e.kind in ("cpu_timeout", "oom"):
        bisect_rows(ctx, case)
    elif e.kind == "stack_overflow":
        ctx.skip("resource_exhaustion:stack_overflow")
    else:
        ctx.skip("inconclusive:" + e.kind)   # aborts are C04's business


def run_case(ctx, case):
    if not size_ok(case):
        ctx.skip("args_over_4KiB")
        return
    ex = sc.exec_call_case(ctx, case, cpu_limit=BATCH_CPU)
    if ex is None:
        return
    resp = ex["resp"]
    if "panic" in resp or not resp.get("compiled"):
        ctx.ok(("not_run", case["fn"]), False)
        return
    for row, run in zip(ex["rows"], resp["runs"]):
        if "panic" in run:
            ctx.skip("panic(C04)")
            continue
        cls = tuple(sc.arg_class(v) for v in row if tag(v) in ("integer", "float"))
        out = run["out"]
        if "ok" in out:
            n = len(json.dumps(out["ok"]))
            m = max(1, len(json.dumps([enc(v) for v in row])))
            if n > 64 * m and n > 1 << 16:
                ctx.note("large_outputs", "%s:%dx" % (case["fn"], n // m))
        ctx.ok((case["fn"], cls, "ok" if "ok" in out else "err"), True,
               sample={"src": ex["src"], "args": [repr(v)[:60] for v in row], "out": str(out)[:80]})
