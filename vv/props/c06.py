"""C06 — `return` always ends the program (or the closure iteration) with its value.

Monitor: core programs with `return` placed under every enclosing construct (`??` lhs/rhs,
`ok, err =` rhs, `||`/`&&` rhs, function arguments, array/object literal elements, predicates,
nested blocks, closure bodies over arrays and objects) run on the real runtime; the reference
interpreter evaluates the same program on the same event; outcome, value, final event
(unique marker writes after every potential return point make "ran anyway" visible),
metadata and variables must agree.
"""
from ..gen import ast as A
from ..gen.program import Opts
from . import core_common as cc

ID = "C06"
LEVEL = "exploration"
BUDGET = {"quick": 25, "thorough": 300}
FLOOR = {"quick": 8, "thorough": 15}
RULE = ("grammar-directed core programs with `return` under every enclosing construct; 6 events per "
        "program. Non-trivial: the model's trace shows a `return` actually fired; distinct by (chain of "
        "enclosing constructs of the return sites present, fired at program/closure level, outcome).")
ASSUMPTIONS = ["reference interpreter model/interp.py encodes the documented semantics",
               "closure bodies in this workload never fail (parameter scoping on failure is C13's)"]
NEVENTS = 6


def opts():
    return Opts(abort=False, ret=True, closures=True, closure_fail_p=0.0, ctl_p=0.3, max_stmts=5,
                shadow_params=0.0)


def gen_case(ctx, rng):
    return cc.gen_core_case(rng, opts(), NEVENTS)


def classify(stmts, mism):
    chain = cc.chain_of(stmts, "return") or "none"
    what = mism[0][0].split(":")[0]
    return "return@%s:%s" % (chain, what)


def coverage(stmts, it, outcome, case):
    fired = [t for t in it.trace if t[0] in ("return", "closure_return")]
    chains = set()

    def f(n, ctx):
        if n[0] == "return":
            chains.add(">".join(c for c in ctx if c not in ("block", "branch", "grp")) or "top")
    A.walk_program(stmts, f)
    level = sorted(set("closure" if t[0] == "closure_return" else "program" for t in fired))
    return ((tuple(sorted(chains))[:4], tuple(level), outcome[0]), bool(fired))


def run_case(ctx, case):
    cc.run_core_case(ctx, case, "c06", classify, coverage)
