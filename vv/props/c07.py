"""C07 — `abort` terminates the program and cannot be intercepted.

Monitor: core programs with `abort` / `abort "msg"` under `??`, `ok, err =`, `||`/`&&` rhs,
closures, function arguments, literals, predicates run on the real runtime; the reference
interpreter says abort(message) exactly when an `abort` is reached; outcome class, message and
the final event (markers) must agree.
"""
from ..gen import ast as A
from ..gen.program import Opts
from . import core_common as cc

ID = "C07"
LEVEL = "exploration"
BUDGET = {"quick": 25, "thorough": 300}
FLOOR = {"quick": 8, "thorough": 15}
RULE = ("grammar-directed core programs with `abort` under every enclosing construct; 6 events per "
        "program. Non-trivial: the model's trace shows an `abort` actually fired; distinct by (chains of "
        "enclosing constructs of the abort sites present, message/no message).")
ASSUMPTIONS = ["reference interpreter model/interp.py encodes the documented semantics",
               "closure bodies in this workload fail only through abort"]
NEVENTS = 6


def opts():
    return Opts(abort=True, ret=False, closures=True, closure_fail_p=0.0, ctl_p=0.3, max_stmts=5,
                shadow_params=0.0)


def gen_case(ctx, rng):
    return cc.gen_core_case(rng, opts(), NEVENTS)


def classify(stmts, mism):
    chain = cc.chain_of(stmts, "abort") or "none"
    what = mism[0][0].split(":")[0]
    return "abort@%s:%s" % (chain, what)


def coverage(stmts, it, outcome, case):
    fired = [t for t in it.trace if t[0] == "abort"]
    chains = set()

    def f(n, ctx):
        if n[0] == "abort":
            chains.add(">".join(c for c in ctx if c not in ("block", "branch", "grp")) or "top")
    A.walk_program(stmts, f)
    msg = outcome[0] == "abort" and outcome[1] is not None
    return ((tuple(sorted(chains))[:4], msg, outcome[0]), bool(fired))


def run_case(ctx, case):
    cc.run_core_case(ctx, case, "c07", classify, coverage)
