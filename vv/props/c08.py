"""C08 — error coalescing and infallible assignment follow their definitions.

Monitor: core programs using `a ?? b` and `ok, err = e` with possibly failing operands (type
assertions on `any` fields, division by event fields, failing blocks) run on the real runtime;
the reference interpreter gives the expected value / event / variables (rhs side effects absent
when the lhs succeeds, visible through marker writes). For every `ok, err = e` site that failed,
probes placed right after the assignment export the value stored in `ok`, the string stored in
`err`, and the compile-time kind of `ok`: the stored default must be one of the language's
default values, must belong to ok's reported kind, and must be *the* default of that kind when
the kind is a single scalar type.
"""
from ..wire import dec, tag, Ts, Rx
from ..gen import ast as A
from ..gen.program import Opts
from ..model import kind as K
from . import core_common as cc

ID = "C08"
LEVEL = "exploration"
BUDGET = {"quick": 25, "thorough": 300}
FLOOR = {"quick": 8, "thorough": 15}
RULE = ("grammar-directed core programs (no return/abort/closures) biased to `??` and `ok, err =` over "
        "fallible operands of every kind; 6 events per program. Non-trivial: a fallible operand actually "
        "failed (coalesce rhs evaluated / infallible assignment stored a default) or succeeded with the "
        "rhs skipped; distinct by (trace facts, kinds of defaults observed).")
ASSUMPTIONS = ["reference interpreter model/interp.py encodes the documented semantics",
               "default values per documentation: \"\" 0 0.0 false t'1970-01-01T00:00:00Z' r'' [] {} null"]
NEVENTS = 6

DEFAULT_OF = {"bytes": b"", "integer": 0, "float": 0.0, "boolean": False, "timestamp": Ts(0, 0),
              "regex": Rx(""), "array": [], "object": {}, "null": None}


def opts():
    return Opts(abort=False, ret=False, closures=False, assign2=True, coalesce=True, max_stmts=6)


def gen_case(ctx, rng):
    return cc.gen_core_case(rng, opts(), NEVENTS)


def classify(stmts, mism):
    kinds = A.node_kinds(stmts)
    ops = [k for k in ("op??", "assign2") if k in kinds]
    what = mism[0][0].split(":")[0]
    return "c08:%s:%s" % ("+".join(ops) or "none", what)


def is_default(v):
    t = tag(v)
    d = DEFAULT_OF[t]
    return v == d if t not in ("array", "object") else len(v) == 0


def extra_check(resp, run, stmts, event):
    out = []
    hits = run.get("hits", {})
    probes = resp.get("probes", {})
    for name, hs in hits.items():
        if not name.startswith("err@"):
            continue
        site = name[4:]
        oks = hits.get("ok@" + site, [])
        okp = probes.get("ok@" + site)
        errp = probes.get("err@" + site)
        for i, h in enumerate(hs):
            if "v" not in h or i >= len(oks) or "v" not in oks[i]:
                continue
            ev = dec(h["v"])
            okv = dec(oks[i]["v"])
            if ev is None:
                continue            # assignment succeeded
            if type(ev) is not bytes or len(ev) == 0:
                out.append(("c08:err_not_a_message", {"site": site, "err": repr(ev)}))
                continue
            # failed: okv is the stored default
            if not is_default(okv):
                out.append(("c08:default_not_a_default_value:%s" % tag(okv), {"site": site, "ok": repr(okv)}))
                continue
            if okp is not None:
                kind = okp["kind"]
                why = []
                if not K.member(okv, kind, expr_level=True, why=why):
                    out.append(("c08:default_outside_ok_kind:%s" % tag(okv),
                                {"site": site, "ok": repr(okv), "kind": K.short(kind), "why": why}))
                    continue
                prims = [p for p in kind.get("p", []) if p != "undefined"]
                single = None
                if len(prims) == 1 and "a" not in kind and "o" not in kind:
                    single = prims[0]
                elif not prims and ("a" in kind) != ("o" in kind):
                    single = "array" if "a" in kind else "object"
                if single is not None and tag(okv) != single:
                    out.append(("c08:default_of_wrong_kind:%s" % single,
                                {"site": site, "ok": repr(okv), "kind": K.short(kind)}))
    return out


def coverage(stmts, it, outcome, case):
    facts = sorted(set(t[0] for t in it.trace if t[0] in ("coalesce_rhs", "assign2_failed", "assign2_ok")))
    kinds = A.node_kinds(stmts)
    present = sorted(k for k in kinds if k in ("op??", "assign2", "op/") or
                     k in ("call:int", "call:float", "call:string", "call:bool", "call:array",
                           "call:object", "call:push"))
    return ((tuple(facts), tuple(present), outcome[0]), bool(facts))


def run_case(ctx, case):
    cc.run_core_case(ctx, case, "c08", classify, coverage, extra_check=extra_check)
