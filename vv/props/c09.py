"""C09 — short-circuit and conditional evaluation are exact.

Monitor: programs combining `||`, `&&`, `if / else if / else` (multi-expression predicates,
missing else) whose operands and branches carry visible side effects (unique marker writes,
`del`) run on the real runtime; the reference interpreter (model/interp.py) evaluates the same
program on the same event, and result, final event, metadata and variables must agree — a side
effect of an unevaluated operand/branch, or a wrong branch, shows up as a differing marker.
"""
from ..wire import enc, dec
from ..gen import ast as A
from ..gen.program import Gen, Opts, core_event
from . import core_common as cc

ID = "C09"
LEVEL = "exploration"
BUDGET = {"quick": 25, "thorough": 300}
FLOOR = {"quick": 12, "thorough": 20}
RULE = ("grammar-directed core programs (no return/abort/closures) with side-effecting operands; "
        "6 schema-conforming events per program. Non-trivial: the model's trace shows a short-circuit "
        "skip, an rhs evaluation, a taken/else/missing-else branch; distinct by the set of trace facts "
        "x (operators present).")
ASSUMPTIONS = ["reference interpreter model/interp.py encodes the documented semantics",
               "events conform to the core schema; strings are ASCII"]

NEVENTS = 6


def opts():
    return Opts(abort=False, ret=False, closures=False, assign2=True, coalesce=True,
                side_effect_p=0.8, max_stmts=5)


def gen_case(ctx, rng):
    return cc.gen_core_case(rng, opts(), NEVENTS)


def classify(stmts, mism):
    kinds = A.node_kinds(stmts)
    ops = [k for k in ("op||", "op&&", "if") if k in kinds]
    what = mism[0][0].split(":")[0]
    return "c09:%s:%s" % ("+".join(ops) or "none", what)


FACTS = ("or_rhs_evaluated", "or_rhs_skipped", "and_rhs_skipped", "and_rhs_evaluated",
         "if_branch", "else_branch", "missing_else")


def coverage(stmts, it, outcome, case):
    kinds = A.node_kinds(stmts)
    facts = sorted(set(t[0] for t in it.trace if t[0] in FACTS))
    present = sorted(k for k in ("op||", "op&&", "if") if k in kinds)
    return ((tuple(facts), tuple(present), outcome[0]), bool(facts))


def run_case(ctx, case):
    cc.run_core_case(ctx, case, "c09", classify, coverage)
