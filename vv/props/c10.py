"""C10 — comparisons are consistent; integer equality is exact; structured equality is structural.

Monitor: the six comparison operators are evaluated by the real runtime on operand pairs
delivered through the event (runtime-typed, no constant folding) and additionally as
literals; an independent model (Python big integers, IEEE doubles, bytes, (secs,nanos)
tuples, strict structural equality) judges every result.
"""
from ..wire import enc, dec, veq, tag, Ts
from ..gen import values as gv
from ..gen.lit import lit, NotLiteral

ID = "C10"
LEVEL = "exploration"
BUDGET = {"quick": 20, "thorough": 240}
FLOOR = {"quick": 30, "thorough": 60}
RULE = ("operand pairs from edge pools (i64/2^53/2^63 boundaries, float neighbours, ±0, ±inf, "
        "subnormals, byte strings with shared prefixes/high bytes, ns timestamps, nested values) "
        "x random; each pair evaluated runtime-typed (through the event) and, when expressible, as "
        "literals. Non-trivial: operands are 'close' (equal, differ by <= 2^11 units/ulps, share a "
        "prefix, or exceed 2^53) or structured; distinct by (kind pair, closeness class, relation, form).")
ASSUMPTIONS = ["Python int/float/bytes comparison is the reference semantics",
               "mixed int/float pairs are judged for consistency on float(int) only"]

SRC = ('[(.a < .b) ?? "E", .a == .b, (.a > .b) ?? "E", .a != .b, '
       '(.a <= .b) ?? "E", (.a >= .b) ?? "E"]')
BATCH = 64


def near_int(rng, a):
    d = rng.choice([0, 0, 1, -1, 2, -2, rng.randint(-2048, 2048)])
    return max(gv.I64_MIN, min(gv.I64_MAX, a + d))


def near_float(rng, a):
    f = a
    for _ in range(rng.choice([0, 0, 1, 1, 2, rng.randint(0, 2048)])):
        f = gv.nextafter_up(f) if rng.random() < 0.5 else gv.nextafter_down(f)
    return f


def gen_pair(rng):
    r = rng.random()
    if r < 0.30:
        a = gv.rand_int(rng)
        b = near_int(rng, a) if rng.random() < 0.6 else gv.rand_int(rng)
        return a, b
    if r < 0.50:
        a = gv.rand_float(rng)
        b = near_float(rng, a) if rng.random() < 0.6 else gv.rand_float(rng)
        if rng.random() < 0.1:
            b = -a
        return a, b
    if r < 0.62:
        # mixed
        a = gv.rand_int(rng)
        b = float(a) if rng.random() < 0.5 else gv.rand_float(rng)
        if rng.random() < 0.3:
            b = near_float(rng, b)
        return (a, b) if rng.random() < 0.5 else (b, a)
    if r < 0.78:
        a = gv.rand_bytes(rng)
        q = rng.random()
        if q < 0.3:
            b = a + gv.rand_bytes(rng, 3)
        elif q < 0.5 and a:
            b = a[:-1] + bytes([(a[-1] + rng.choice([1, 255, 128])) & 0xFF])
        elif q < 0.6:
            b = a
        else:
            b = gv.rand_bytes(rng)
        return (a, b) if rng.random() < 0.5 else (b, a)
    if r < 0.90:
        a = gv.rand_ts(rng)
        q = rng.random()
        if q < 0.5:
            ns = a.ns() + rng.choice([0, 1, -1, 999999999, -1000000000, rng.randint(-5000, 5000)])
            b = Ts(ns // 1_000_000_000, ns % 1_000_000_000)
        else:
            b = gv.rand_ts(rng)
        return a, b
    # structured / other kinds: only == and != are defined
    a = gv.rand_value(rng, depth=3)
    q = rng.random()
    if q < 0.4:
        b = dec(enc(a))
    elif q < 0.7:
        b = mutate(rng, dec(enc(a)))
    else:
        b = gv.rand_value(rng, depth=3)
    return a, b


def mutate(rng, v):
    if isinstance(v, list) and v:
        i = rng.randrange(len(v))
        v = list(v)
        if rng.random() < 0.3:
            del v[i]
        else:
            v[i] = mutate(rng, v[i])
        return v
    if isinstance(v, dict) and v:
        k = rng.choice(list(v))
        v = dict(v)
        if rng.random() < 0.3:
            del v[k]
        else:
            v[k] = mutate(rng, v[k])
        return v
    if type(v) is int:
        return v + 1 if v < gv.I64_MAX else v - 1
    if type(v) is bool:
        return not v
    return gv.rand_scalar(rng)


def gen_case(ctx, rng):
    pairs = [gen_pair(rng) for _ in range(BATCH)]
    lit_pair = None
    for a, b in pairs[:6]:
        if tag(a) in ("integer", "float", "bytes", "timestamp") and tag(a) == tag(b):
            try:
                lit_pair = [lit(a), lit(b), enc(a), enc(b)]
                break
            except NotLiteral:
                continue
    return {"pairs": [[enc(a), enc(b)] for a, b in pairs], "lit": lit_pair}


def model(a, b):
    """Expected [lt, eq, gt, ne, le, ge]; None = not judged; 'E' = error expected."""
    ta, tb = tag(a), tag(b)
    num = ("integer", "float")
    if ta in num and tb in num:
        if ta == "integer" and tb == "integer":
            x, y = a, b                      # exact mathematical integers
        else:
            x, y = float(a), float(b)        # the float operation on the converted integer
        lt, eq, gt = x < y, x == y, x > y
        return [lt, eq, gt, not eq, lt or eq, gt or eq]
    if ta == tb and ta in ("bytes", "timestamp"):
        x, y = (a, b) if ta == "bytes" else (tuple(a), tuple(b))
        lt, eq, gt = x < y, x == y, x > y
        return [lt, eq, gt, not eq, lt or eq, gt or eq]
    eq = veq(a, b)
    return [None, eq, None, not eq, None, None]


def closeness(a, b):
    ta, tb = tag(a), tag(b)
    if ta == "integer" and tb == "integer":
        d = abs(a - b)
        big = abs(a) > (1 << 53) or abs(b) > (1 << 53)
        return ("eq" if d == 0 else "near" if d <= 2048 else "far") + ("_big" if big else "")
    if ta in ("integer", "float") and tb in ("integer", "float"):
        fa, fb = float(a), float(b)
        if fa == fb:
            return "eq"
        if fa in (float("inf"), float("-inf")) or fb in (float("inf"), float("-inf")):
            return "inf"
        return "near" if abs(fa - fb) <= 4096 * max(abs(fa), abs(fb)) * 2.3e-16 else "far"
    if ta == "bytes" and tb == "bytes":
        if a == b:
            return "eq"
        if a.startswith(b) or b.startswith(a):
            return "prefix"
        return "hi" if ((a[:1] or b"\0") > b"\x7f" or (b[:1] or b"\0") > b"\x7f") else "other"
    if ta == "timestamp" and tb == "timestamp":
        d = abs(a.ns() - b.ns())
        return "eq" if d == 0 else "near" if d < 10**9 else "far"
    return "struct_eq" if veq(a, b) else "struct_ne"


def judge(ctx, a, b, got, form):
    exp = model(a, b)
    names = ["<", "==", ">", "!=", "<=", ">="]
    ta, tb = tag(a), tag(b)
    bad = []
    for n, e, g in zip(names, exp, got):
        if e is None:
            continue
        if g is not e:
            bad.append((n, e, g))
    if bad:
        n, e, g = bad[0]
        if ta == "integer" and tb == "integer":
            cls = "int_int:%s:%s" % (n, "above_2^53" if max(abs(a), abs(b)) > (1 << 53) else "small")
        else:
            cls = "%s_%s:%s" % (ta, tb, n)
        ctx.violation("cmp:" + cls, {"a": repr(a), "b": repr(b), "form": form,
                                     "operator": n, "expected": e, "got": repr(g),
                                     "all": [repr(x) for x in got]},
                      case={"pairs": [[enc(a), enc(b)]], "lit": None} if form == "event" else None)
        return
    cl = closeness(a, b)
    rel = "lt" if exp[0] else "gt" if exp[2] else "eq" if exp[1] else "ne"
    nontrivial = cl != "far" and cl != "other"
    ctx.ok(("%s/%s" % (ta, tb), cl, rel, form), nontrivial,
           sample={"a": repr(a), "b": repr(b), "form": form, "results": [repr(x) for x in got]})


def run_case(ctx, case):
    pairs = [(dec(a), dec(b)) for a, b in case["pairs"]]
    resp = ctx.call({"op": "run", "src": SRC, "probe": False,
                     "events": [{"e": {"o": {"a": a, "b": b}}} for a, b in case["pairs"]]})
    if not resp.get("compiled"):
        ctx.skip("harness:program_rejected")
        return
    for (a, b), run in zip(pairs, resp["runs"]):
        if "panic" in run:
            ctx.violation("cmp:panic@" + run["panic"]["loc"], {"a": repr(a), "b": repr(b), "panic": run["panic"]},
                          case={"pairs": [[enc(a), enc(b)]], "lit": None})
            continue
        out = run["out"]
        if "ok" not in out:
            ctx.violation("cmp:program_failed", {"a": repr(a), "b": repr(b), "out": out},
                          case={"pairs": [[enc(a), enc(b)]], "lit": None})
            continue
        got = dec(out["ok"])
        got = [x if isinstance(x, bool) else "E" for x in got]
        judge(ctx, a, b, got, "event")
    if case.get("lit"):
        la, lb, ea, eb = case["lit"]
        src = "[%s < %s, %s == %s, %s > %s, %s != %s, %s <= %s, %s >= %s]" % ((la, lb) * 6)
        resp = ctx.call({"op": "run", "src": src, "probe": False, "events": [{"e": {"o": {}}}]})
        if not resp.get("compiled"):
            ctx.skip("literal_form_rejected")
            return
        run = resp["runs"][0]
        if "ok" in run.get("out", {}):
            got = [x if isinstance(x, bool) else "E" for x in dec(run["out"]["ok"])]
            judge(ctx, dec(ea), dec(eb), got, "literal")
        else:
            ctx.violation("cmp:literal_program_failed", {"src": src, "run": run})
