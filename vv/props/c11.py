"""C11 — arithmetic follows the documented numeric semantics.

Monitor: `+ - * /` and `mod` are evaluated by the real runtime on operand pairs delivered
through the event (and as literals when expressible); the oracle is Python big-integer
arithmetic masked to 64-bit two's complement, IEEE doubles (NaN result => must be an error),
byte-string concatenation / repetition.
"""
import math

from ..wire import enc, dec, veq, tag
from ..gen import values as gv
from ..gen.lit import lit, NotLiteral

ID = "C11"
LEVEL = "exploration"
BUDGET = {"quick": 20, "thorough": 240}
FLOOR = {"quick": 40, "thorough": 80}
RULE = ("operand pairs (i64 edges, non-NaN floats incl. ±inf/±0/subnormals, byte strings, null, and "
        "kinds outside the operator's domain) x {+,-,*,/,mod}, runtime-typed via the event and as "
        "literals. Non-trivial: result wraps, overflows to inf, would be NaN, divisor is ±0, involves "
        "mixed int/float, or strings; distinct by (kind pair, operator, outcome class, form).")
ASSUMPTIONS = ["Python int arithmetic masked to 64 bits = two's-complement wrapping",
               "Python float arithmetic is IEEE-754 binary64; float(int) rounds to nearest even like Rust `as f64`",
               "string repetition counts are generated <= 1000 (memory exhaustion is out of scope)"]

SRC = ("r0, e0 = .a + .b\nr1, e1 = .a - .b\nr2, e2 = .a * .b\nr3, e3 = .a / .b\n"
       "r4, e4 = mod(.a, .b)\n[[r0, e0], [r1, e1], [r2, e2], [r3, e3], [r4, e4]]")
OPS = ["+", "-", "*", "/", "mod"]
BATCH = 64
NAN_MSG = "operation would produce NaN"


def wrap(x):
    x &= (1 << 64) - 1
    return x - (1 << 64) if x >= (1 << 63) else x


def gen_operand(rng):
    r = rng.random()
    if r < 0.4:
        return gv.rand_int(rng)
    if r < 0.75:
        return gv.rand_float(rng)
    if r < 0.88:
        return gv.rand_bytes(rng, 6)
    if r < 0.93:
        return None
    return gv.rand_scalar(rng, ["boolean", "timestamp", "regex"]) if rng.random() < 0.7 else gv.rand_value(rng, 1)


def gen_pair(rng):
    a = gen_operand(rng)
    r = rng.random()
    if r < 0.15 and type(a) in (int, float):
        b = rng.choice([0, 0.0, -0.0, 1, -1, a, -a if a != gv.I64_MIN else 1])
    elif r < 0.25 and type(a) is bytes:
        b = rng.choice([rng.randint(-3, 12), None, gv.rand_bytes(rng, 5), 0, 1000])
    elif r < 0.3 and type(a) is int:
        b = rng.choice([gv.rand_bytes(rng, 4)])
        a = rng.randint(-3, 50)
    else:
        b = gen_operand(rng)
    # bound repetition
    if type(a) is bytes and type(b) is int and b > 1000:
        b = b % 1000
    if type(b) is bytes and type(a) is int and a > 1000:
        a = a % 1000
    return a, b


def gen_case(ctx, rng):
    pairs = [gen_pair(rng) for _ in range(BATCH)]
    lit_pair = None
    for a, b in pairs[:8]:
        if type(a) in (int, float) and type(b) in (int, float):
            try:
                lit_pair = [lit(a), lit(b), enc(a), enc(b)]
                break
            except NotLiteral:
                continue
    return {"pairs": [[enc(a), enc(b)] for a, b in pairs], "lit": lit_pair}


class Err(Exception):
    def __init__(self, kind):
        self.kind = kind


def fres(f):
    if f != f:
        raise Err("nan")
    return f


def fdiv(x, y):
    # y != 0 guaranteed
    if math.isinf(x) and math.isinf(y):
        raise Err("nan")
    if math.isinf(y):
        return math.copysign(0.0, x) * math.copysign(1.0, y)
    if math.isinf(x):
        return math.copysign(float("inf"), x) * math.copysign(1.0, y)
    try:
        return x / y
    except OverflowError:
        return math.copysign(float("inf"), x) * math.copysign(1.0, y)


def fmul(x, y):
    if (math.isinf(x) and y == 0) or (math.isinf(y) and x == 0):
        raise Err("nan")
    try:
        return x * y
    except OverflowError:  # never raised for float*float, kept for safety
        return math.copysign(float("inf"), x) * math.copysign(1.0, y)


def fadd(x, y):
    if math.isinf(x) and math.isinf(y) and x != y:
        raise Err("nan")
    return x + y


def model(op, a, b):
    """Returns the expected value or raises Err(kind) (kind in nan|zero|type)."""
    ta, tb = tag(a), tag(b)
    num = ("integer", "float")
    if op == "/":
        if tb in num and b == 0:
            raise Err("zero")
        if ta in num and tb in num:
            return fres(fdiv(float(a), float(b)))
        raise Err("type")
    if op == "mod":
        if tb in num and b == 0:
            raise Err("zero")
        if ta == "integer" and tb == "integer":
            if b == -1:
                return 0
            r = abs(a) % abs(b)
            return -r if a < 0 else r
        if ta in num and tb in num:
            x, y = float(a), float(b)
            if math.isinf(x):
                raise Err("nan")
            if math.isinf(y):
                return x
            return fres(math.fmod(x, y))
        raise Err("type")
    if ta == "integer" and tb == "integer":
        if op == "+":
            return wrap(a + b)
        if op == "-":
            return wrap(a - b)
        return wrap(a * b)
    if ta in num and tb in num:
        x, y = float(a), float(b)
        if op == "+":
            return fres(fadd(x, y))
        if op == "-":
            return fres(fadd(x, -y))
        return fres(fmul(x, y))
    if op == "+":
        if ta == "bytes" and tb == "bytes":
            return a + b
        if ta == "bytes" and tb == "null":
            return a
        if ta == "null" and tb == "bytes":
            return b
        raise Err("type")
    if op == "*":
        if ta == "bytes" and tb == "integer":
            return a * max(b, 0)
        if ta == "integer" and tb == "bytes":
            return b * max(a, 0)
        raise Err("type")
    raise Err("type")


def outcome_class(op, a, b, exp):
    ta, tb = tag(a), tag(b)
    if isinstance(exp, Err):
        return "err_" + exp.kind
    if ta == "integer" and tb == "integer" and op in "+-*":
        exact = a + b if op == "+" else a - b if op == "-" else a * b
        return "wrapped" if exact != exp else "int_exact"
    if type(exp) is float:
        if math.isinf(exp):
            return "inf"
        if exp == 0:
            return "zero"
        return "float_mixed" if ta != tb else "float"
    if type(exp) is bytes:
        return "bytes_empty" if not exp else "bytes"
    return "int"


def judge(ctx, a, b, results, form):
    for op, (val, err) in zip(OPS, results):
        try:
            exp = model(op, a, b)
        except Err as e:
            exp = e
        detail = {"a": repr(a), "b": repr(b), "op": op, "form": form, "got_value": repr(val), "got_error": repr(err)}
        one = {"pairs": [[enc(a), enc(b)]], "lit": None}
        cls = "%s:%s_%s" % (op, tag(a), tag(b))
        if isinstance(exp, Err):
            detail["expected"] = "error(%s)" % exp.kind
            if err is None:
                ctx.violation("arith:expected_error_%s:%s" % (exp.kind, cls), detail, case=one)
                continue
            if exp.kind == "nan" and NAN_MSG.encode() not in err:
                ctx.violation("arith:nan_error_message:%s" % cls, detail, case=one)
                continue
        else:
            detail["expected"] = repr(exp)
            if err is not None:
                ctx.violation("arith:unexpected_error:%s" % cls, detail, case=one)
                continue
            if not veq(val, exp, float_bits=False) or (
                    type(exp) is float and exp == 0 and math.copysign(1, exp) != math.copysign(1, val)):
                ctx.violation("arith:wrong_result:%s" % cls, detail, case=one)
                continue
        oc = outcome_class(op, a, b, exp)
        nontrivial = oc not in ("int_exact", "err_type", "int") or tag(a) != tag(b)
        ctx.ok(("%s/%s" % (tag(a), tag(b)), op, oc, form), nontrivial,
               sample={"a": repr(a), "b": repr(b), "op": op, "form": form,
                       "result": repr(val) if err is None else "error: %r" % err})


def extract(run):
    got = dec(run["out"]["ok"])
    return [(r, e) for r, e in got]


def run_case(ctx, case):
    pairs = [(dec(a), dec(b)) for a, b in case["pairs"]]
    resp = ctx.call({"op": "run", "src": SRC, "probe": False,
                     "events": [{"e": {"o": {"a": a, "b": b}}} for a, b in case["pairs"]]})
    if not resp.get("compiled"):
        ctx.skip("harness:program_rejected")
        return
    for (a, b), run in zip(pairs, resp["runs"]):
        one = {"pairs": [[enc(a), enc(b)]], "lit": None}
        if "panic" in run:
            ctx.violation("arith:panic@" + run["panic"]["loc"].rsplit(":", 1)[0],
                          {"a": repr(a), "b": repr(b), "panic": run["panic"]}, case=one)
            continue
        if "ok" not in run["out"]:
            ctx.violation("arith:program_failed", {"a": repr(a), "b": repr(b), "out": run["out"]}, case=one)
            continue
        judge(ctx, a, b, extract(run), "event")
    if case.get("lit"):
        la, lb, ea, eb = case["lit"]
        a, b = dec(ea), dec(eb)
        for op in ["+", "-", "*", "/"]:
            # constant arithmetic: the compiler may decide (in)fallibility from the constants
            src = "r, e = %s %s %s\n[r, e]" % (la, op, lb)
            resp = ctx.call({"op": "run", "src": src, "probe": False, "events": [{"e": {"o": {}}}]})
            fallible_form = True
            if not resp.get("compiled"):
                # infallible (E104 unnecessary error assignment): use the plain form
                src = "%s %s %s" % (la, op, lb)
                resp = ctx.call({"op": "run", "src": src, "probe": False, "events": [{"e": {"o": {}}}]})
                fallible_form = False
                if not resp.get("compiled"):
                    ctx.skip("literal_form_rejected")
                    continue
            run = resp["runs"][0]
            try:
                exp = model(op, a, b)
            except Err as e:
                exp = e
            detail = {"src": src, "run": run, "expected": repr(exp) if not isinstance(exp, Err) else "error(%s)" % exp.kind}
            lcase = {"pairs": [], "lit": case["lit"]}
            if "panic" in run:
                ctx.violation("arith:literal_panic", detail, case=lcase)
                continue
            out = run["out"]
            if fallible_form:
                if "ok" not in out:
                    ctx.violation("arith:literal_program_failed", detail, case=lcase)
                    continue
                val, err = dec(out["ok"])
            else:
                if "ok" in out:
                    val, err = dec(out["ok"]), None
                else:
                    val, err = None, (out.get("error") or "?").encode()
            if isinstance(exp, Err):
                if err is None:
                    ctx.violation("arith:literal_expected_error_%s:%s" % (exp.kind, op), detail, case=lcase)
                    continue
                if not fallible_form:
                    # typed infallible by the compiler, but failed at runtime
                    ctx.violation("arith:literal_infallible_but_failed:%s" % op, detail, case=lcase)
                    continue
            else:
                if err is not None:
                    ctx.violation("arith:literal_unexpected_error:%s" % op, detail, case=lcase)
                    continue
                if not veq(val, exp):
                    ctx.violation("arith:literal_wrong_result:%s" % op, detail, case=lcase)
                    continue
            ctx.ok(("%s/%s" % (tag(a), tag(b)), op, outcome_class(op, a, b, exp), "literal"), True)
