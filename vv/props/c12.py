"""C12 — compile-time constant knowledge matches runtime values.

Monitor: `probe(tag, e)` records `e.resolve_constant(state)` at compile time (the constant the
compiler believes `e` has at that program point, if any) and the runtime value at every hit.
Whenever the compiler reports a constant, every runtime hit must produce exactly that value.
Programs are biased to constant flows: variables assigned literals / constant arithmetic, then
perturbed by `del(x.a)`, path assignment `x.a = ...`, `|=`, reassignment in one branch, inside
`ok, err =` blocks, short-circuit operands and closure bodies (0, 1, many iterations).
"""
from ..wire import enc, dec, veq
from ..gen import ast as A
from ..gen.program import Opts
from . import core_common as cc
from . import full_common as fc

ID = "C12"
LEVEL = "exploration"
BUDGET = {"quick": 35, "thorough": 480}
FLOOR = {"quick": 20, "thorough": 40}
RULE = ("grammar-directed programs biased to constant assignments and later perturbation, probes on "
        "variables and variable sub-paths after every statement and inside closures; 4 events per program. "
        "Non-trivial: a probe had a compile-time constant; distinct by (perturbation kinds present, probe in "
        "closure or not, variable perturbed or not).")
ASSUMPTIONS = ["Expression::resolve_constant as seen through the public Function::compile interface is the "
               "constant the compiler uses for its decisions"]
NEVENTS = 4


def opts(ctx):
    return Opts(abort=False, ret=False, bang=False, closures=True, probes=True, var_paths=0.35,
                const_bias=0.45, max_stmts=6, closure_fail_p=0.1, shadow_params=0.2)


def gen_case(ctx, rng):
    return fc.gen_full_case(rng, opts(ctx), NEVENTS)


def check_run(resp, run):
    out = []
    nconst = 0
    o = run.get("out", {})
    if "error" in o and "divide by zero" in o["error"]:
        # these programs contain no `!`: an unhandled division is only accepted when the compiler
        # decided from a constant divisor that it cannot fail
        out.append(("constant_decision:division", {"error": o["error"][:200]}))
    probes = resp.get("probes", {})
    for t, hs in run.get("hits", {}).items():
        p = probes.get(t)
        if p is None or p.get("const") is None:
            continue
        c = dec(p["const"]["v"])
        for h in hs:
            if "v" in h:
                nconst += 1
                v = dec(h["v"])
                if not veq(v, c):
                    out.append(("const:" + t, {"compile_time_constant": repr(c)[:200], "runtime_value": repr(v)[:200],
                                               "expr": p.get("expr")}))
                    break
    return out, nconst


CULPRITS = ["del_var_path", "var_path_assign", "map_keys", "map_values", "filter", "for_each", "closure",
            "assign2", "massign", "op??", "op||", "op&&", "if"]


def classify(small, where=""):
    c = fc.cause(small)
    if where.startswith("constant_decision"):
        return "infallible_division_failed:%s" % ("operand_side_effect" if c in ("plain", "error_path", "if") else c)
    return "stale_constant:%s" % c


def run_case(ctx, case):
    stmts = case["stmts"]
    events = [dec(e) for e in case["events"]]
    src, resp = fc.run_full(ctx, stmts, events)
    if "panic" in resp:
        ctx.skip("compile_panic(C04)")
        return
    if not resp.get("compiled"):
        ctx.skip("rejected:E" + "+".join(sorted(set(str(d["code"]) for d in resp.get("diags", []) if d["sev"] == "error"))))
        return
    ctx.count("programs_accepted")
    kinds = [k for k in fc.interesting_kinds(stmts) if k in CULPRITS]
    info = case.get("probe_info", {})
    for event, run in zip(events, resp["runs"]):
        bad, nconst = check_run(resp, run)
        if not bad:
            pert = any(info.get(t, {}).get("perturbed") for t in run.get("hits", {}))
            incl = any(info.get(t, {}).get("in_closure") for t in run.get("hits", {}))
            ctx.ok((tuple(kinds)[:6], pert, incl), nconst > 0,
                   sample={"src": src[:500], "constant_probe_hits": nconst})
            continue
        presig = tuple(kinds)[:3]
        seen = ctx.__dict__.setdefault("presig_seen", {})
        seen[presig] = seen.get(presig, 0) + 1
        if seen[presig] > 2 and ctx.corpus_idx is None:     # corpus inputs are always classified (exact-input findings)
            ctx.count("violations_not_shrunk(repeat of an already classified pre-signature)")
            ctx.evaluations += 1
            continue

        def still(cand, event=event):
            _, r2 = fc.run_full(ctx, cand, [event])
            if not r2.get("compiled") or "panic" in r2:
                return False
            return bool(check_run(r2, r2["runs"][0])[0])
        small = cc.shrink_full(stmts, still, budget=200 if ctx.corpus_idx is None else 16)
        _, r2 = fc.run_full(ctx, small, [event])
        b2 = (check_run(r2, r2["runs"][0])[0] if r2.get("compiled") else bad) or bad
        ctx.violation(classify(small, b2[0][0]), {"src": A.program_src(small), "event": repr(event)[:300],
                                        "where": b2[0][0], "detail": b2[0][1]},
                      case={"stmts": small, "events": [enc(event)], "probe_info": {}})
