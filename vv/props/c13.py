"""C13 — closure parameters are scoped to the closure.

Monitor: core programs calling for_each / filter / map_keys / map_values over objects and
arrays of size 0-5, with closure bodies that may fail at some iteration and with failures
handled by `??` or `ok, err =`; parameter names are fresh or shadow an outer variable. After the
run the variable store is inspected *by name* (`RuntimeState::variable`), including names that
are out of compile-time scope: every parameter name must hold what the reference interpreter
says (its pre-call value, or unset).
"""
from ..gen import ast as A
from ..gen.program import Opts
from . import core_common as cc

ID = "C13"
LEVEL = "exploration"
BUDGET = {"quick": 25, "thorough": 300}
FLOOR = {"quick": 8, "thorough": 15}
RULE = ("core programs with closure-taking calls (failing bodies, handled by ?? / ok,err=; fresh and "
        "shadowing parameter names); 6 events per program. Judged: only variables named like closure "
        "parameters. Non-trivial: a closure iteration ran; distinct by (function, container kind, body "
        "failed or not, shadowing or fresh).")
ASSUMPTIONS = ["reference interpreter model/interp.py encodes the documented scoping",
               "replace_with is exercised by C03/C04 workloads only (its regex semantics are not modelled)"]
NEVENTS = 6


def opts():
    return Opts(abort=False, ret=False, closures=True, closure_fail_p=0.6, shadow_params=0.5,
                max_stmts=5)


def gen_case(ctx, rng):
    return cc.gen_core_case(rng, opts(), NEVENTS)


def classify(stmts, mism):
    fns = sorted(set(k.split(":")[1] for k in A.node_kinds(stmts) if k.startswith("call:") and
                     k.split(":")[1] in ("for_each", "filter", "map_keys", "map_values")))
    return "closure_param_leak:%s" % ("+".join(fns) or "none")


def coverage(stmts, it, outcome, case):
    iters = sorted(set((t[1], t[2]) for t in it.trace if t[0] == "iteration"))
    failed = any(t[0] in ("coalesce_rhs", "assign2_failed") for t in it.trace)
    shadow = any(p[1] for p in case.get("params", []))
    return ((tuple(iters), failed, shadow), bool(iters))


def run_case(ctx, case):
    params = cc.closure_params(case["stmts"])
    cc.run_core_case(ctx, case, "c13", classify, coverage,
                     compare_kw={"only_vars": params},
                     judge_filter=lambda m: m[0].startswith("var:"))
