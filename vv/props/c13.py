"""C13 — closure parameters are scoped to the closure.

Monitor: core programs calling for_each / filter / map_keys / map_values over objects and
arrays of size 0-5, with closure bodies that may fail at some iteration and with failures
handled by `??` or `ok, err =`; parameter names are fresh or shadow an outer variable. After the
run the variable store is inspected *by name* (`RuntimeState::variable`), including names that
are out of compile-time scope: every parameter name must hold what the reference interpreter
says (its pre-call value, or unset).
"""
from ..gen import ast as A
from ..gen.program import Opts
from . import core_common as cc

ID = "C13"
LEVEL = "exploration"
BUDGET = {"quick": 25, "thorough": 300}
FLOOR = {"quick": 8, "thorough": 15}
RULE = ("core programs with closure-taking calls (failing bodies, handled by ?? / ok,err=; fresh and "
        "shadowing parameter names); 6 events per program. Judged: only variables named like closure "
        "parameters. Non-trivial: a closure iteration ran; distinct by (function, container kind, body "
        "failed or not, shadowing or fresh).")
ASSUMPTIONS = ["reference interpreter model/interp.py encodes the documented scoping",
               "replace_with is exercised by C03/C04 workloads only (its regex semantics are not modelled)"]
NEVENTS = 6


def opts():
    return Opts(abort=False, ret=False, closures=True, closure_fail_p=0.6, shadow_params=0.5,
                max_stmts=5)


def gen_case(ctx, rng):
    return cc.gen_core_case(rng, opts(), NEVENTS)


def classify(stmts, mism):
    fns = sorted(set(k.split(":")[1] for k in A.node_kinds(stmts) if k.startswith("call:") and
                     k.split(":")[1] in ("for_each", "filter", "map_keys", "map_values")))
    return "closure_param_leak:%s" % ("+".join(fns) or "none")


def coverage(stmts, it, outcome, case):
    iters = sorted(set((t[1], t[2]) for t in it.trace if t[0] == "iteration"))
    failed = any(t[0] in ("coalesce_rhs", "assign2_failed") for t in it.trace)
    shadow = any(p[1] for p in case.get("params", []))
    return ((tuple(iters), failed, shadow), bool(iters))


def run_case(ctx, case):
    params = cc.closure_params(case["stmts"])
    cc.run_core_case(ctx, case, "c13", classify, coverage,
                     compare_kw={"only_vars": params},
                     judge_filter=lambda m: m[0].startswith("var:"))


# ----------------------------------------------------------------------------------------
# thorough tier: the recorded closure workload plus recursive-iteration programs (the only callers
# of the unsafe iterator in src/value/value/iter.rs) replayed under Miri

MIRI_PROGRAMS = [
    'map_values({"a": {"b": 1, "c": [1, {"d": 2}]}, "e": [[], {}]}, recursive: true) -> |v| { if is_integer(v) { int!(v) + 1 } else { v } }',
    'map_keys({"a": {"b": 1, "c": {"d": {"e": 2}}}}, recursive: true) -> |k| { upcase(k) }',
    'map_values({"a": [1, 2, 3], "b": {"c": "x"}}, recursive: true) -> |v| { if is_array(v) { "flat" } else { v } }',
    'map_values([[1, [2, [3]]], {"k": [4]}], recursive: true) -> |v| { if is_integer(v) { [] } else { v } }',
    'map_keys({"a": {"a": {"a": 1}}, "b": 2}, recursive: true) -> |k| { k + "_" }',
    'x = 1\nmap_values({"a": {"b": 0}}, recursive: true) -> |x| { 10 / (int(x) ?? 1) } ?? "failed"\nx',
    'map_values(., recursive: true) -> |v| { if is_string(v) { upcase!(v) } else { v } }',
    'map_keys(., recursive: true) -> |k| { if k == "arr" { "ARR" } else { k } }',
    'for_each(.obj) -> |k, v| { .out = [k, v] }\nfilter(.arr) -> |i, v| { i != 0 && v != null }',
    'replace_with("foo bar baz", r\'\\w+\') -> |m| { upcase(m.string) }',
]


def post_run(tier, seed, merged):
    if tier != "thorough":
        return
    from .. import sanitize
    from ..gen.program import core_event
    from ..wire import enc
    import random
    rng = random.Random(seed)
    ev = enc(core_event(rng))
    # two Miri runs, so that the targeted programs (the unsafe recursive iterator under closures) get a
    # verdict even when the recorded sample is too slow for the interpreter on a loaded machine
    reqs = [{"op": "run", "src": src, "probe": False, "events": [{"e": ev}]} for src in MIRI_PROGRAMS]
    res = sanitize.miri_replay(reqs, "C13", timeout=2400)
    merged["sanitizers"]["miri"] = {k: v for k, v in res.items() if k != "stderr"}
    if res["status"] != "report":
        sample = [dict(r, events=r.get("events", [])[:1]) for r in list(merged.get("recorded", []))[:8]]
        if sample:
            res2 = sanitize.miri_replay(sample, "C13-sample", timeout=2400)
            merged["sanitizers"]["miri_recorded_sample"] = {k: v for k, v in res2.items() if k != "stderr"}
            if res2["status"] == "report":
                res, reqs = res2, sample
    if res["status"] == "report":
        merged["violations"]["miri:%s@%s" % (res["kind"][:60], res.get("location", "?"))] = {
            "count": 1, "detail": {"stderr": res.get("stderr"), "requests": len(reqs)}, "case": {"requests": reqs},
            "index": None, "proc": None}
