"""C14 — evaluation is deterministic and thread-safe.

Monitor (differential): (a) the same source is compiled twice in one process and once more in a
second worker process: diagnostics, ProgramInfo, exported final types and probe-free results must
be identical; (b) one program runs equal events on a fresh `Runtime`, on a second compile's fresh
runtime, and on a single `Runtime` that processed unrelated history events (including events on
which the program fails half-way) and was `clear()`ed in between: results, events, metadata must
be equal; (c) T threads share one `Arc<Program>`, each with its own `Runtime`, running all events in
different rotations with `yield_now` injection between runs (a run is not interruptible: these are
the only suspension points), compared with the sequential baseline. Thorough tier adds the same
request under ThreadSanitizer when its build is available (see DESIGN.md).
"""
import json

from ..wire import enc, dec
from ..gen import ast as A
from ..gen.program import Opts, core_event, CORE_SCHEMA
from ..gen import stdlib_args as sa
from ..pool import Worker
from . import full_common as fc

ID = "C14"
LEVEL = "exploration"
BUDGET = {"quick": 35, "thorough": 420}
FLOOR = {"quick": 40, "thorough": 80}
RULE = ("generated programs with closures and arbitrary deterministic stdlib calls (regex/grok/LazyLock "
        "backed functions included) x 6 events + 4 history events; per program: 2 compiles + second-process "
        "compile, fresh/fresh2/reused runtimes, 6 threads x 3 rounds with randomised yield masks. "
        "Non-trivial: program uses a stdlib call or closure, or fails on some event; distinct by "
        "(function set, outcome classes). The number of schedules executed is in counters.")
ASSUMPTIONS = ["now, random_*, uuid_v4/v7, get_hostname, get_env_var, get_timezone_name, log and network "
               "functions are exempt and never generated; encrypt with ISO10126 padding is exempt (random by definition)",
               "all interleavings are out of reach of a finite run: the claim covers the schedules executed"]
EXEMPT = set(sa.NONDETERMINISTIC) | {"encrypt", "decrypt", "encrypt_ip", "decrypt_ip"}


def setup(ctx):
    ctx.usable = [f for f in fc.usable_functions(ctx) if f["id"] not in EXEMPT]
    ctx.second = Worker()


def teardown(ctx):
    ctx.second.kill()


def opts(ctx):
    return Opts(abort=True, ret=True, bang=True, closures=True, stdlib=ctx.usable, stdlib_p=0.45,
                max_stmts=5, max_depth=2, closure_fail_p=0.3, shadow_params=0.4)


# programs aimed at hash-order dependence: inputs whose intermediate keys collide
TARGETED = [
    'tally!([decode_base64!("/w=="), decode_base64!("/g=="), decode_base64!("/g=="), "a", "a"])',
    'tally!(.keys)',
    'parse_cef!("CEF:0|a|b|c|d|e|1|cs1Label=foo cs1=v1 cs2Label=foo cs2=v2 cn1Label=foo cn1=3", translate_custom_fields: true)',
    'flatten({"a": {"b": 1, "b.c": 2}, "a.b": {"c": 3}, "x": [{"y": 1}, {"y": 2}]})',
    'parse_json!(s\'{"a": 1, "a": 2, "b": {"c": 1, "c": 2}}\')',
    'parse_duration!("1h 2m 3s 4ms", "s")',
    'parse_bytes!("1.5 GiB", "MiB")',
    'unique(.keys)',
    'compact(parse_key_value!("a=1 a=2 b=3 b=4"))',
    'parse_query_string("a=1&a=2&b=3&a=4")',
    'shannon_entropy("aabbccddeeffgghhiijjkkllmmnnooppqqrrssttuuvvwwxxyyzz0123456789", segmentation: "codepoint")',
    'merge({"a": 1, "b": {"c": 1}}, {"b": {"d": 2}, "a": 2}, deep: true)',
    'tag_types_externally({"b": 1, "a": [1, "x", {"k": null}]})',
    'object_from_array([["a", 1], ["a", 2], ["b", 3]])',
    'encode_key_value({"z": 1, "a": 2, "m": {"y": 1, "b": 2}})',
    'encode_logfmt({"z": 1, "a": 2, "m": "x y"})',
]


def gen_targeted(ctx, rng):
    from ..gen import values as gv
    src = rng.choice(TARGETED)
    events = []
    for _ in range(6):
        keys = [rng.choice([b"a", b"b", b"\xff", b"\xfe", b"\xc3", b"\xf0\x9f", b"ab"]) for _ in range(rng.randint(2, 8))]
        events.append(enc({"keys": keys}))
    return {"stmts": [["raw", src]], "events": events, "history": events[:2], "yield_mask": rng.getrandbits(63),
            "targeted": True}


def gen_case(ctx, rng):
    if rng.random() < 0.15:
        return gen_targeted(ctx, rng)
    c = fc.gen_full_case(rng, opts(ctx), 6)
    c["history"] = [enc(core_event(rng)) for _ in range(4)]
    c["yield_mask"] = rng.getrandbits(63)
    return c


def norm(resp):
    return json.dumps({k: resp.get(k) for k in ("compiled", "diags", "info", "type")}, sort_keys=True)


def fns_of(stmts):
    if stmts and stmts[0][0] == "raw":
        import re
        return sorted(set(re.findall(r"([a-z_0-9]+)!?\(", stmts[0][1])))
    return sorted(k[5:] for k in A.node_kinds(stmts) if k.startswith("call:"))


def run_case(ctx, case):
    stmts = case["stmts"]
    src = A.program_src(stmts)
    base = {"src": src, "probe": False, "ext": None if case.get("targeted") else {"event": CORE_SCHEMA},
            "events": [{"e": e} for e in case["events"]], "history": [{"e": e} for e in case["history"]]}
    fns = fns_of(stmts)
    key_fns = tuple(f for f in fns if f not in ("probe",))[:4]
    r = ctx.call(dict(base, op="reuse"))
    if "panic" in r.get("compile", {}) or "bad_request" in r:
        ctx.skip("compile_panic_or_bad_request")
        return
    detail = {"src": src, "functions": fns}
    if not r.get("compile_equal", True):
        ctx.violation("nondeterministic_compile:%s" % "+".join(key_fns[:2]), dict(detail, a=str(r.get("compile_a"))[:400], b=str(r.get("compile_b"))[:400]))
        return
    # second process
    r2 = ctx.second.call(dict(base, op="reuse"))
    if norm(r["compile"]) != norm(r2.get("compile", {})):
        ctx.violation("compile_differs_between_processes:%s" % "+".join(key_fns[:2]),
                      dict(detail, a=norm(r["compile"])[:500], b=norm(r2.get("compile", {}))[:500]))
        return
    if not r["compile"].get("compiled"):
        ctx.ok(("rejected",), False)
        return
    ctx.count("programs_accepted")
    pairs = [("fresh_vs_second_compile", r["fresh"], r["fresh2"]),
             ("fresh_vs_reused_runtime", r["fresh"], r["reused"]),
             ("fresh_vs_other_process", r["fresh"], r2.get("fresh"))]
    for name, a, b in pairs:
        if a != b:
            idx = next((i for i, (x, y) in enumerate(zip(a or [], b or [])) if x != y), 0)
            culprit = "+".join(key_fns[:2]) or "core"
            ctx.violation("%s:%s" % (name, culprit),
                          dict(detail, event=str(case["events"][idx])[:300], a=str((a or [None])[idx])[:400], b=str((b or [None])[idx])[:400]),
                          case=case)
            return
    if r.get("not_empty_after_clear"):
        ctx.violation("runtime_not_empty_after_clear", detail)
        return
    treq = dict(base, op="threads", threads=6, rounds=3, yield_mask=case["yield_mask"])
    if ctx.tier == "thorough" and len(ctx.recorded) < 4:
        ctx.record(dict(treq, threads=4, rounds=2))
    t = ctx.call(treq, cpu_limit=60)
    ctx.count("thread_runs", t.get("thread_runs", 0))
    ctx.count("schedules_executed")
    if t.get("thread_panics"):
        ctx.violation("thread_panic:%s" % ("+".join(key_fns[:2]) or "core"), detail)
        return
    if t.get("mismatches"):
        ctx.violation("concurrent_run_differs:%s" % ("+".join(key_fns[:2]) or "core"),
                      dict(detail, mismatch=str(t["mismatches"][0])[:600]), case=case)
        return
    outs = tuple(sorted(set(next(iter(x.get("out", {"panic": 1}))) for x in r["fresh"])))
    nontrivial = bool(fns) or "error" in outs
    ctx.ok((key_fns, outs), nontrivial, sample={"src": src[:400], "outcomes": outs})


# ----------------------------------------------------------------------------------------
# thorough tier: recorded `threads` requests replayed under ThreadSanitizer (-Zbuild-std) and,
# reduced, under Miri's data-race detector with several schedules (-Zmiri-many-seeds)

REGEX_PROGRAMS = [
    'x = parse_regex!(.s, r\'(?P<w>\\w+)\')\ny = match(.t, r\'^[a-z]+$\')\nz = replace(.s, r\'o+\', "0")\n[x, y, z]',
    'parse_groks!(.s, patterns: ["%{word:w} %{word:v}", "%{notSpace:all}"]) ?? {}',
    'map_values(.obj, recursive: true) -> |v| { if is_string(v) { upcase!(v) } else { v } }',
]


def post_run(tier, seed, merged):
    if tier != "thorough":
        return
    from .. import sanitize
    from ..gen.program import core_event
    import random
    rng = random.Random(seed)
    evs = [{"e": enc(core_event(rng))} for _ in range(4)]
    reqs = list(merged.get("recorded", []))[:24]
    for src in REGEX_PROGRAMS:
        reqs.append({"op": "threads", "src": src, "probe": False, "events": evs, "threads": 4, "rounds": 3, "yield_mask": 0x5555})
    res = sanitize.tsan_replay(reqs, "C14")
    merged["sanitizers"]["tsan"] = {k: v for k, v in res.items() if k != "stderr"}
    if res["status"] == "report":
        merged["violations"]["tsan:%s@%s" % (res["kind"][:50], res.get("location", "?"))] = {
            "count": res.get("reports", 1), "detail": {"stderr": res.get("stderr")}, "case": {"requests": reqs},
            "index": None, "proc": None}
    # Miri cannot cross the C FFI (onig behind parse_grok(s), zstd): those programs stay with TSan only
    pure = [r for r in reqs if not any(w in r.get("src", "") for w in ("grok", "zstd"))]
    small = [dict(r, threads=3, rounds=1, events=r["events"][:2]) for r in pure[-3:]]
    res = sanitize.miri_replay(small, "C14", many_seeds=4, timeout=5400)
    merged["sanitizers"]["miri_many_seeds"] = {k: v for k, v in res.items() if k != "stderr"}
    if res["status"] == "report":
        merged["violations"]["miri:%s@%s" % (res["kind"][:60], res.get("location", "?"))] = {
            "count": 1, "detail": {"stderr": res.get("stderr")}, "case": {"requests": small}, "index": None, "proc": None}
