"""C15 — read-only paths are never modified.

Monitor: programs are compiled under a `CompileConfig` that marks 1-3 event / metadata paths
(field and index segments, recursive or not) read-only. For accepted programs, events are built in
which the read-only paths exist with sentinel values and arrays have lengths that make negative
indices alias read-only positions; the value at every read-only path is compared before/after
the run: recursive entries deep-equal, non-recursive entries shallowly (same scalar, or same
container type and still present).
"""
import copy

from ..wire import enc, dec, tag, veq
from ..gen import ast as A
from ..gen.program import Opts, core_event, CORE_SCHEMA
from ..gen.lit import path_text
from ..model import value as mv
from . import core_common as cc
from . import full_common as fc

ID = "C15"
LEVEL = "exploration"
BUDGET = {"quick": 30, "thorough": 360}
FLOOR = {"quick": 25, "thorough": 50}
RULE = ("read-only sets of 1-3 paths over the same vocabulary the programs write to x programs biased to "
        "target mutation (assign, |=, del with/without compact, parents, children, siblings, negative and "
        "out-of-range indices, mutating closures) x 3 events with sentinels. Non-trivial: accepted and "
        "performed >= 1 target mutation; distinct by (relation of mutated path to read-only path, op, recursive).")
ASSUMPTIONS = ["non-recursive entries protect the node itself, not its children (shallow comparison)"]
NEVENTS = 3


def opts(ctx):
    return Opts(abort=False, ret=False, bang=True, closures=True, target_bias=0.7, max_stmts=4,
                max_depth=2, closure_fail_p=0.1, markers=False)


def gen_ro(rng):
    out = []
    for _ in range(rng.choice([1, 1, 2, 3])):
        if out and rng.random() < 0.4:
            # an entry related to an earlier one (same path, its parent or a child; either flag): the
            # registration order and overlaps of entries must not weaken what each entry protects
            prefix, segs, rec = rng.choice(out)
            segs = [list(x) for x in segs]
            c = rng.random()
            if c < 0.35 and len(segs) > 1:
                segs = segs[:-1]
            elif c < 0.7:
                segs.append(["i", rng.choice([0, 1, 2])] if rng.random() < 0.35
                            else ["f", rng.choice(["p", "q", "k1", "k2", "extra"])])
            else:
                rec = not rec
            out.append([prefix, segs, rec if c >= 0.7 else rng.random() < 0.6])
            continue
        prefix = "%" if rng.random() < 0.2 else "."
        base = rng.choice(["o1", "o2", "w", "x", "obj", "nest", "o5", "deep"])
        segs = [["f", base]]
        for _ in range(rng.choice([0, 0, 1, 1, 2])):
            if rng.random() < 0.35:
                segs.append(["i", rng.choice([0, 1, 2])])
            else:
                segs.append(["f", rng.choice(["p", "q", "k1", "k2", "extra"])])
        out.append([prefix, segs, rng.random() < 0.5])
    return out


def gen_case(ctx, rng):
    c = fc.gen_full_case(rng, opts(ctx), NEVENTS)
    c["ro"] = gen_ro(rng)
    # make the read-only locations exist (sentinels); arrays get extra length so that negative
    # indices used by programs (-1, -2) alias small positive positions
    events, metas = [], []
    for e in c["events"]:
        ev = dec(e)
        md = {}
        for prefix, segs, rec in c["ro"]:
            sent = rng.choice([b"RO", 777, {"keep": 1, "p": b"s"}, [1, 2, 3], None, True])
            path = [(k, x) for k, x in segs]
            if prefix == ".":
                ev = mv.insert(ev, path, sent)
            else:
                md = mv.insert(md, path, sent)
        events.append(enc(ev))
        metas.append(enc(md))
    c["events"] = events
    c["metas"] = metas
    return c


def relation(op_path, ro):
    prefix, segs, rec = ro
    if op_path["prefix"] != prefix:
        return "other_prefix"
    a = [[("f" if "f" in s else "i"), s.get("f", s.get("i"))] for s in op_path["segs"]]
    n = min(len(a), len(segs))
    if a[:n] == segs[:n]:
        if len(a) == len(segs):
            return "same"
        return "ancestor" if len(a) < len(segs) else "descendant"
    # alias through negative index / sibling
    if len(a) >= 1 and a[:n - 1] == segs[:n - 1]:
        return "sibling_or_alias"
    return "disjoint"


def run_case(ctx, case):
    stmts = case["stmts"]
    ro = case["ro"]
    events = [dec(e) for e in case["events"]]
    metas = [dec(m) for m in case["metas"]]
    src = A.program_src(stmts)
    ro_req = [[path_text(p, [(k, x) for k, x in segs]), rec] for p, segs, rec in ro]
    req = {"op": "run", "src": src, "ro": ro_req, "log_ops": True,
           "events": [{"e": enc(e), "m": enc(m)} for e, m in zip(events, metas)]}
    resp = ctx.call(req)
    if "panic" in resp:
        ctx.skip("compile_panic(C04)")
        return
    if "bad_request" in resp:
        ctx.skip("harness:bad_request")
        return
    if not resp.get("compiled"):
        codes = sorted(set(str(d["code"]) for d in resp.get("diags", []) if d["sev"] == "error"))
        ctx.skip("rejected:E" + "+".join(codes))
        if "315" in codes:
            ctx.count("rejected_for_read_only_mutation")
        return
    ctx.count("programs_accepted")
    for ev, md, run in zip(events, metas, resp["runs"]):
        if "panic" in run:
            ctx.skip("panic(C04)")
            continue
        ev2, md2 = dec(run["event"]), dec(run["meta"])
        bad = None
        for prefix, segs, rec in ro:
            path = [(k, x) for k, x in segs]
            before = mv.get(ev if prefix == "." else md, path)
            after = mv.get(ev2 if prefix == "." else md2, path)
            text = path_text(prefix, path)
            if before[0] != after[0]:
                bad = (text, rec, "presence_changed", before, after)
            elif before[0]:
                if rec:
                    if not veq(before[1], after[1]):
                        bad = (text, rec, "subtree_changed", before, after)
                else:
                    tb, ta = tag(before[1]), tag(after[1])
                    if tb != ta or (tb not in ("array", "object") and not veq(before[1], after[1])):
                        bad = (text, rec, "node_changed", before, after)
            if bad:
                break
        muts = [o for o in run.get("ops", []) if o[0] in ("insert", "remove")]
        if bad is None:
            rels = tuple(sorted(set((relation(o[4], r), o[0], r[2]) for o in muts for r in ro)))[:6]
            ctx.ok(rels, bool(muts), sample={"src": src[:300], "read_only": ro_req, "mutations": [o[:2] for o in muts[:5]]})
            continue
        text, rec, what, before, after = bad
        # cause classification from the mutating ops that share the read-only path's parent
        ro_entry = next(r for r in ro if path_text(r[0], [(k, x) for k, x in r[1]]) == text)
        cands = set()
        root = ev if ro_entry[0] == "." else md
        ro_segs = ro_entry[1]
        for o in muts:
            if o[4]["prefix"] != ro_entry[0]:
                continue
            rel = relation(o[4], ro_entry)
            segs_o = o[4]["segs"]
            neg = any("i" in sg and sg["i"] < 0 for sg in segs_o)
            o_segs = [[("f" if "f" in sg else "i"), sg.get("f", sg.get("i"))] for sg in segs_o]
            k = 0
            while k < min(len(ro_segs), len(o_segs)) and ro_segs[k] == o_segs[k]:
                k += 1
            if rel in ("sibling_or_alias", "disjoint") and neg:
                cands.add("negative_index_alias")
            if k < min(len(ro_segs), len(o_segs)) and o[0] == "insert":
                if ro_segs[k][0] != o_segs[k][0]:
                    cands.add("container_type_replaced")
                else:
                    # an insertion below a value that is not the container its next segment needs
                    # replaces that value by a fresh container (and pads arrays with nulls)
                    at = mv.get(root, [(x, y) for x, y in ro_segs[:k]])
                    need = "array" if o_segs[k][0] == "i" else "object"
                    if at[0] and tag(at[1]) != need:
                        cands.add("container_type_replaced")
                    elif at[0] and need == "array":
                        cands.add("array_padding")
            if rel == "sibling_or_alias" and o[0] == "remove":
                cands.add("array_shift_by_del")
            if rel == "descendant":
                if rec:
                    # the compiler must reject every write below a recursive read-only path
                    cands.add("write_below_recursive_path")
                elif not before[0]:
                    cands.add("child_write_created_node")
                elif tag(before[1]) not in ("array", "object"):
                    # non-recursive entry holding a scalar: inserting / removing a child replaces it
                    cands.add("child_write_replaced_scalar")
                elif (o[0] == "insert" and len(o_segs) > len(ro_segs)
                      and tag(before[1]) != ("array" if o_segs[len(ro_segs)][0] == "i" else "object")):
                    # non-recursive entry holding an array (object): a field (index) child insert replaces it
                    cands.add("container_type_replaced")
                else:
                    cands.add("direct_%s_descendant" % o[0])
            elif rel in ("same", "ancestor"):
                cands.add("direct_%s_%s" % (o[0], rel))
        order = ["write_below_recursive_path", "direct_insert_same", "direct_remove_same", "direct_insert_ancestor",
                 "direct_remove_ancestor", "negative_index_alias", "container_type_replaced",
                 "child_write_replaced_scalar", "child_write_created_node", "array_shift_by_del", "array_padding",
                 "direct_insert_descendant", "direct_remove_descendant"]
        cause = next((c for c in order if c in cands), "other")
        ctx.violation("read_only_modified:%s" % cause,
                      {"src": src, "read_only": ro_req, "path": text, "recursive": rec,
                       "before": repr(before)[:200], "after": repr(after)[:200],
                       "mutations": [o[:2] for o in muts[:8]], "event": repr(ev)[:400]},
                      case=dict(case, events=[enc(ev)], metas=[enc(md)]))
