"""C16 — reported target queries and assignments are complete.

Monitor: programs run against a logging Target (custom `Target` implementation, public trait) via
`Program::resolve` (so `Runtime::resolve`'s own root probe is not in the log); every
`target_get/get_mut/insert/remove` is recorded with its path. Oracle: every read path is equal to,
an ancestor of, or a descendant of some path in `ProgramInfo.target_queries`; every insert path
likewise w.r.t. `target_assignments`; every remove path is covered by queries or assignments.
"""
from ..wire import enc, dec
from ..gen import ast as A
from ..gen.program import Opts
from . import core_common as cc
from . import full_common as fc

ID = "C16"
LEVEL = "exploration"
BUDGET = {"quick": 30, "thorough": 360}
FLOOR = {"quick": 40, "thorough": 80}
RULE = ("grammar-directed programs biased to target-touching constructs (nested path reads/writes, del, "
        "exists, unnest, `ok, err =` to two external targets, metadata paths, closures touching the event); "
        "3 events per program. Non-trivial: >= 1 target op executed; distinct by (op kind, enclosing "
        "construct kinds, path depth class).")
ASSUMPTIONS = ["coverage relation = equal, ancestor or descendant (segment-wise) as the statement says",
               "a deletion must be covered by either list (the weakest demand)"]
NEVENTS = 3


def opts(ctx):
    return Opts(abort=False, ret=False, bang=True, closures=True, target_bias=0.55, max_stmts=5,
                closure_fail_p=0.1, markers=False)


def gen_case(ctx, rng):
    return fc.gen_full_case(rng, opts(ctx), NEVENTS)


def covers(a, b):
    """a, b: {"prefix", "segs"}; True if equal / ancestor / descendant."""
    if a["prefix"] != b["prefix"]:
        return False
    sa, sb = a["segs"], b["segs"]
    n = min(len(sa), len(sb))
    return sa[:n] == sb[:n]


def check_run(resp, run):
    bad = []
    info = resp["info"]
    q, asg = info["query_paths"], info["assignment_paths"]
    for op in run.get("ops", []):
        kind, text, _, _, path = op
        if kind in ("get", "get_mut"):
            if not any(covers(path, x) for x in q):
                bad.append(("unreported_query", text))
        elif kind == "insert":
            if not any(covers(path, x) for x in asg):
                bad.append(("unreported_assignment", text))
        elif kind == "remove":
            if not any(covers(path, x) for x in q + asg):
                bad.append(("unreported_removal", text))
    return bad


def culprit(small):
    kinds = fc.interesting_kinds(small)
    pri = ["unnest", "del", "exists", "assign2", "massign", "closure", "if", "op??"]
    for c in pri:
        if c in kinds:
            return c
    return kinds[0] if kinds else "plain"


def run_case(ctx, case):
    stmts = case["stmts"]
    events = [dec(e) for e in case["events"]]
    src, resp = cc.run_real(ctx, stmts, events, extra={"log_ops": True})
    if "panic" in resp:
        ctx.skip("compile_panic(C04)")
        return
    if not resp.get("compiled"):
        ctx.skip("rejected:E" + "+".join(sorted(set(str(d["code"]) for d in resp.get("diags", []) if d["sev"] == "error"))))
        return
    ctx.count("programs_accepted")
    kinds = fc.interesting_kinds(stmts)
    for event, run in zip(events, resp["runs"]):
        if "panic" in run:
            ctx.skip("panic(C04)")
            continue
        bad = check_run(resp, run)
        ops = run.get("ops", [])
        if not bad:
            opk = tuple(sorted(set(o[0] for o in ops)))
            depth = max([len(o[4]["segs"]) for o in ops] or [0])
            ctx.ok((opk, tuple(k for k in kinds if k in ("closure", "if", "assign2", "del", "exists", "unnest", "op??"))[:5],
                    min(depth, 3)), bool(ops), sample={"src": src[:400], "ops": [o[:2] for o in ops[:6]],
                                                      "queries": resp["info"]["queries"][:6], "assignments": resp["info"]["assignments"][:6]})
            continue
        w0 = bad[0][0]

        def still(cand, event=event):
            _, r2 = cc.run_real(ctx, cand, [event], extra={"log_ops": True})
            if not r2.get("compiled") or "panic" in r2 or "panic" in r2["runs"][0]:
                return False
            return any(w == w0 for w, _ in check_run(r2, r2["runs"][0]))
        small = cc.shrink_full(stmts, still, budget=200)
        _, r2 = cc.run_real(ctx, small, [event], extra={"log_ops": True})
        b2 = check_run(r2, r2["runs"][0]) if r2.get("compiled") else bad
        ctx.violation("%s:%s" % (w0, culprit(small)),
                      {"src": A.program_src(small), "event": repr(event)[:300], "unreported": (b2 or bad)[:3],
                       "queries": r2.get("info", {}).get("queries"), "assignments": r2.get("info", {}).get("assignments")},
                      case={"stmts": small, "events": [enc(event)], "probe_info": {}})
