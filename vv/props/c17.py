"""C17 — target faults are contained.  (level: fault_enumeration)

Monitor: a fault-injecting Target (custom `Target`, public trait) counts operations in issue
order. For a program + event, a baseline run gives the op sequence o_0..o_{n-1} (o_0 is the root
read of `Runtime::resolve`). For every fault set F (all single faults — exhaustive per program —
plus all pairs for short sequences): run A rejects the ops in F with `Err`, run B silently skips
them (read -> Ok(None), write/remove -> not performed). Oracle: A never panics; A and B agree on
outcome class, result value and final event/metadata ("a rejected read behaves as a missing
field, a rejected write or deletion leaves the target unchanged"); rejecting the root read ends
the run with an error.
"""
from ..wire import enc, dec
from ..gen import ast as A
from ..gen.program import Opts
from . import core_common as cc
from . import full_common as fc

ID = "C17"
LEVEL = "fault_enumeration"
BUDGET = {"quick": 30, "thorough": 360}
FLOOR = {"quick": 20, "thorough": 40}
RULE = ("programs biased to target-touching constructs; per program x event: ALL single faults over the "
        "baseline op sequence (n <= 64; exhaustive for that program), all pairs when n <= 10 (thorough: 14). "
        "Non-trivial: the faulted op was reached; distinct by (op kind at the fault, constructs present, "
        "single|pair).")
ASSUMPTIONS = ["deterministic programs only (no random/now)",
               "SkipTarget defines the reference behaviour: rejected read = missing, rejected write/remove = not performed"]
NEVENTS = 2


def opts(ctx):
    return Opts(abort=False, ret=False, bang=True, closures=True, target_bias=0.6, max_stmts=4,
                max_depth=2, closure_fail_p=0.1, markers=False)


def gen_case(ctx, rng):
    return fc.gen_full_case(rng, opts(ctx), NEVENTS)


def outcome_key(run):
    if "panic" in run:
        return ("panic", None)
    o = run["out"]
    k = next(iter(o))
    if k == "ok":
        return ("ok", o["ok"])
    if k == "abort":
        return ("abort", o["abort"])
    return (k, None)


def culprit(small):
    kinds = fc.interesting_kinds(small)
    for c in ["unnest", "del", "exists", "assign2", "massign", "closure", "if", "op??"]:
        if c in kinds:
            return c
    return kinds[0] if kinds else "plain"


def fault_runs(ctx, stmts, event, fault_sets):
    evs = []
    for fs in fault_sets:
        evs.append({"e": enc(event), "faults": list(fs), "fault_mode": "err"})
        evs.append({"e": enc(event), "faults": list(fs), "fault_mode": "skip"})
    src = A.program_src(stmts)
    resp = ctx.call({"op": "run", "src": src, "via": "runtime", "log_ops": True, "events": evs})
    return src, resp


def judge_pair(a, b, fs, base_ops):
    """Returns None or (what, detail)."""
    if "panic" in a:
        return ("panic_on_rejected_op", {"panic": a["panic"]})
    ka, kb = outcome_key(a), outcome_key(b)
    if 0 in fs:
        if ka[0] != "error":
            return ("root_read_rejected_but_no_error", {"outcome": ka[0]})
        return None
    if "panic" in b:
        return None
    if ka != kb:
        return ("outcome_differs", {"rejected": str(ka)[:200], "skipped": str(kb)[:200]})
    if a["event"] != b["event"]:
        return ("event_differs", {"rejected": str(a["event"])[:300], "skipped": str(b["event"])[:300]})
    if a["meta"] != b["meta"]:
        return ("metadata_differs", {"rejected": str(a["meta"])[:300], "skipped": str(b["meta"])[:300]})
    return None


def run_case(ctx, case):
    stmts = case["stmts"]
    events = [dec(e) for e in case["events"]]
    src = A.program_src(stmts)
    base = ctx.call({"op": "run", "src": src, "via": "runtime", "log_ops": True,
                     "events": [{"e": enc(e)} for e in events]})
    if "panic" in base:
        ctx.skip("compile_panic(C04)")
        return
    if not base.get("compiled"):
        ctx.skip("rejected:E" + "+".join(sorted(set(str(d["code"]) for d in base.get("diags", []) if d["sev"] == "error"))))
        return
    ctx.count("programs_accepted")
    kinds = tuple(k for k in fc.interesting_kinds(stmts) if k in ("closure", "if", "assign2", "del", "exists", "unnest", "op??"))[:5]
    maxpair = 14 if ctx.tier == "thorough" else 10
    for event, brun in zip(events, base["runs"]):
        if "panic" in brun:
            ctx.skip("baseline_panic(C04)")
            continue
        ops = brun.get("ops", [])
        n = len(ops)
        if n > 64:
            ctx.skip("too_many_ops")
            continue
        fault_sets = [(k,) for k in range(n)]
        if 2 <= n <= maxpair:
            fault_sets += [(i, j) for i in range(1, n) for j in range(i + 1, n)]
        _, resp = fault_runs(ctx, stmts, event, fault_sets)
        runs = resp["runs"]
        ctx.count("fault_sets_enumerated", len(fault_sets))
        ctx.count("programs_x_events_with_exhaustive_single_faults")
        for idx, fs in enumerate(fault_sets):
            a, b = runs[2 * idx], runs[2 * idx + 1]
            res = judge_pair(a, b, fs, ops)
            opkind = ops[fs[0]][0] if fs[0] < n else "?"
            if res is None:
                reached = a.get("nops", 0) > fs[0]
                ctx.ok((opkind, kinds, "single" if len(fs) == 1 else "pair"), reached,
                       sample={"src": src[:300], "faulted_ops": [ops[k][:2] for k in fs], "outcome": outcome_key(a)[0]})
                continue
            what, detail = res

            def still(cand, event=event):
                s2 = A.program_src(cand)
                b2 = ctx.call({"op": "run", "src": s2, "via": "runtime", "log_ops": True, "events": [{"e": enc(event)}]})
                if not b2.get("compiled") or "panic" in b2 or "panic" in b2["runs"][0]:
                    return False
                n2 = len(b2["runs"][0].get("ops", []))
                if n2 > 40:
                    return False
                sets = [(k,) for k in range(n2)]
                _, r2 = fault_runs(ctx, cand, event, sets)
                for i2, f2 in enumerate(sets):
                    rr = judge_pair(r2["runs"][2 * i2], r2["runs"][2 * i2 + 1], f2, None)
                    if rr is not None and rr[0] == what:
                        return True
                return False
            small = stmts
            if len(fs) == 1:
                small = cc.shrink_full(stmts, still, budget=120)
            ctx.violation("%s:%s:%s" % (what, opkind, culprit(small)),
                          dict(detail, src=A.program_src(small), event=repr(event)[:300], faulted=[ops[k][:2] for k in fs]),
                          case={"stmts": small, "events": [enc(event)], "probe_info": {}})
            break
