"""C18 — value path operations obey get/insert/remove laws.

Monitor: the real `Value::get / insert / remove(prune)` are called through the worker's `value_ops`
request on generated (value, path, inserted value) triples; the laws are checked directly:
L1 get(insert(v,p,x),p) == x; L2 every location of v that neither contains nor is contained in p
is unchanged by the insertion, and every new location is either under p or a null padding element
of an array that an out-of-range index of p extended (negative-index front padding shifts positive
positions by design: siblings are identified by their offset from the end there);
L3 remove(v,p) returns exactly get(v,p) (None <-> None); L4 a path through a non-container
gets/removes nothing and remove leaves v unchanged.
"""
import copy

from ..wire import enc, dec, veq, tag
from ..gen import values as gv
from ..model import value as mv

ID = "C18"
LEVEL = "exploration"
BUDGET = {"quick": 20, "thorough": 240}
FLOOR = {"quick": 60, "thorough": 120}
RULE = ("nested values (depth <= 4) x paths built by walking the value and perturbing (extend, truncate, flip "
        "an index to its from-the-end alias, off-by-one, field<->index, odd field names) x inserted values; "
        "isize extremes only for get/remove. Non-trivial: path has >= 2 segments or a negative index and the "
        "value is non-empty; distinct by (segment-kind vector, existing/missing/through-scalar, pads or not).")
ASSUMPTIONS = ["model/value.py is used only to enumerate locations and walk paths, not as the oracle"]
BATCH = 24
I_MIN = -(1 << 63)


def rand_path(rng, v):
    path = []
    cur = v
    for _ in range(rng.randint(0, 4)):
        if type(cur) is dict and cur and rng.random() < 0.85:
            k = rng.choice(list(cur))
            path.append(("f", k))
            cur = cur[k]
        elif type(cur) is list and cur and rng.random() < 0.85:
            i = rng.randrange(len(cur))
            if rng.random() < 0.4:
                path.append(("i", i - len(cur)))
            else:
                path.append(("i", i))
            cur = cur[i]
        else:
            break
    r = rng.random()
    if r < 0.25:
        for _ in range(rng.randint(1, 2)):
            if rng.random() < 0.5:
                path.append(("f", gv.rand_key(rng)))
            else:
                path.append(("i", rng.choice([0, 1, 2, 3, -1, -2, -3, 5, -5])))
    elif r < 0.35 and path:
        k, x = path[-1]
        if k == "i":
            path[-1] = ("i", x + rng.choice([1, -1, 2]))
        else:
            path[-1] = ("i", rng.choice([0, -1]))
    elif r < 0.42 and path:
        k, x = path[-1]
        path[-1] = ("f", "0") if k == "i" else ("f", x + "x")
    elif r < 0.5 and path:
        path = path[:-1]
    return path


def gen_case(ctx, rng):
    items = []
    for _ in range(BATCH):
        v = gv.rand_value(rng, depth=4, maxlen=4) if rng.random() < 0.9 else gv.rand_scalar(rng)
        path = rand_path(rng, v)
        x = gv.rand_value(rng, depth=2)
        extreme = None
        if rng.random() < 0.05:
            extreme = rng.choice([I_MIN, I_MIN + 1, (1 << 63) - 1, -(1 << 40)])
            path = path[:2] + [("i", extreme)]
        items.append({"v": enc(v), "path": [{"f": x} if k == "f" else {"i": x} for k, x in path],
                      "x": None if extreme is not None else enc(x), "has_x": extreme is None})
    return {"items": items}


def shape(path):
    return "".join("f" if k == "f" else ("n" if x < 0 else "i") for k, x in path)


def disjoint(q, p):
    n = min(len(q), len(p))
    return q[:n] != p[:n]


def run_case(ctx, case):
    for it in case["items"]:
        one = {"items": [it]}
        v = dec(it["v"])
        path = [("f", s["f"]) if "f" in s else ("i", s["i"]) for s in it["path"]]
        req = {"op": "value_ops", "v": it["v"], "path": it["path"]}
        if it["has_x"]:
            req["x"] = it["x"]
        if ctx.tier == "thorough" and len(ctx.recorded) < 12 and len(path) >= 2:
            ctx.record(req)
        r = ctx.call(req)
        if "panic" in r:
            ctx.violation("value_ops:panic@%s" % r["panic"]["loc"].rsplit(":", 1)[0].replace("/repo/", ""),
                          {"v": repr(v)[:200], "path": path, "panic": r["panic"]}, case=one)
            continue
        detail = {"v": repr(v)[:300], "path": path}
        got = (r["get"] is not None, dec(r["get"]["v"]) if r["get"] is not None else None)
        # model is used for classification only
        mfound, _ = mv.get(v, path)
        through_scalar = False
        cur = v
        for k, x in path:
            if (k == "f" and type(cur) is not dict) or (k == "i" and type(cur) is not list):
                through_scalar = True
                break
            f2, cur = mv.get(cur, [(k, x)])
            if not f2:
                break
        bad = None
        # L3 / L4
        for name in ("rem0", "rem1"):
            ret = r[name]["ret"]
            rv = (ret is not None, dec(ret["v"]) if ret is not None else None)
            if rv[0] != got[0] or (got[0] and not veq(rv[1], got[1])):
                if path:   # root removal returns the (emptied) collection itself by design
                    bad = ("L3_remove_returns_get:%s" % name, {"get": repr(got)[:200], "removed": repr(rv)[:200]})
            if through_scalar:
                if got[0]:
                    bad = ("L4_get_through_non_container", {"get": repr(got)[:200]})
                if not veq(dec(r[name]["val"]), v):
                    bad = ("L4_remove_through_non_container_changed_value", {"after": repr(dec(r[name]["val"]))[:200]})
            if not got[0] and not veq(dec(r[name]["val"]), v):
                bad = ("L3_remove_of_missing_changed_value:%s" % name, {"after": repr(dec(r[name]["val"]))[:200]})
        pads = False
        if it["has_x"] and bad is None:
            x = dec(it["x"])
            ins = r["ins"]
            w = dec(ins["val"])
            g2 = ins["get"]
            if g2 is None or not veq(dec(g2["v"]), x):
                bad = ("L1_get_after_insert", {"inserted": repr(x)[:200], "read_back": repr(g2)[:200], "after": repr(w)[:300]})
            else:
                # L2: old locations disjoint from p keep their content (negative-index segments
                # that pad are compared from the end)
                neg_pad = False
                cur = v
                for k, xx in path:
                    if k == "i" and type(cur) is list and xx < 0 and -xx > len(cur):
                        neg_pad = True
                    if k == "i" and type(cur) is list and xx >= len(cur):
                        pads = True
                    f2, cur = mv.get(cur, [(k, xx)])
                    if not f2:
                        break
                pads = pads or neg_pad
                # canonical form of p against v: negative indices that hit an existing element are
                # rewritten to the element's position, so that aliases are recognised
                canon = []
                cur = v
                alive = True
                for k, xx in path:
                    if alive and k == "i" and type(cur) is list and xx < 0 and -xx <= len(cur):
                        xx = len(cur) + xx
                    canon.append((k, xx))
                    if alive:
                        f2, cur = mv.get(cur, [(k, xx)])
                        alive = f2
                if neg_pad and bad is None:
                    # front padding: elements of the padded array keep their offset from the END;
                    # everything outside that array keeps its location
                    cur = v
                    P = []
                    for k, xx in canon:
                        if k == "i" and type(cur) is list and xx < 0 and -xx > len(cur):
                            break
                        P.append((k, xx))
                        f2, cur = mv.get(cur, [(k, xx)])
                        if not f2:
                            break
                    fo, old_arr = mv.get(v, P)
                    fn_, new_arr = mv.get(w, P)
                    if fo and fn_ and type(old_arr) is list and type(new_arr) is list:
                        delta = len(new_arr) - len(old_arr)
                        for q, content in mv.locations(v, limit=200):
                            qq = [tuple(sg) for sg in q]
                            if len(qq) <= len(P) and qq == P[:len(qq)]:
                                continue                      # ancestors of the padded array contain p
                            if qq[:len(P)] == P:
                                q2 = P + [("i", qq[len(P)][1] + delta)] + qq[len(P) + 1:]
                            else:
                                q2 = qq
                            f3, c3 = mv.get(w, q2)
                            if not f3 or not veq(c3, content):
                                bad = ("L2_sibling_moved_by_front_padding", {"location": qq, "expected_at": q2,
                                                                             "before": repr(content)[:150], "after": repr(c3)[:150]})
                                break
                        if bad is None and any(e is not None for e in new_arr[1:delta]):
                            bad = ("L2_front_padding_not_null", {"array_after": repr(new_arr)[:200]})
                if not neg_pad:
                    path_c = canon
                    for q, content in mv.locations(v, limit=200):
                        qq = [tuple(s) for s in q]
                        if not qq or not disjoint(qq, path_c):
                            continue
                        # a location below a non-container that p replaces on its way is "contained"
                        f3, c3 = mv.get(w, qq)
                        if not f3 or not veq(c3, content):
                            # allowed only if an ancestor of q (sharing a prefix with p) was a non-container
                            # replaced by the insertion: then q is not disjoint in the tree sense
                            k = 0
                            while k < min(len(qq), len(path_c)) and qq[k] == path_c[k]:
                                k += 1
                            anc_found, anc = mv.get(v, path_c[:k])
                            nxt = path_c[k] if k < len(path_c) else None
                            replaced = nxt is not None and ((nxt[0] == "f" and type(anc) is not dict) or (nxt[0] == "i" and type(anc) is not list))
                            if not replaced:
                                bad = ("L2_disjoint_location_changed", {"location": qq, "before": repr(content)[:150],
                                                                        "after": repr(c3)[:150], "inserted": repr(x)[:100]})
                                break
                    if bad is None:
                        # canonical form of p against the result (every segment resolves there)
                        path_w = []
                        cur = w
                        for k, xx in path:
                            if k == "i" and type(cur) is list and xx < 0 and -xx <= len(cur):
                                xx = len(cur) + xx
                            path_w.append((k, xx))
                            _, cur = mv.get(cur, [(k, xx)])
                        for q, content in mv.locations(w, limit=200):
                            qq = [tuple(sg) for sg in q]
                            if not qq or not disjoint(qq, path_w):
                                continue
                            f3, c3 = mv.get(v, qq)
                            if f3 and veq(c3, content):
                                continue
                            if content is None and not f3:
                                continue        # null padding of an extended array
                            if not f3:
                                # below a padding null? impossible; below a replaced scalar: contained in p
                                k = 0
                                while k < min(len(qq), len(path_c)) and qq[k] == path_c[k]:
                                    k += 1
                                bad = ("L2_new_location_outside_path", {"location": qq, "content": repr(content)[:150]})
                                break
        if bad:
            ctx.violation("%s:%s" % (bad[0], shape(path)[:4]), dict(detail, **bad[1]), case=one)
            continue
        nontrivial = (len(path) >= 2 or any(k == "i" and x < 0 for k, x in path)) and v not in (None, [], {})
        state = "through_scalar" if through_scalar else "existing" if got[0] else "missing"
        ctx.ok((shape(path), state, pads), nontrivial,
               sample={"v": repr(v)[:120], "path": path, "get": repr(got)[:80]})


def post_run(tier, seed, merged):
    """Thorough: the recorded value_ops requests replayed under Miri (pure Rust path code)."""
    if tier != "thorough":
        return
    from .. import sanitize
    reqs = list(merged.get("recorded", []))[:120]
    if not reqs:
        return
    res = sanitize.miri_replay(reqs, "C18", timeout=3600)
    merged["sanitizers"]["miri"] = {k: v for k, v in res.items() if k != "stderr"}
    if res["status"] == "report":
        merged["violations"]["miri:%s@%s" % (res["kind"][:60], res.get("location", "?"))] = {
            "count": 1, "detail": {"stderr": res.get("stderr")}, "case": {"requests": reqs}, "index": None, "proc": None}
