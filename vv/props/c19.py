"""C19 — type abstraction is sound for path operations and merging.

Monitor: random kinds K (unions of primitives, arrays/objects with known indices/fields and
exact, undefined-only or infinite `any`/`json` unknowns) are built in the worker through the
public `Kind` builders and exported back through the public accessors; members are drawn by an
independent sampler and (re)checked by the independent membership predicate (model/kind.py). The
real type-level operation and the real value-level operation are then both performed by the worker
and the oracle checks: G get/at_path, I insert, R remove (with/without prune), U union in both
orders, M merge (both strategies) of objects, S is_superset vs sampled members and vs singleton kinds.
"""
from ..wire import enc, dec, tag
from ..gen import values as gv
from ..model import kind as K
from ..model import value as mv

ID = "C19"
LEVEL = "exploration"
BUDGET = {"quick": 30, "thorough": 360}
FLOOR = {"quick": 80, "thorough": 160}
RULE = ("random kind K (depth <= 3) x member v sampled from K x path (walking v, perturbed; |index| <= 6) x "
        "inserted kind X with member x x second kind K2 with member w. Non-trivial: K has a collection with "
        "known entries or a non-trivial unknown, and the path is non-root; distinct by (law, segment-kind "
        "vector, unknown flavour at the touched collection, prune).")
ASSUMPTIONS = ["model/kind.py membership is the reference for value ∈ Kind; the sampler's output is re-checked by it",
               "kind-level paths use |index| <= 6 (negative-index kind operations loop over the required length)"]
PRIMS = ["bytes", "integer", "float", "boolean", "timestamp", "regex", "null"]
KEYS = ["a", "b", "c", "a b"]


def gen_kind(rng, d, allow_undefined=False):
    k = {"p": [p for p in PRIMS if rng.random() < 0.25]}
    if allow_undefined and rng.random() < 0.3:
        k["p"].append("undefined")
    if d > 0:
        for c in ("a", "o"):
            if rng.random() < 0.45:
                known = {}
                if c == "a":
                    n = rng.choice([0, 0, 1, 2, 3])
                    for i in range(n):
                        known[str(i)] = gen_kind(rng, d - 1, allow_undefined=rng.random() < 0.3)
                else:
                    for key in rng.sample(KEYS, rng.choice([0, 1, 2, 3])):
                        known[key] = gen_kind(rng, d - 1, allow_undefined=True)
                u = rng.random()
                if u < 0.3:
                    unk = {"p": ["undefined"]}
                elif u < 0.55:
                    unk = gen_kind(rng, d - 1)
                elif u < 0.8:
                    unk = {"inf": "any"}
                else:
                    unk = {"inf": "json"}
                k[c] = {"k": known, "u": unk}
    if not k["p"] and "a" not in k and "o" not in k:
        k["p"] = [rng.choice(PRIMS)]
    return k


def rand_path(rng, v):
    path = []
    cur = v
    for _ in range(rng.randint(0, 3)):
        if type(cur) is dict and cur and rng.random() < 0.8:
            key = rng.choice(list(cur))
            path.append({"f": key})
            cur = cur[key]
        elif type(cur) is list and cur and rng.random() < 0.8:
            i = rng.randrange(min(len(cur), 6))
            path.append({"i": i - len(cur) if (rng.random() < 0.35 and len(cur) <= 6) else i})
            cur = cur[i]
        else:
            break
    r = rng.random()
    if r < 0.3:
        path.append({"f": rng.choice(KEYS + ["zz"])} if rng.random() < 0.6 else {"i": rng.choice([0, 1, 2, 4, -1, -2, -4])})
    elif r < 0.4 and path:
        path = path[:-1]
    return path[:4]


def gen_case(ctx, rng):
    for _ in range(20):
        kspec = gen_kind(rng, 3)
        try:
            v = K.sample(K.normalise(kspec), rng, depth=3)
        except K.NoMember:
            continue
        break
    else:
        return None
    path = rand_path(rng, v)
    xk = gen_kind(rng, 2)
    try:
        x = K.sample(K.normalise(xk), rng, depth=2)
    except K.NoMember:
        xk, x = {"p": ["integer"]}, 7
    k2 = gen_kind(rng, 3)
    try:
        w = K.sample(K.normalise(k2), rng, depth=3)
    except K.NoMember:
        k2, w = {"p": ["null"]}, None
    return {"k": kspec, "v": enc(v), "path": path, "xk": xk, "x": enc(x), "k2": k2, "w": enc(w)}


def unknown_flavour(k):
    out = []
    for c in ("a", "o"):
        if c in k:
            u = k[c].get("u")
            out.append(c + ("inf" if isinstance(u, dict) and "inf" in u else "und" if u == {"p": ["undefined"]} else "exact"))
    return "+".join(out) or "scalar"


def why_class(det, path):
    """How the value falls outside the kind (first reason given by the membership predicate)."""
    why = det.get("why") or []
    if not why:
        return "na"
    w0 = why[0]
    if "not within infinite" in w0:
        # a collection unknown collapsed to vrl's "json" unknown although nested values are not JSON
        return "json_collapse"
    if "missing but does not admit undefined" in w0:
        import re
        m = re.search(r"known (?:object|array)\[(.*)\] missing", w0)
        key = m.group(1) if m else None
        on_path = [str(sg.get("f", sg.get("i"))) for sg in path[:-1]]
        if key is not None and key in on_path and len(why) == 1 + on_path.index(key):
            # the runtime removal pruned an emptied ancestor that the kind still requires
            return "required_ancestor_pruned"
        return "required_entry_missing"
    if "not in [" in w0 or "not admitted" in w0:
        return "kind_not_admitted"
    return "other"


# ---------------------------------------------------------------------------------------------
# small-scope exhaustive tier: every failing (kind, path) of a finite family is its own finding,
# keyed by the exact input — a change that breaks one more input of the family is a new signature,
# however many random-kind failures of the same law are already listed.

def small_cases():
    def arr(n, tail):
        known = {str(i): {"p": ["integer"]} for i in range(n)}
        unk = {"und": {"p": ["undefined"]}, "int": {"p": ["integer"]}, "bytes": {"p": ["bytes"]}}[tail]
        return {"k": known, "u": unk}
    out = []
    for n in (0, 1, 2):
        for tail in ("und", "int", "bytes"):
            lens = [n] if tail == "und" else [n, n + 1, n + 2]
            for ln in lens:
                val = [1] * n + [(2 if tail == "int" else b"x")] * (ln - n)
                for wrap in ("root", "field", "nested"):
                    for idx in (-3, -2, -1, 0, 1, 2):
                        a = arr(n, tail)
                        if wrap == "root":
                            k, v, path = {"p": [], "a": a}, val, [{"i": idx}]
                        elif wrap == "field":
                            k = {"p": [], "o": {"k": {"a": {"p": [], "a": a}}, "u": {"p": ["undefined"]}}}
                            v, path = {"a": val}, [{"f": "a"}, {"i": idx}]
                        else:
                            # array of arrays: the inner array is element 0 of an outer known array
                            k = {"p": [], "a": {"k": {"0": {"p": [], "a": a}}, "u": {"p": ["undefined"]}}}
                            v, path = [val], [{"i": 0}, {"i": idx}]
                        out.append({"k": k, "v": enc(v), "path": path, "xk": {"p": ["integer"]}, "x": enc(7),
                                    "k2": {"p": ["null"]}, "w": enc(None),
                                    "small": "%s:n%d:%s:len%d:%d" % (wrap, n, tail, ln, idx)})
    return out


def run_all(ctx):
    cases = small_cases()
    for i, case in enumerate(cases):
        if i % ctx.nprocs != ctx.proc:
            continue
        ctx.cur_case = case
        ctx.cur_index = -1 - i
        run_case(ctx, case)
    ctx.count("small_scope_cases", len([i for i in range(len(cases)) if i % ctx.nprocs == ctx.proc]))
    if ctx.proc == 0:
        ctx.extra["small_scope_total"] = len(cases)


def run_case(ctx, case):
    r = ctx.call({"op": "kind_ops", "k": case["k"], "k2": case["k2"], "xk": case["xk"], "path": case["path"],
                  "v": case["v"], "x": case["x"], "w": case["w"]})
    if "bad_request" in r:
        ctx.skip("harness:bad_request")
        return
    v, x, w = dec(case["v"]), dec(case["x"]), dec(case["w"])
    path = case["path"]
    shape = "".join("f" if "f" in s else ("n" if s["i"] < 0 else "i") for s in path) or "root"
    ek, ek2, exk = r["k"], r["k2"], r["xk"]
    if not K.member(v, ek) or not K.member(x, exk) or not K.member(w, ek2):
        ctx.skip("sampler_or_builder_mismatch")
        return
    flav = unknown_flavour(ek)
    base = {"kind": K.short(ek, 3), "value": repr(v)[:200], "path": path}
    viol = []

    def panic_of(j):
        return isinstance(j, dict) and "panic" in j

    for key in ("at", "get", "ins", "rem0", "rem1"):
        if panic_of(r.get(key)):
            loc = r[key]["panic"]["loc"].rsplit(":", 1)[0].replace("/repo/", "")
            ctx.violation("kind_op_panic:%s@%s" % (key.rstrip("01"), loc), dict(base, panic=r[key]["panic"]))
            return
    vo = r["vops"]
    got = vo["get"]
    # G
    if got is not None:
        gv_ = dec(got["v"])
        why = []
        if not K.member(gv_, r["at"], False, why):
            viol.append(("G_at_path", {"read": repr(gv_)[:150], "at_path": K.short(r["at"], 3), "why": why[:3]}))
        why = []
        if not K.member(gv_, r["get"], True, why):
            viol.append(("G_get", {"read": repr(gv_)[:150], "get_kind": K.short(r["get"], 3), "why": why[:3]}))
    else:
        if not K.admits_undefined(r["at"]):
            viol.append(("G_at_path_absent_not_admitted", {"at_path": K.short(r["at"], 3)}))
        if not (K.admits_undefined(r["get"]) or "null" in r["get"].get("p", [])):
            viol.append(("G_get_absent_not_admitted", {"get_kind": K.short(r["get"], 3)}))
    # I
    if "ins" in r and "ins" in vo and path:
        nv = dec(vo["ins"]["val"])
        why = []
        if not K.member(nv, r["ins"], False, why):
            viol.append(("I_insert", {"inserted": repr(x)[:100], "inserted_kind": K.short(exk, 2), "after": repr(nv)[:200],
                                      "kind_after": K.short(r["ins"], 3), "why": why[:3]}))
    # R
    for name in ("rem0", "rem1"):
        kv = r[name]
        vv = vo[name]
        nv = dec(vv["val"])
        why = []
        if not K.member(nv, kv["kind"], False, why):
            viol.append(("R_remove_%s" % ("prune" if name == "rem1" else "noprune"),
                         {"after": repr(nv)[:200], "kind_after": K.short(kv["kind"], 3), "why": why[:3]}))
        if vv["ret"] is not None:
            rv = dec(vv["ret"]["v"])
            why = []
            if not K.member(rv, kv["ret"], True, why):
                viol.append(("R_removed_value_%s" % name, {"removed": repr(rv)[:150], "kind": K.short(kv["ret"], 3), "why": why[:3]}))
    # U
    for name in ("union", "union_rev"):
        for val, which in ((v, "lhs"), (w, "rhs")):
            why = []
            if not K.member(val, r[name], False, why):
                viol.append(("U_%s_loses_%s_member" % (name, which), {"member": repr(val)[:150], "other": K.short(ek2, 3),
                                                                       "union": K.short(r[name], 3), "why": why[:3]}))
    # M (objects only)
    if type(v) is dict and type(w) is dict:
        merged = dict(v)
        merged.update(w)
        merged = dict(sorted(merged.items(), key=lambda kv: kv[0].encode()))
        why = []
        if not K.member(merged, r["merge_overwrite"], False, why):
            viol.append(("M_merge_overwrite", {"a": repr(v)[:120], "b": repr(w)[:120], "kind_b": K.short(ek2, 3),
                                               "merged_kind": K.short(r["merge_overwrite"], 3), "why": why[:3]}))
    # S
    if r["sup"] and not K.member(w, ek):
        viol.append(("S_superset_but_member_not_contained", {"member_of_k2": repr(w)[:150], "k2": K.short(ek2, 3)}))
    if r["sup_rev"] and not K.member(v, ek2):
        viol.append(("S_superset_but_member_not_contained", {"member_of_k": repr(v)[:150], "k2": K.short(ek2, 3)}))
    mw = K.member(w, ek)
    if r["sup_w"] != mw:
        viol.append(("S_singleton_%s" % ("superset_but_not_member" if r["sup_w"] else "member_but_not_superset"),
                     {"w": repr(w)[:150], "from_w": K.short(r["from_w"], 3)}))
    if not r["sup_v"]:
        viol.append(("S_singleton_member_but_not_superset", {"w": repr(v)[:150], "from_w": K.short(r["from_v"], 3)}))
    if viol:
        neg = "negative_index" if any("i" in sg and sg["i"] < 0 for sg in path) else "plain_path"
        seen = set()
        for law, det in viol:
            if case.get("small"):
                if law[0] not in "GIR":
                    continue       # the second kind is trivial in the small-scope family
                sig = "small:%s:%s" % (law, case["small"])
                if sig not in seen:
                    seen.add(sig)
                    ctx.violation(sig, dict(base, **det))
                continue
            sig = "%s:%s" % (law, neg) if law[0] in "GIR" else law
            sig += ":" + why_class(det, path)
            if sig not in seen:
                seen.add(sig)
                ctx.violation(sig, dict(base, **det))
        return
    nontrivial = bool(path) and ("a" in ek or "o" in ek)
    for law in ("G", "I", "R", "U", "S") + (("M",) if type(v) is dict and type(w) is dict else ()):
        ctx.ok((law, shape, flav), nontrivial, sample={"kind": K.short(ek, 2), "value": repr(v)[:100], "path": path})
