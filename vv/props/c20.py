"""C20 — paths round-trip through text and all path parsers agree.

Monitor: (1) random `OwnedValuePath` / `OwnedTargetPath` values (field strings over all of Unicode
plus quotes, backslashes, dots, brackets, empty string, leading digits/dashes; indices over the
whole isize range) are rendered to text by the real `Display`/`String::from` and parsed back by
`parse_value_path` / `parse_target_path` / `FromStr`: the result must equal the original;
(2) the rendered text, and short texts over the path alphabet, are parsed both by the VRL parser
(`vrl::parser::parse`, a program consisting of one bare path query) and by the path-string parser:
when both accept, prefix and segments must be identical. Texts either side rejects are counted,
not judged (`.a-b` is a subtraction in VRL). An exhaustive sub-space (all texts up to a length
bound over a 15-symbol alphabet) is enumerated inside the worker.
"""
from ..gen import values as gv

ID = "C20"
LEVEL = "exploration"
BUDGET = {"quick": 25, "thorough": 300}
FLOOR = {"quick": 40, "thorough": 60}
RULE = ("random owned paths (>= 1 segment) round-tripped through text and through both parsers; plus the "
        "exhaustive set of texts of length <= 4 (quick) / <= 5 (thorough) over the alphabet "
        "`. % a B 0 7 _ @ - \" \\\\ [ ] space é`, sharded over the processes. Non-trivial: both parsers accepted / "
        "the path has a field that needs quoting or a negative index; distinct by (segment-kind vector, "
        "quoting needed, which check).")
ASSUMPTIONS = ["a 0-segment value path has no text form; the root is covered through target paths"]
ALPHABET = [".", "%", "a", "B", "0", "7", "_", "@", "-", "\"", "\\", "[", "]", " ", "é"]
EXHAUSTIVE = True
I_MIN, I_MAX = -(1 << 63), (1 << 63) - 1
FIELD_POOL = ["{{", "a{{b}}", "{", "}}", "a", "b", "foo", "a b", "a.b", "", "0", "7up", "-x", "a-b", "@t", "_", "é", "日本", "\"q\"", "a\"b", "a\\b",
              "\\", "\\\"", "a[0]", "[", "]", "%", ".", "..", " ", "\n", "\t", "😀", "A_1", "null", "true", "if", "a\\\\"]


def run_all(ctx):
    maxlen = 5 if ctx.tier == "thorough" else 4
    r = ctx.call({"op": "path_exhaustive", "alphabet": ALPHABET, "maxlen": maxlen, "shard": ctx.proc,
                  "shards": ctx.nprocs}, cpu_limit=600, wall_limit=900)
    ctx.count("exhaustive_texts", r["total"])
    ctx.count("exhaustive_both_accept", r["both"])
    ctx.count("exhaustive_vrl_only", r["vrl_only"])
    ctx.count("exhaustive_path_parser_only", r["jit_only"])
    ctx.count("exhaustive_shards_done")
    for p in r["panics"]:
        ctx.violation("path_parse:panic@%s" % p["panic"]["loc"].rsplit(":", 1)[0].replace("/repo/", ""), p,
                      case={"text": p["text"]})
    for d in r["disagreements"]:
        ctx.violation("parsers_disagree:%s" % text_class(d["text"]), d, case={"text": d["text"]})
    for s in r["samples"]:
        ctx.ok(("exhaustive", s["text"][:1], len(s["path"]["segs"])), True, sample=s)
    ctx.evaluations += r["both"]
    if ctx.proc == 0:
        ctx.extra["exhaustive_complete"] = 1


def text_class(t):
    cls = []
    if "{{" in t:
        return "template_braces"
    if "\"" in t:
        cls.append("quoted")
    if "\\" in t:
        cls.append("backslash")
    if "[" in t:
        cls.append("index")
    if "-" in t:
        cls.append("dash")
    if any(ord(c) > 127 for c in t):
        cls.append("nonascii")
    if " " in t:
        cls.append("space")
    return "+".join(cls) or "plain"


def rand_field(rng):
    r = rng.random()
    if r < 0.6:
        return rng.choice(FIELD_POOL)
    return gv.rand_text(rng, 6, unicode_p=0.3)


def gen_case(ctx, rng):
    segs = []
    for _ in range(rng.randint(1, 4)):
        if rng.random() < 0.65:
            segs.append({"f": rand_field(rng)})
        else:
            segs.append({"i": rng.choice([0, 1, 2, -1, -2, 10, I_MIN, I_MAX, rng.randint(-1000, 1000), rng.randint(I_MIN, I_MAX)])})
    text = None
    if rng.random() < 0.3:
        n = rng.randint(1, 9)
        text = rng.choice([".", "%"]) + "".join(rng.choice(ALPHABET + ["a", "b", "0", ".", "[", "]", "\""]) for _ in range(n))
    return {"segs": segs, "text": text}


def needs_quote(f):
    return not f or not all(c.isascii() and (c.isalnum() or c in "_@") for c in f) or f[0].isdigit()


def run_case(ctx, case):
    if "segs" not in case:
        r = ctx.call({"op": "path_ops", "text": case["text"]})
        if "segs" in r["vrl"] and "segs" in r["jit"] and r["vrl"] != r["jit"]:
            ctx.violation("parsers_disagree:%s" % text_class(case["text"]), {"text": case["text"], "vrl": r["vrl"], "jit": r["jit"]})
        return
    req = {"op": "path_ops", "segs": case["segs"]}
    if case.get("text"):
        req["text"] = case["text"]
    r = ctx.call(req)
    if "panic" in r:
        ctx.violation("path_ops:panic@%s" % r["panic"]["loc"].rsplit(":", 1)[0].replace("/repo/", ""),
                      {"segs": case["segs"], "panic": r["panic"]})
        return
    shape = "".join("f" if "f" in s else ("n" if s["i"] < 0 else "i") for s in case["segs"])
    quoting = any("f" in s and needs_quote(s["f"]) for s in case["segs"])
    fclass = sorted(set(text_class(s["f"]) for s in case["segs"] if "f" in s and needs_quote(s["f"])))
    if "template_braces" in fclass:
        fclass = ["template_braces"]
    else:
        fclass = sorted(set("+".join(fclass).split("+")) - {""})
    detail = {"segs": case["segs"], "text": r.get("vp_text")}
    for key, name in (("vp_reparsed", "value_path"), ("vp_fromstr", "value_path_fromstr")):
        rr = r.get(key, {})
        if rr.get("rejected"):
            ctx.violation("roundtrip:%s:rendered_text_rejected:%s" % (name, "+".join(fclass) or "plain"), detail)
            return
        if not rr.get("equal", True):
            ctx.violation("roundtrip:%s:reparsed_differs:%s" % (name, "+".join(fclass) or "plain"), dict(detail, reparsed=rr))
            return
    for key in ("tp_event", "tp_meta"):
        t = r[key]
        d2 = dict(detail, text=t["text"])
        if t["reparsed"].get("rejected"):
            ctx.violation("roundtrip:target_path:rendered_text_rejected:%s" % ("+".join(fclass) or "plain"), d2)
            return
        if not t["reparsed"].get("equal", True):
            ctx.violation("roundtrip:target_path:reparsed_differs:%s" % ("+".join(fclass) or "plain"), dict(d2, reparsed=t["reparsed"]))
            return
        v = t["vrl"]
        if "segs" in v:
            want = {"prefix": "." if key == "tp_event" else "%", "segs": case["segs"]}
            if v != want:
                ctx.violation("vrl_parser_reads_rendered_path_differently:%s" % ("+".join(fclass) or "plain"), dict(d2, vrl=v))
                return
            ctx.ok((shape, quoting, "vrl_agrees"), True, sample={"text": t["text"], "segs": case["segs"]})
        else:
            ctx.count("rendered_path_not_a_bare_vrl_query")
            ctx.ok((shape, quoting, "roundtrip_only"), quoting or "n" in shape)
    if case.get("text"):
        if "segs" in r["vrl"] and "segs" in r["jit"]:
            if r["vrl"] != r["jit"]:
                ctx.violation("parsers_disagree:%s" % text_class(case["text"]), {"text": case["text"], "vrl": r["vrl"], "jit": r["jit"]})
                return
            ctx.ok(("text", text_class(case["text"])), True)
        else:
            ctx.count("text_rejected_by_one_side")
