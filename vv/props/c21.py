"""C21 — JSON encoding round-trips.

Monitor: JSON-representable values (null/bool/i64/finite float/UTF-8 string, arrays, objects with
arbitrary Unicode keys, any nesting) are delivered runtime-typed through the event; the real
runtime evaluates `parse_json(encode_json(.v))` for the compact and the pretty encoder, with
`lossy: false` and with `max_depth: 128`; the same values go through the worker's `serde` op
(`serde_json::to_string(&Value)` / `from_str::<Value>`).

Oracle (independent of vrl): round-trip identity -- the decoded value must be structurally equal
to the original (strict kinds: 1 != 1.0), floats may differ by at most one unit in the last place.
Python's `json.loads` decodes the text vrl produced; it never decides *whether* the property is
violated, only *which side* is at fault (encoder: the text does not denote the value / decoder).
On a violation the witness is shrunk (children, single characters) by re-running the same oracle.
"""
import json
import math
import sys

from ..wire import enc, dec, tag, f2bits, bits2f
from ..gen import values as gv

ID = "C21"
LEVEL = "exploration"
BUDGET = {"quick": 20, "thorough": 240}
MEMCHECK = {"requests": 300, "stride": 10}    # thorough: valgrind memcheck over a sample of the workload
FLOOR = {"quick": 40, "thorough": 80}
RULE = ("random nested JSON-representable values (full i64 range, finite floats incl. integral-valued, "
        "17-significant-digit, subnormal, 1e+-308; strings/keys with control characters, quotes, "
        "backslashes, U+2028/9, BOM, noncharacters, astral planes, NFC/NFD twins, empty keys; nesting "
        "built in-program up to 200 levels) x {compact, pretty, lossy:false, max_depth:128, serde}. "
        "Non-trivial: the value contains a float needing > 15 significant digits, an integer beyond "
        "2^53, a string/key that is non-ASCII or needs escaping, or nesting >= 3; distinct by "
        "(top-level kind, feature set, depth class).")
ASSUMPTIONS = ["Python json.loads is a correct JSON decoder with exactly-rounded float parsing (used "
               "only to attribute a fault to encoder or decoder)",
               "the wire format of the worker is lossless (bit-exact floats, byte-exact strings)",
               "nesting beyond 120 levels is judged only when parse_json accepts the text (serde_json's "
               "documented recursion limit of 128 is treated as outside the domain: counted as skip)",
               "loss of the sign of zero is not judged (vrl's Value equality identifies 0.0 and -0.0); counted"]

BATCH = 40
MAX_JUDGED_DEPTH = 120

VARIANTS = ["compact", "pretty", "lossy_false", "max_depth"]

PROGRAM_BODY = (
    "t1 = encode_json(v)\n"
    "r1, e1 = parse_json(t1)\n"
    "t2 = encode_json(v, pretty: true)\n"
    "r2, e2 = parse_json(t2)\n"
    "r3, e3 = parse_json(t1, lossy: false)\n"
    "r4, e4 = parse_json(t2, max_depth: 128)\n"
    "[[t1, r1, e1], [t2, r2, e2], [t1, r3, e3], [t2, r4, e4]]"
)

# ----------------------------------------------------------------------------------------
# generators

SPECIAL_CHARS = [
    "\x00", "\x01", "\x07", "\x08", "\t", "\n", "\x0b", "\x0c", "\r", "\x1b", "\x1f", "\x7f",
    '"', "\\", "/", "\x80", "\x9f", "\xa0", "\xad",
    " ", " ", "﻿", "�", "￾", "￿", "﷐",
    "\U0001f600", "\U00010000", "\U0010ffff", "\U0001fffe", "\U000e0001", "\U0002a6d6",
    "é", "é", "ẞ", "ß", "İ", "ı", "ǆ", "​", "‍", "‮",
    "퟿", "", "", "\u0000a", "\\u0041", "\\n", "\\\"", "\\\\", "\"\"", "'", "　",
]
LOOKALIKES = ["1", "-0", "1e5", "1.0", "NaN", "Infinity", "null", "true", "false", "{}", "[]", "{\"a\":1}",
              "\"", "\\", "1e400", "0x10", "", " ", "﻿{}", "﻿"]
KEY_POOL = ["", "a", "b", "A", "k", "a.b", "a b", "0", "1", "-1", "é", "é", "Å", "Å",
            "Å", "\"q\"", "a\\b", "\n", "\x00", "﻿", " ", "\U0001f600", "$", "@t", "_",
            "￿", " ", "a\x00b", "K", "k̇", "ẞ", "ss", "ß"]


def gen_string(rng, maxlen=14):
    r = rng.random()
    if r < 0.08:
        return rng.choice(LOOKALIKES)
    if r < 0.16:
        return rng.choice(SPECIAL_CHARS)
    if r < 0.30:
        return gv.rand_text(rng, maxlen, unicode_p=0.0)
    if r < 0.93:
        n = rng.randint(0, maxlen)
        p_special = rng.choice([0.1, 0.3, 0.7, 1.0])
        out = []
        for _ in range(n):
            q = rng.random()
            if q < p_special:
                out.append(rng.choice(SPECIAL_CHARS))
            elif q < p_special + 0.1:
                out.append(rng.choice(gv.UNI))
            elif q < p_special + 0.15:
                # any scalar value except surrogates
                while True:
                    c = rng.randint(0, 0x10FFFF)
                    if not 0xD800 <= c <= 0xDFFF:
                        break
                out.append(chr(c))
            else:
                out.append(rng.choice(gv.ALPHA))
        return "".join(out)
    # long
    unit = gen_string(rng, 6) or "x"
    return (unit * rng.randint(20, 200))[:rng.choice([127, 128, 129, 255, 256, 1000, 4097])]


def gen_key(rng):
    r = rng.random()
    if r < 0.55:
        return rng.choice(KEY_POOL)
    if r < 0.75:
        return rng.choice(gv.SIMPLE_KEYS)
    return gen_string(rng, 6)


FLOAT_EXTRA = [
    0.1 + 0.2, 1 / 3, 2 / 3, 1e15 + 0.3, 4.35, 0.1, 1e22, 1e23, 1.0e21, 9.999999999999999e22,
    5e-324, 1.5e-323, 2.2250738585072014e-308, 2.225073858507201e-308, 4.9406564584124654e-324,
    1.7976931348623157e308, 8.98846567431158e307, 2.2250738585072011e-308,
    9007199254740993.0, 9007199254740992.0, 4503599627370496.5, 4503599627370497.5, 1e16, 123456789012345678.0,
    9.223372036854775807e18, -9.223372036854775808e18, 1.8446744073709552e19, 0.3, 7.1e-10, 5.0e-5,
    1.0, -1.0, 100.0, 1e2, 0.0, -0.0, 3.0e10, 2.0 ** 63, -(2.0 ** 63), 2.0 ** 64, 2.0 ** 53 + 2,
    8.41e21, 2.0e-3, 6.02214076e23, 6.62607015e-34, 1.7976931348623155e308, 0.000001, 1e-7, 123456.7,
]


def gen_float(rng):
    r = rng.random()
    if r < 0.3:
        f = rng.choice(FLOAT_EXTRA)
    elif r < 0.45:
        f = bits2f(rng.getrandbits(64))
    elif r < 0.55:
        # 17 significant digits, random exponent
        f = float("%d.%016de%d" % (rng.randint(1, 9), rng.getrandbits(53) % 10 ** 16, rng.randint(-320, 308)))
    elif r < 0.65:
        f = float(gv.rand_int(rng))
    elif r < 0.72:
        f = rng.choice(FLOAT_EXTRA)
        for _ in range(rng.randint(1, 4)):
            f = gv.nextafter_up(f) if rng.random() < 0.5 else gv.nextafter_down(f)
    else:
        f = gv.rand_float(rng, finite=True)
    if f != f or math.isinf(f):
        return 1.5
    if rng.random() < 0.3:
        f = -f
    return f


def gen_scalar(rng):
    r = rng.random()
    if r < 0.06:
        return None
    if r < 0.12:
        return rng.random() < 0.5
    if r < 0.32:
        return gv.rand_int(rng)
    if r < 0.62:
        return gen_float(rng)
    return gen_string(rng).encode("utf-8")


def gen_value(rng, depth):
    if depth <= 0 or rng.random() < 0.35:
        return gen_scalar(rng)
    n = rng.choice([0, 1, 1, 2, 2, 3, 4, 6])
    if rng.random() < 0.5:
        return [gen_value(rng, depth - 1) for _ in range(n)]
    return {gen_key(rng): gen_value(rng, depth - 1) for _ in range(n)}


def gen_top(rng):
    r = rng.random()
    if r < 0.2:
        return gen_scalar(rng)
    if r < 0.3:
        # chain
        v = gen_scalar(rng)
        for _ in range(rng.randint(3, 24)):
            v = [v] if rng.random() < 0.5 else {gen_key(rng): v}
        return v
    if r < 0.35:
        # wide
        n = rng.randint(10, 60)
        if rng.random() < 0.5:
            return [gen_scalar(rng) for _ in range(n)]
        return {gen_string(rng, 5): gen_scalar(rng) for _ in range(n)}
    return gen_value(rng, rng.choice([1, 2, 3, 4, 5]))


def gen_case(ctx, rng):
    wrap = ""
    if rng.random() < 0.08:
        d = rng.choice([3, 20, 60, 100, 119, 120, 121, 125, 126, 127, 128, 129, 150, 200])
        wrap = "".join(rng.choice("ao") for _ in range(d))
    n = BATCH if not wrap else 6 if len(wrap) <= 100 else 2
    values = []
    for _ in range(n):
        v = gen_top(rng)
        while wrap and depth_of(v) > 8:
            v = gen_top(rng)
        values.append(enc(v))
    return {"values": values, "wrap": wrap}


# ----------------------------------------------------------------------------------------
# comparison (the oracle)

def ordered(f):
    b = f2bits(f)
    return -(b & ((1 << 63) - 1)) if b >> 63 else b


def char_class(ch):
    c = ord(ch)
    if c < 0x20:
        return "control"
    if ch == '"':
        return "quote"
    if ch == "\\":
        return "backslash"
    if c < 0x7F:
        return "ascii"
    if c == 0x7F:
        return "del"
    if c < 0xA0:
        return "c1_control"
    if c in (0x2028, 0x2029):
        return "ls_ps"
    if c == 0xFEFF:
        return "bom"
    if (c & 0xFFFE) == 0xFFFE or 0xFDD0 <= c <= 0xFDEF:
        return "noncharacter"
    if 0xE000 <= c <= 0xF8FF or c >= 0xF0000:
        return "private_use"
    if c > 0xFFFF:
        return "astral"
    return "nonascii_bmp"


def string_class(orig, got=None):
    """Class of the first character at which the strings differ (or of the most special one)."""
    try:
        s = orig.decode("utf-8")
    except UnicodeDecodeError:
        return "non_utf8"
    if got is not None:
        try:
            g = got.decode("utf-8")
        except UnicodeDecodeError:
            g = None
        if g is not None:
            for i, ch in enumerate(s):
                if i >= len(g) or g[i] != ch:
                    return char_class(ch)
            if len(g) > len(s):
                return "extra_text"
    order = ["control", "quote", "backslash", "del", "c1_control", "ls_ps", "bom", "noncharacter",
             "private_use", "astral", "nonascii_bmp", "ascii"]
    present = {char_class(ch) for ch in s}
    for o in order:
        if o in present:
            return o
    return "empty"


def diff(a, b):
    """None if b is an acceptable round-trip image of a, else a short class string."""
    ta, tb = tag(a), tag(b)
    if ta != tb:
        return "kind:%s->%s" % (ta, tb)
    if ta == "float":
        if b != b:
            return "float->nan"
        d = abs(ordered(a) - ordered(b))
        if d == 0:
            return None
        if d == 1:
            return None
        return "float_off_by>1ulp"
    if ta == "integer":
        return None if a == b else "integer_changed"
    if ta == "bytes":
        return None if a == b else "string_changed:" + string_class(a, b)
    if ta == "array":
        if len(a) != len(b):
            return "array_length"
        for x, y in zip(a, b):
            d = diff(x, y)
            if d:
                return d
        return None
    if ta == "object":
        if a.keys() != b.keys():
            lost = sorted(set(a) - set(b))
            if lost:
                return "object_key_lost:" + string_class(lost[0].encode("utf-8"))
            return "object_key_added"
        for k in a:
            d = diff(a[k], b[k])
            if d:
                return d
        return None
    return None if a == b else "%s_changed" % ta


def from_py(j):
    """json.loads result -> value model."""
    if j is None or j is True or j is False:
        return j
    t = type(j)
    if t is int:
        return j
    if t is float:
        return j
    if t is str:
        return j.encode("utf-8", "surrogatepass")
    if t is list:
        return [from_py(x) for x in j]
    return {k: from_py(x) for k, x in j.items()}


def exact_equal(a, b):
    ta, tb = tag(a), tag(b)
    if ta != tb:
        return False
    if ta == "float":
        return a == b
    if ta == "array":
        return len(a) == len(b) and all(exact_equal(x, y) for x, y in zip(a, b))
    if ta == "object":
        return a.keys() == b.keys() and all(exact_equal(a[k], b[k]) for k in a)
    return a == b


def _reject_constant(c):
    raise ValueError("non-JSON constant " + c)


def python_decodes_to(text, v):
    """True/False: does an independent decoder read `text` as exactly v; None: cannot tell."""
    try:
        s = text.decode("utf-8")
    except UnicodeDecodeError:
        return False
    try:
        j = json.loads(s, parse_constant=_reject_constant)
    except RecursionError:
        return None
    except ValueError:
        return False
    try:
        return exact_equal(v, from_py(j))
    except RecursionError:
        return None


# ----------------------------------------------------------------------------------------
# features / coverage

def depth_of(v):
    if isinstance(v, list):
        return 1 + max([depth_of(x) for x in v] or [0])
    if isinstance(v, dict):
        return 1 + max([depth_of(x) for x in v.values()] or [0])
    return 0


def features(v, out):
    t = type(v)
    if t is float:
        if v != 0:
            if float("%.15g" % v) != v:
                out.add("f_17digits")
            if v == math.floor(v) and abs(v) < 1e300:
                out.add("f_integral")
            if abs(v) >= 1e21 or abs(v) < 1e-5:
                out.add("f_extreme")
    elif t is int:
        if abs(v) > (1 << 53):
            out.add("i_beyond_2^53")
    elif t is bytes:
        str_features(v.decode("utf-8"), out, "s_")
    elif t is list:
        for x in v:
            features(x, out)
    elif t is dict:
        for k, x in v.items():
            if k == "":
                out.add("k_special")
            str_features(k, out, "k_")
            features(x, out)


def str_features(s, out, prefix):
    for ch in s:
        c = char_class(ch)
        if c == "ascii":
            continue
        if prefix == "k_":
            out.add("k_special")
        elif c in ("control", "quote", "backslash"):
            out.add("s_escape")
        elif c == "nonascii_bmp":
            out.add("s_nonascii")
        else:
            out.add("s_astral_or_odd")
    if len(s) > 126:
        out.add("long_string")


def depth_class(d):
    if d < 3:
        return "d<3"
    if d < 10:
        return "d3-9"
    if d < 64:
        return "d10-63"
    if d <= MAX_JUDGED_DEPTH:
        return "d64-120"
    return "d>120"


def has_neg_zero(v):
    if type(v) is float:
        return v == 0 and math.copysign(1.0, v) < 0
    if isinstance(v, list):
        return any(has_neg_zero(x) for x in v)
    if isinstance(v, dict):
        return any(has_neg_zero(x) for x in v.values())
    return False


def neg_zero_kept(a, b):
    if type(a) is float and type(b) is float:
        return not (a == 0 and b == 0) or math.copysign(1.0, a) == math.copysign(1.0, b)
    if isinstance(a, list) and isinstance(b, list):
        return all(neg_zero_kept(x, y) for x, y in zip(a, b))
    if isinstance(a, dict) and isinstance(b, dict):
        return all(neg_zero_kept(a[k], b[k]) for k in a if k in b)
    return True


# ----------------------------------------------------------------------------------------
# execution

def wrap_value(v, wrap):
    for c in wrap:
        v = [v] if c == "a" else {"k": v}
    return v


def program(wrap):
    lines = ["v = .v"]
    for c in wrap:
        lines.append("v = [v]" if c == "a" else 'v = {"k": v}')
    return "\n".join(lines) + "\n" + PROGRAM_BODY


def panic_sig(p):
    loc = (p or {}).get("loc", "?")
    path = loc.rsplit(":", 1)[0]
    if "/registry/src/" in path:
        path = path.split("/registry/src/", 1)[1].split("/", 1)[-1]
    elif path.startswith("/repo/"):
        path = path[len("/repo/"):]
    return "json:panic@" + path


def execute(ctx, values, wrap):
    """values: list of (unwrapped) values. Returns per value a dict variant -> result, where result is
    ("ok", text, back) | ("error", text, msg) | ("panic", info) | ("failed", out)."""
    resp = ctx.call({"op": "run", "src": program(wrap), "probe": False,
                     "events": [{"e": enc({"v": v})} for v in values]})
    if not resp.get("compiled"):
        return None
    outs = []
    for run in resp["runs"]:
        res = {}
        if "panic" in run:
            for name in VARIANTS:
                res[name] = ("panic", run["panic"])
        elif "ok" not in run["out"]:
            for name in VARIANTS:
                res[name] = ("failed", run["out"])
        else:
            got = dec(run["out"]["ok"])
            for name, (text, back, err) in zip(VARIANTS, got):
                res[name] = ("ok", text, back) if err is None else ("error", text, err)
        outs.append(res)
    if not wrap:
        small = [i for i, v in enumerate(values) if depth_of(v) <= 40]
        if small:
            sresp = ctx.call({"op": "serde", "values": [enc(values[i]) for i in small]})
            for i, o in zip(small, sresp.get("outs", [])):
                if "panic" in o:
                    outs[i]["serde"] = ("panic", o["panic"])
                elif "back" in o:
                    outs[i]["serde"] = ("ok", o["text"].encode("utf-8"), dec(o["back"]))
                elif "de_error" in o:
                    outs[i]["serde"] = ("error", o["text"].encode("utf-8"), o["de_error"].encode("utf-8"))
                elif "ser_error" in o:
                    outs[i]["serde"] = ("error", b"", ("serialize: " + o["ser_error"]).encode("utf-8"))
                # bad_request: harness limitation (wire nesting), not judged
    return outs


def verdict(full, result):
    """None = held; "skip:<reason>"; or (what, side)."""
    kind = result[0]
    if kind == "panic":
        return ("panic", result[1])
    if kind == "failed":
        return ("program_failed", None)
    text = result[1]
    if kind == "error":
        what = "parse_error"
    else:
        what = diff(full, result[2])
        if what is None:
            return None
    if depth_of(full) > MAX_JUDGED_DEPTH:
        # serde_json's recursion limit / max_depth's documented stringification: domain boundary
        return "skip:nesting>120_not_judged"
    py = python_decodes_to(text, full)
    side = "decoder" if py is True else "encoder" if py is False else "undetermined"
    return (what, side)


def first_failure(full, res):
    """First failing variant in a fixed order -> (variant, what, side) / None / skip string."""
    skip = None
    for name in ["compact", "pretty", "lossy_false", "serde", "max_depth"]:
        if name not in res:
            continue
        v = verdict(full, res[name])
        if v is None:
            continue
        if isinstance(v, str):
            skip = v
            continue
        return (name,) + v
    return skip


def candidates(v):
    """Smaller values derived from v (children, single pairs, single characters, halves)."""
    out = []
    if isinstance(v, list):
        out.extend(v)
        if len(v) > 1:
            out.extend([x] for x in v)
    elif isinstance(v, dict):
        out.extend(v.values())
        if len(v) > 1:
            out.extend({k: x} for k, x in v.items())
        for k, x in v.items():
            if len(k) > 1:
                out.extend({ch: x} for ch in dict.fromkeys(k))
                out.append({k[:len(k) // 2]: x})
                out.append({k[len(k) // 2:]: x})
            if isinstance(x, (list, dict)) or (type(x) is bytes and x) or type(x) in (int, float):
                if not (len(v) == 1 and x is None):
                    out.append({k: None})
    elif type(v) is bytes and len(v) > 1:
        s = v.decode("utf-8")
        if len(s) > 1:
            out.extend(ch.encode("utf-8") for ch in dict.fromkeys(s))
            out.append(s[:len(s) // 2].encode("utf-8"))
            out.append(s[len(s) // 2:].encode("utf-8"))
    return out[:200]


def minimize(ctx, v, variant):
    """Greedy shrink keeping 'variant fails'. Only for unwrapped values."""
    cur = v
    for _ in range(40):
        cands = candidates(cur)
        if not cands:
            break
        outs = execute(ctx, cands, "")
        if outs is None:
            break
        nxt = None
        for c, res in zip(cands, outs):
            if variant in res:
                vd = verdict(c, res[variant])
                if vd is not None and not isinstance(vd, str):
                    nxt = c
                    break
        if nxt is None:
            break
        cur = nxt
    return cur


def report(ctx, value, wrap, fail, res):
    variant, what, side = fail
    witness = value
    if not wrap and what not in ("panic", "program_failed"):
        try:
            m = minimize(ctx, value, variant)
            outs = execute(ctx, [m], "")
            f2 = first_failure(m, outs[0]) if outs else None
            if f2 and not isinstance(f2, str):
                witness, (variant, what, side), res = m, f2, outs[0]
        except RecursionError:
            pass
    one = {"values": [enc(witness)], "wrap": wrap}
    if what == "panic":
        ctx.violation(panic_sig(side), {"value": repr(witness)[:600], "wrap_depth": len(wrap), "panic": side,
                                        "variant": variant}, case=one)
        return
    if what == "program_failed":
        ctx.violation("json:program_failed", {"value": repr(witness)[:600], "out": repr(res[variant][1])[:400]},
                      case=one)
        return
    r = res[variant]
    sig = "json:%s:%s" % (what, side) if variant == "compact" else "json:%s:%s:%s" % (variant, what, side)
    detail = {"value": repr(witness)[:800], "wrap_depth": len(wrap), "variant": variant,
              "text": repr(r[1])[:800], "fault_side": side,
              "program": {"compact": "parse_json!(encode_json(.v))",
                          "pretty": "parse_json!(encode_json(.v, pretty: true))",
                          "lossy_false": "parse_json!(encode_json(.v), lossy: false)",
                          "max_depth": "parse_json!(encode_json(.v, pretty: true), max_depth: 128)",
                          "serde": "serde_json::from_str::<Value>(&serde_json::to_string(&v))"}[variant]}
    if r[0] == "ok":
        detail["decoded"] = repr(r[2])[:800]
    else:
        detail["error"] = repr(r[2])[:300]
    ctx.violation(sig, detail, case=one)


def run_case(ctx, case):
    if sys.getrecursionlimit() < 8000:
        sys.setrecursionlimit(8000)
    wrap = case.get("wrap", "")
    values = [dec(j) for j in case["values"]]
    outs = execute(ctx, values, wrap)
    if outs is None:
        ctx.skip("harness:program_rejected")
        return
    for v, res in zip(values, outs):
        full = wrap_value(v, wrap)
        fail = first_failure(full, res)
        if fail is not None and not isinstance(fail, str):
            report(ctx, v, wrap, fail, res)
            continue
        if isinstance(fail, str):
            ctx.skip(fail[5:])
            # the remaining variants held; fall through to count what was judged
        judged = [n for n in res if verdict(full, res[n]) is None]
        if not judged:
            continue
        feats = set()
        features(v, feats)
        d = depth_of(full)
        if has_neg_zero(v):
            for n in judged:
                if res[n][0] == "ok" and not neg_zero_kept(full, res[n][2]):
                    ctx.count("negative_zero_sign_lost:" + n)
        for n in judged:
            if res[n][0] == "ok" and python_decodes_to(res[n][1], full) is False:
                # vrl's own round trip holds (within 1 ulp) but the text does not denote the value exactly
                ctx.count("text_not_exact_per_independent_decoder:" + n)
        nontrivial = bool(feats - {"f_integral"}) or d >= 3
        key = (tag(v), ",".join(sorted(feats)), depth_class(d))
        ctx.ok(key, nontrivial, sample={"value": repr(v)[:200], "wrap_depth": len(wrap),
                                        "variants": sorted(judged), "text": repr(res[judged[0]][1])[:200]},
               n=len(judged))
