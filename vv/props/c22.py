"""C22 — binary codecs round-trip.

Monitor: every `encode_X` / `decode_X` pair found in the stdlib metadata is exercised through the
real runtime: a batch of inputs goes runtime-typed through the event into `encode_X!(.v, opts)`,
the outputs go (again through the event) into `decode_X!(.v, matching opts)`. Option combinations
are enumerated from the metadata (enum variants, booleans; integer / free-string parameters from
per-codec pools), once as literals in the program text and once runtime-typed through the event.

Oracle (independent of vrl): round-trip identity `decode(encode(b)) == b` on the domain the
statement gives (any bytes; UTF-8 text for percent; valid lower-case domain labels for punycode;
text from the charset's repertoire for charsets). Independent Python decoders/encoders (binascii,
base64, urllib.parse, zlib, gzip, the `punycode` codec, Python's charset codecs, and LZ4-block /
Snappy decoders written from the format specifications) never decide whether the property is
violated; they only attribute a failure to the encoder or the decoder (signature suffix). LZ4
frames (which vrl cannot produce) are assembled in Python around blocks compressed by vrl's
own `encode_lz4` or stored blocks, with XXH32 checksums computed in Python.
"""
import base64
import binascii
import gzip
import re
import unicodedata
import urllib.parse
import zlib

from ..wire import enc, dec
from ..gen import values as gv
from ..gen.lit import lit
from ..model import lz4frame, snappyraw

ID = "C22"
LEVEL = "exploration"
BUDGET = {"quick": 20, "thorough": 240}
MEMCHECK = {"requests": 600, "stride": 10}    # thorough: valgrind memcheck over a sample of the workload
FLOOR = {"quick": 60, "thorough": 150}
RULE = ("codec pairs and their options enumerated from the stdlib metadata (base64 charset x padding, "
        "percent ascii_set, punycode validate, gzip/zlib/zstd levels incl. extremes, lz4 prepend_size x "
        "buf_size and Python-built frames with stored/compressed blocks x checksum flags, ~45 WHATWG "
        "charset labels); inputs of length 0..4097 (block boundaries +-1; rarely 70 KiB) with random / run / "
        "periodic / all-256 / text content, domain-restricted for percent (UTF-8), punycode (labels), "
        "charsets (repertoire text). Non-trivial: len >= 1 and (an option differs from its documented "
        "default, or the input is not plain ASCII alphanumerics); distinct by (codec, options, option "
        "form, length class).")
ASSUMPTIONS = ["Python's binascii/base64/urllib.parse/zlib/gzip/punycode/charset codecs are correct (used only "
               "to attribute a fault to a side and, for charsets, to decide which text is representable)",
               "a charset's repertoire is approximated by letters/punctuation that Python's equivalent codec "
               "round-trips (WHATWG single-byte tables are supersets of Python's)",
               "valid domain label := lower-case letters (category Ll/Lo, stable under NFKC+casefold, one "
               "script direction), digits and interior hyphens, not starting with xn--, A-label <= 63 bytes",
               "matching decoder options: same keyword -> same value; lz4 prepend_size <-> prepended_size with "
               "buf_size >= len(input); to_charset <-> from_charset",
               "an option value that makes the encoder fail for every input of a batch and is listed as "
               "'may be rejected' is not a valid option (counted as skip)"]

BATCH = 24
K_BYTES, K_INT, K_BOOL = 2, 4, 16

LEN_EDGES = [0, 1, 2, 3, 4, 5, 6, 7, 8, 9, 11, 12, 13, 15, 16, 17, 31, 32, 33, 47, 48, 49, 63, 64, 65, 95, 96, 97,
             127, 128, 129, 255, 256, 257, 511, 512, 513, 1023, 1024, 1025, 2047, 2048, 4095, 4096, 4097]


# ----------------------------------------------------------------------------------------
# input generators

def gen_bytes(rng, big_ok=True):
    r = rng.random()
    if r < 0.5:
        n = rng.choice(LEN_EDGES)
    elif r < 0.9:
        n = rng.randint(0, 300)
    elif r < 0.985 or not big_ok:
        n = rng.randint(300, 4200)
    else:
        n = rng.choice([65535, 65536, 65537, 70000])
    c = rng.random()
    if c < 0.3:
        return rng.randbytes(n)
    if c < 0.4:
        return bytes([rng.choice([0, 0xFF, 0x41, 0x80, rng.getrandbits(8)])]) * n
    if c < 0.5:
        unit = rng.randbytes(rng.randint(1, 9))
        return (unit * (n // len(unit) + 1))[:n]
    if c < 0.6:
        start = rng.getrandbits(8)
        return bytes((start + i) & 0xFF for i in range(n))
    if c < 0.75:
        t = gv.rand_text(rng, 40).encode("utf-8") or b"x"
        return (t * (n // len(t) + 1))[:n]
    if c < 0.85:
        # compressible prefix + incompressible tail
        k = rng.randint(0, n)
        return b"\x00" * k + rng.randbytes(n - k)
    if c < 0.93:
        return bytes(rng.choice(b"=+/-_%\x00\xff\x04\x22\x4d\x18Aa09") for _ in range(n))
    # starts like an lz4 frame / gzip / zstd magic
    magic = rng.choice([b"\x04\x22\x4d\x18", b"\x1f\x8b\x08", b"\x28\xb5\x2f\xfd", b"\xff\x06\x00\x00sNaPpY", b"\x78\x9c"])
    return (magic + rng.randbytes(n))[:max(n, 0)]


PCT_SPECIALS = ["%", "%%", "%41", "%7e", "%zz", "%4", "%E4%B8%AD", "%00", "%25", "+", " ", "/", "?", "#", "&", "=",
                ":", ";", "@", "[", "]", "^", "|", "\\", "`", "{", "}", "<", ">", "\"", "'", "$", ",", "!", "(", ")",
                "~", "*", "-", ".", "_", "\x00", "\x1f", "\x7f", "\n", "\t", "é", "日本", "😀", " ", "\u0080"]


def gen_utf8_text(rng):
    n = rng.choice([0, 1, 2, 3, 5, 8, 13, 30, 100])
    out = []
    for _ in range(n):
        q = rng.random()
        if q < 0.45:
            out.append(rng.choice(PCT_SPECIALS))
        elif q < 0.6:
            out.append(rng.choice(gv.UNI))
        else:
            out.append(rng.choice(gv.ALPHA))
    return "".join(out).encode("utf-8")


def _label_chars(ranges):
    out = []
    for a, b in ranges:
        for c in range(a, b + 1):
            ch = chr(c)
            if unicodedata.category(ch) not in ("Ll", "Lo"):
                continue
            if unicodedata.normalize("NFKC", ch.casefold()) != ch or unicodedata.normalize("NFC", ch) != ch:
                continue
            out.append(ch)
    return out


LABEL_SCRIPTS = {
    "latin": _label_chars([(0xE0, 0xFF), (0x100, 0x17F)]),
    "greek": _label_chars([(0x3B1, 0x3C9)]),
    "cyrillic": _label_chars([(0x430, 0x45F)]),
    "cjk": _label_chars([(0x4E00, 0x4E80), (0x3041, 0x3093), (0x30A1, 0x30F6)]),
    "hangul": _label_chars([(0xAC00, 0xAC40)]),
    "hebrew": _label_chars([(0x5D0, 0x5EA)]),
    "arabic": _label_chars([(0x627, 0x64A)]),
}
RTL_SCRIPTS = ("hebrew", "arabic")
ASCII_LD = "abcdefghijklmnopqrstuvwxyz0123456789"


def gen_label(rng, allow_rtl=True):
    for _ in range(50):
        r = rng.random()
        n = rng.choice([1, 1, 2, 3, 4, 5, 8, 12, 20, 30])
        if r < 0.25:
            chars = [rng.choice(ASCII_LD) for _ in range(n)]
            if n >= 3 and rng.random() < 0.4:
                chars[rng.randint(1, n - 2)] = "-"
            if n >= 8 and rng.random() < 0.2:
                chars[1:6] = list("xn--b")   # "xn--" not at the start of the label
        else:
            scripts = [s for s in LABEL_SCRIPTS if allow_rtl or s not in RTL_SCRIPTS]
            script = rng.choice(scripts)
            pool = LABEL_SCRIPTS[script]
            if script in RTL_SCRIPTS:
                chars = [rng.choice(pool) for _ in range(n)]
            else:
                p = rng.choice([0.2, 0.5, 1.0])
                chars = [rng.choice(pool) if rng.random() < p else rng.choice(ASCII_LD) for _ in range(n)]
                if rng.random() < 0.3:
                    chars[rng.randrange(n)] = rng.choice(pool)
                if n >= 3 and rng.random() < 0.3:
                    chars[rng.randint(1, n - 2)] = "-"
        label = "".join(chars)
        if label_in_domain(label):
            return label
    return "a"


def label_in_domain(label):
    if not label or label.startswith("-") or label.endswith("-") or label.startswith("xn--"):
        return False
    if len(label) >= 4 and label[2:4] == "--":
        return False
    if unicodedata.normalize("NFKC", label.casefold()) != label or unicodedata.normalize("NFC", label) != label:
        return False
    try:
        a = label.encode("punycode")
    except UnicodeError:
        return False
    return len(a) + 4 <= 63


def gen_domain_text(rng):
    if rng.random() < 0.7:
        return gen_label(rng).encode("utf-8")
    return ".".join(gen_label(rng, allow_rtl=False) for _ in range(rng.randint(2, 4))).encode("utf-8")


# -- charsets

def _universe():
    out = [chr(c) for c in range(0x20, 0x7F)] + ["\t", "\n"]
    for a, b in [(0xC0, 0xFF), (0x100, 0x17F), (0x391, 0x3C9), (0x401, 0x45F), (0x490, 0x491), (0x5D0, 0x5EA),
                 (0x621, 0x64A), (0xE01, 0xE3A), (0xE40, 0xE5B), (0x3041, 0x3093), (0x30A1, 0x30F6),
                 (0xFF21, 0xFF3A), (0x1EA0, 0x1EF9)]:
        out.extend(chr(c) for c in range(a, b + 1) if unicodedata.category(chr(c))[0] in "LMN")
    out.extend(chr(c) for c in range(0x4E00, 0x9FA0, 97))
    out.extend(chr(c) for c in range(0xAC00, 0xD7A0, 211))
    out.extend("«»„“”‘’–—…€™©®°±§¶·")
    out.extend(["\U0001f600", "\U00020000", "\U0001d11e", "\U00010400", "\ufeff"])
    return out


UNIVERSE = _universe()
X_USER_DEFINED = [chr(c) for c in range(0x20, 0x7F)] + [chr(c) for c in range(0xF780, 0xF800)]

# (WHATWG label, Python codec used to decide representability / attribute faults)
CHARSETS = [
    ("utf-8", "utf-8"), ("UTF-8", "utf-8"), ("unicode-1-1-utf-8", "utf-8"),
    ("ibm866", "cp866"), ("iso-8859-2", "iso8859_2"), ("iso-8859-3", "iso8859_3"), ("iso-8859-4", "iso8859_4"),
    ("iso-8859-5", "iso8859_5"), ("iso-8859-6", "iso8859_6"), ("iso-8859-7", "iso8859_7"),
    ("iso-8859-8", "iso8859_8"), ("iso-8859-8-i", "iso8859_8"), ("iso-8859-10", "iso8859_10"),
    ("iso-8859-13", "iso8859_13"), ("iso-8859-14", "iso8859_14"), ("iso-8859-15", "iso8859_15"),
    ("iso-8859-16", "iso8859_16"), ("koi8-r", "koi8_r"), ("koi8-u", "koi8_u"), ("macintosh", "mac_roman"),
    ("windows-874", "cp874"), ("windows-1250", "cp1250"), ("windows-1251", "cp1251"), ("windows-1252", "cp1252"),
    ("windows-1253", "cp1253"), ("windows-1254", "cp1254"), ("windows-1255", "cp1255"), ("windows-1256", "cp1256"),
    ("windows-1257", "cp1257"), ("windows-1258", "cp1258"), ("x-mac-cyrillic", "mac_cyrillic"),
    ("latin1", "cp1252"), ("iso-8859-1", "cp1252"), ("ascii", "cp1252"),
    ("gbk", "gbk"), ("gb18030", "gb18030"), ("big5", "big5"), ("euc-jp", "euc_jp"), ("iso-2022-jp", "iso2022_jp"),
    ("shift_jis", "cp932"), ("euc-kr", "cp949"), ("utf-16le", "utf_16_le"), ("utf-16be", "utf_16_be"),
    ("utf-16", "utf_16_le"), ("x-user-defined", None),
]
PYCODEC = dict(CHARSETS)
_REPERTOIRE = {}


def repertoire(label):
    r = _REPERTOIRE.get(label)
    if r is None:
        codec = PYCODEC[label]
        if codec is None:
            r = list(X_USER_DEFINED)
        else:
            r = []
            for ch in UNIVERSE:
                try:
                    if ch.encode(codec).decode(codec) == ch:
                        r.append(ch)
                except (UnicodeError, LookupError):
                    pass
            if codec == "iso2022_jp":
                r = [ch for ch in r if ch not in "\\~"]
            if codec == "euc_jp":
                # Python's euc_jp also encodes JIS X 0212, which the WHATWG euc-jp *encoder* does not
                def in_0208(ch):
                    try:
                        ch.encode("shift_jis")
                        return True
                    except UnicodeError:
                        return False
                r = [ch for ch in r if in_0208(ch)]
        _REPERTOIRE[label] = r
    return r


def gen_charset_text(rng, label):
    rep = repertoire(label)
    non_ascii = [ch for ch in rep if ord(ch) > 0x7E] or rep
    n = rng.choice([0, 1, 1, 2, 3, 5, 8, 13, 40, 200])
    p = rng.choice([0.1, 0.5, 1.0])
    return "".join(rng.choice(non_ascii) if rng.random() < p else rng.choice(rep) for _ in range(n)).encode("utf-8")


# ----------------------------------------------------------------------------------------
# per-codec knowledge (pools for parameters the metadata cannot enumerate, domains, cross-checks)

def xc_base16(o, b, e):
    try:
        return binascii.unhexlify(e) == b
    except (binascii.Error, ValueError):
        return False


def xc_base64(o, b, e):
    try:
        s = e.decode("ascii")
    except UnicodeDecodeError:
        return False
    if o.get("charset", "standard") == "url_safe":
        if "+" in s or "/" in s:
            return False
        s = s.replace("-", "+").replace("_", "/")
    elif o.get("charset", "standard") != "standard":
        return None
    s += "=" * (-len(s) % 4)
    try:
        return base64.b64decode(s, validate=True) == b
    except (binascii.Error, ValueError):
        return False


def xc_percent(o, b, e):
    return urllib.parse.unquote_to_bytes(e) == b


def xc_punycode(o, b, e):
    try:
        labels = b.decode("utf-8").split(".")
        exp = ".".join(l if l.isascii() else "xn--" + l.encode("punycode").decode("ascii") for l in labels)
    except UnicodeError:
        return None
    return e == exp.encode("ascii")


def xc_gzip(o, b, e):
    try:
        return gzip.decompress(e) == b
    except Exception:
        return False


def xc_zlib(o, b, e):
    try:
        return zlib.decompress(e) == b
    except Exception:
        return False


def xc_snappy(o, b, e):
    try:
        return snappyraw.decode(e) == b
    except snappyraw.SnappyError:
        return False


def xc_lz4(o, b, e):
    if "prepend_size" not in o:
        return None
    try:
        if o["prepend_size"]:
            if len(e) < 4 or int.from_bytes(e[:4], "little") != len(b):
                return False
            e = e[4:]
        return lz4frame.block_decode(e) == b
    except lz4frame.Lz4Error:
        return False


def xc_charset(o, b, e):
    codec = PYCODEC.get(o.get("to_charset"))
    if codec is None:
        return None
    try:
        return b.decode("utf-8").encode(codec) == e
    except UnicodeError:
        return None


GZ_LEVELS = [0, 1, 2, 3, 4, 5, 6, 7, 8, 9] * 3 + [10, 11, -1]
# (levels, inputs per batch): higher levels cost 0.1 .. 1 s of context set-up per call in this build
ZSTD_TIERS = [([-131072, -50, -7, -1, 0, 1, 2, 3, -2147483648, 4294967299], 24),
              ([4, 5, 6], 8),
              ([7, 9, 12, 15, 19], 1),
              ([20, 22, 23, 100, 2147483647], 1)]
ZSTD_WEIGHTS = {"quick": [0.86, 0.12, 0.02, 0.0], "thorough": [0.75, 0.13, 0.08, 0.04]}
ZSTD_ALL = [l for t in ZSTD_TIERS for l in t[0]]

HANDLERS = {
    "base16": {"input": "bytes", "xc": xc_base16},
    "base64": {"input": "bytes", "xc": xc_base64},
    "percent": {"input": "utf8", "xc": xc_percent},
    "punycode": {"input": "domain", "xc": xc_punycode},
    "gzip": {"input": "bytes", "xc": xc_gzip, "int": {"compression_level": GZ_LEVELS},
             "may_reject": {"compression_level": [10, 11, -1]}},
    "zlib": {"input": "bytes", "xc": xc_zlib, "int": {"compression_level": GZ_LEVELS},
             "may_reject": {"compression_level": [10, 11, -1]}},
    "zstd": {"input": "bytes", "xc": None, "int": {"compression_level": ZSTD_ALL}},
    "snappy": {"input": "bytes", "xc": xc_snappy},
    "lz4": {"input": "bytes", "xc": xc_lz4, "dec_rename": {"prepend_size": "prepended_size"},
            "dec_extra": ["buf_size"]},
    "charset": {"input": "charset", "xc": xc_charset, "str": {"to_charset": [c for c, _ in CHARSETS]},
                "dec_rename": {"to_charset": "from_charset"}},
}


def codec_pairs(ctx):
    fns = {f["id"]: f for f in ctx.stdlib()}
    pairs = {}
    for name, f in fns.items():
        if name.startswith("encode_") and "decode_" + name[7:] in fns:
            pairs[name[7:]] = (f, fns["decode_" + name[7:]])
    return pairs


def param_domain(codec, p):
    h = HANDLERS[codec]
    if p.get("enum"):
        return list(p["enum"])
    if p["kind"] == K_BOOL:
        return [True, False]
    if p["kind"] == K_INT:
        return h.get("int", {}).get(p["keyword"])
    if p["kind"] == K_BYTES:
        return h.get("str", {}).get(p["keyword"])
    return None


def default_of(p):
    d = p.get("default")
    return dec(d["v"]) if d else None


def plain(v):
    return v.decode("utf-8") if isinstance(v, bytes) else v


# ----------------------------------------------------------------------------------------
# case generation

def gen_case(ctx, rng):
    pairs = codec_pairs(ctx)
    for name in pairs:
        if name not in HANDLERS:
            ctx.note("uncovered_codec_pair", name)
    for name in HANDLERS:
        if name not in pairs:
            ctx.note("codec_pair_missing_from_stdlib", name)
    names = sorted(n for n in pairs if n in HANDLERS)
    if not names:
        return None
    weights = {"charset": 3, "lz4": 2, "base64": 2, "percent": 2, "zstd": 2}
    codec = rng.choices(names, [weights.get(n, 1) for n in names])[0]
    fe, fd = pairs[codec]
    h = HANDLERS[codec]
    eparams = [p for p in fe["params"] if p["keyword"] != "value"]
    dparams = [p for p in fd["params"] if p["keyword"] != "value"]
    enc_opts = {}
    omit_all = not dparams and rng.random() < 0.1 and not any(p["required"] for p in eparams)
    for p in eparams:
        dom = param_domain(codec, p)
        if dom is None:
            ctx.note("uncovered_encoder_param", "%s.%s" % (codec, p["keyword"]))
            if p["required"]:
                return None
            continue
        if omit_all:
            continue
        enc_opts[p["keyword"]] = rng.choice(dom)
    n = BATCH
    big_ok = codec in ("lz4", "zstd", "snappy", "gzip", "zlib")
    if codec == "zstd" and "compression_level" in enc_opts:
        levels, n = rng.choices(ZSTD_TIERS, ZSTD_WEIGHTS.get(ctx.tier, ZSTD_WEIGHTS["quick"]))[0]
        enc_opts["compression_level"] = rng.choice(levels)
        big_ok = n == BATCH
    # decoder options
    rename = h.get("dec_rename", {})
    dec_opts = {}
    dkw = {p["keyword"] for p in dparams}
    for k, v in enc_opts.items():
        k2 = rename.get(k, k)
        if k2 in dkw:
            dec_opts[k2] = v
    for p in dparams:
        if p["keyword"] not in dec_opts and p["keyword"] not in h.get("dec_extra", []):
            if not (omit_all or p["keyword"] in [rename.get(k, k) for k in enc_opts]):
                ctx.note("uncovered_decoder_param", "%s.%s" % (codec, p["keyword"]))
    frame = None
    buf = None
    if codec == "lz4" and "prepend_size" in enc_opts:
        r = rng.random()
        if r < 0.35:
            frame = {"stored": rng.random() < 0.35, "nblocks": rng.choice([1, 1, 2, 3]),
                     "block_checksum": rng.random() < 0.5, "content_checksum": rng.random() < 0.5,
                     "content_size": rng.random() < 0.5, "bd": rng.choice([4, 4, 5, 6, 7])}
            enc_opts["prepend_size"] = False
            dec_opts.pop("prepended_size", None)
            buf = rng.choice(["omit", "zero", "exact"])
        elif not enc_opts["prepend_size"]:
            buf = rng.choice(["exact", "exact", "plus1", "omit", "1000000", "10000000"])
        else:
            buf = rng.choice(["omit", "omit", "exact", "zero"])
    form = "lit" if rng.random() < 0.5 else "rt"
    if buf in ("exact", "plus1"):
        form = "rt"   # per-event value
    kind = h["input"]
    inputs = []
    for _ in range(n):
        if kind == "bytes":
            b = gen_bytes(rng, big_ok=big_ok)
        elif kind == "utf8":
            b = gen_utf8_text(rng)
        elif kind == "domain":
            b = gen_domain_text(rng)
        else:
            b = gen_charset_text(rng, enc_opts["to_charset"])
        inputs.append(enc(b))
    # a few inputs outside the round-trip domain: monitored for panics only
    stray = []
    if kind != "bytes" and rng.random() < 0.3:
        stray = [enc(gen_bytes(rng, big_ok=False)[:64]) for _ in range(3)]
    return {"codec": codec, "enc": enc_opts, "dec": dec_opts, "form": form, "frame": frame, "buf": buf,
            "inputs": inputs, "stray": stray}


# ----------------------------------------------------------------------------------------
# execution

LITERAL_ONLY = set()


def call_src(fn, opts, form, per_event=()):
    args = [".v"]
    for k in sorted(opts):
        if form == "rt" or k in per_event:
            args.append("%s: .o_%s" % (k, k))
        else:
            v = opts[k]
            args.append("%s: %s" % (k, lit(v.encode("utf-8") if isinstance(v, str) else v)))
    return "%s!(%s)" % (fn, ", ".join(args))


def run_batch(ctx, fn, opts, form, values, per_event=None):
    """values: list of bytes. per_event: {kw: [value per event]}. Returns (results, form_used) with
    results[i] = ("ok", bytes) | ("error", msg) | ("panic", info)."""
    per_event = per_event or {}
    if fn in LITERAL_ONLY and not per_event:
        form = "lit"
    events = []
    for i, v in enumerate(values):
        e = {"v": v}
        for k, x in opts.items():
            e["o_" + k] = x.encode("utf-8") if isinstance(x, str) else x
        for k, xs in per_event.items():
            e["o_" + k] = xs[i]
        events.append({"e": enc(e)})
    src = call_src(fn, {**opts, **{k: None for k in per_event}}, form, per_event)
    resp = ctx.call({"op": "run", "src": src, "probe": False, "events": events}, cpu_limit=60.0)
    if not resp.get("compiled") and form == "rt":
        ctx.note("option_must_be_literal", fn + ":" + ",".join(sorted(opts)))
        if not per_event:
            LITERAL_ONLY.add(fn)
        form = "lit"
        src = call_src(fn, {**opts, **{k: None for k in per_event}}, form, per_event)
        resp = ctx.call({"op": "run", "src": src, "probe": False, "events": events}, cpu_limit=60.0)
    if not resp.get("compiled"):
        return None, form, src
    out = []
    for run in resp["runs"]:
        if "panic" in run:
            out.append(("panic", run["panic"]))
        elif "ok" in run["out"]:
            v = dec(run["out"]["ok"])
            out.append(("ok", v) if isinstance(v, bytes) else ("error", "non-bytes result %r" % (v,)))
        else:
            out.append(("error", run["out"].get("error") or repr(run["out"])))
    return out, form, src


def panic_path(p):
    loc = (p or {}).get("loc", "?")
    path = loc.rsplit(":", 1)[0]
    if "/registry/src/" in path:
        path = path.split("/registry/src/", 1)[1].split("/", 1)[-1]
        path = re.sub(r"^([A-Za-z0-9_\-]+?)-\d+\.\d+\.\d+[^/]*/", r"\1/", path)
    elif path.startswith("/repo/"):
        path = path[len("/repo/"):]
    return path


def opt_sig(codec, enc_opts, dec_opts, frame, buf):
    if codec == "charset" and set(enc_opts) == {"to_charset"}:
        return str(PYCODEC.get(enc_opts["to_charset"]) or enc_opts["to_charset"])
    if codec == "base64" and set(enc_opts) == {"charset", "padding"}:
        s = "%s:%s" % (enc_opts["charset"], "pad" if enc_opts["padding"] else "nopad")
    elif not enc_opts:
        s = "defaults"
    else:
        s = ",".join("%s=%s" % (k, str(enc_opts[k]).lower() if isinstance(enc_opts[k], bool) else enc_opts[k])
                     for k in sorted(enc_opts))
    if frame:
        s = "frame(%s%s%s%s)" % ("stored" if frame["stored"] else "compressed",
                                 "+bc" if frame["block_checksum"] else "",
                                 "+cc" if frame["content_checksum"] else "",
                                 "+size" if frame["content_size"] else "")
    if buf and buf != "omit":
        s += ",buf_size=" + buf
    return s


def len_class(n):
    for lim, name in [(0, "0"), (1, "1"), (3, "2-3"), (15, "4-15"), (63, "16-63"), (255, "64-255"),
                      (1023, "256-1023"), (4095, "1024-4095")]:
        if n <= lim:
            return name
    return ">=4096"


PCT_HEX = re.compile(rb"%[0-9A-Fa-f]{2}")
ALNUM = re.compile(rb"^[A-Za-z0-9]*$")


def one_case(case, b, stray=False):
    c = dict(case)
    c["inputs"] = [] if stray else [enc(b)]
    c["stray"] = [enc(b)] if stray else []
    return c


def build_frames(frame, inputs, chunks, enc_results):
    """-> list of frame bytes or None (when a chunk failed to encode)."""
    frames = []
    k = 0
    for b, parts in zip(inputs, chunks):
        blocks = []
        bad = False
        for part in parts:
            r = enc_results[k]
            k += 1
            if frame["stored"]:
                blocks.append((part, True))
            elif r[0] != "ok":
                bad = True
            elif len(r[1]) >= len(part):
                # the frame format stores a block uncompressed when compression does not shrink it
                # (a "compressed" block larger than the block maximum size is not a valid frame)
                blocks.append((part, True))
            else:
                blocks.append((r[1], False))
        frames.append(None if bad else lz4frame.build_frame(
            b, blocks, bd_code=frame["bd"], block_checksum=frame["block_checksum"],
            content_checksum=frame["content_checksum"], content_size=frame["content_size"]))
    return frames


def split_chunks(b, nblocks, bd):
    limit = lz4frame.BLOCK_MAX[bd]
    if not b:
        return []
    n = max(nblocks, -(-len(b) // limit))
    n = min(n, len(b))
    size = -(-len(b) // n)
    return [b[i:i + size] for i in range(0, len(b), size)]


def run_case(ctx, case):
    codec = case["codec"]
    h = HANDLERS[codec]
    enc_opts, dec_opts, form = case["enc"], dict(case["dec"]), case["form"]
    frame, buf = case.get("frame"), case.get("buf")
    inputs = [dec(j) for j in case["inputs"]]
    stray = [dec(j) for j in case.get("stray", [])]
    osig = opt_sig(codec, enc_opts, dec_opts, frame, buf)
    efn, dfn = "encode_" + codec, "decode_" + codec

    # -- out-of-domain inputs: panic monitoring only
    if stray:
        res, _, src = run_batch(ctx, efn, enc_opts, form, stray)
        for b, r in zip(stray, res or []):
            if r[0] == "panic":
                ctx.violation("codec:panic@" + panic_path(r[1]),
                              {"program": src, "input": repr(b)[:300], "options": enc_opts, "panic": r[1],
                               "note": "input outside the round-trip domain; reported as a panic only"},
                              case=one_case(case, b, stray=True))
            else:
                ctx.count("out_of_domain_inputs_monitored_for_panics")
        res, _, src = run_batch(ctx, dfn, {k: v for k, v in dec_opts.items()}, form, stray)
        for b, r in zip(stray, res or []):
            if r[0] == "panic":
                ctx.violation("codec:panic@" + panic_path(r[1]),
                              {"program": src, "input": repr(b)[:300], "options": dec_opts, "panic": r[1],
                               "note": "arbitrary bytes fed to the decoder; reported as a panic only"},
                              case=one_case(case, b, stray=True))
            else:
                ctx.count("out_of_domain_inputs_monitored_for_panics")
    if not inputs:
        return

    # -- encode
    if frame:
        chunks = [split_chunks(b, frame["nblocks"], frame["bd"]) for b in inputs]
        flat = [p for parts in chunks for p in parts] or [b""]
        eres, eform, esrc = run_batch(ctx, efn, enc_opts, form, flat)
    else:
        eres, eform, esrc = run_batch(ctx, efn, enc_opts, form, inputs)
    if eres is None:
        ctx.skip("program_rejected:" + efn)
        return
    for r in eres:
        if r[0] == "panic":
            ctx.violation("codec:panic@" + panic_path(r[1]),
                          {"program": esrc, "options": enc_opts, "panic": r[1]}, case=case)
    if frame:
        encoded = build_frames(frame, inputs, chunks, eres)
        eres = [("ok", f) if f is not None else ("error", "a block failed to encode") for f in encoded]
    may_reject = h.get("may_reject", {})
    rejectable = any(enc_opts.get(k) in vals for k, vals in may_reject.items())
    if rejectable and all(r[0] != "ok" for r in eres):
        ctx.skip("option_rejected_by_encoder:%s:%s" % (codec, osig), len(eres))
        return

    # -- independent cross-check of the encoder output
    xc = h.get("xc")
    sides = []
    for b, r in zip(inputs, eres):
        if r[0] != "ok" or xc is None or frame:
            sides.append(None)
        else:
            sides.append(xc(enc_opts, b, r[1]))

    # -- decode
    idx = [i for i, r in enumerate(eres) if r[0] == "ok"]
    per_event = {}
    dopts = dict(dec_opts)
    if buf and buf != "omit":
        if buf == "exact":
            per_event["buf_size"] = [len(inputs[i]) for i in idx]
        elif buf == "plus1":
            per_event["buf_size"] = [len(inputs[i]) + 1 for i in idx]
        elif buf == "zero":
            dopts["buf_size"] = 0
        else:
            dopts["buf_size"] = int(buf)
    dres, dform, dsrc = (run_batch(ctx, dfn, dopts, form, [eres[i][1] for i in idx], per_event)
                         if idx else ([], form, ""))
    if dres is None:
        ctx.skip("program_rejected:" + dfn)
        return
    dmap = dict(zip(idx, dres))

    defaults = {}
    for f in ctx.stdlib():
        if f["id"] == efn:
            defaults = {p["keyword"]: plain(default_of(p)) for p in f["params"]}
    non_default = bool(frame) or any(defaults.get(k) != v for k, v in enc_opts.items())

    for i, b in enumerate(inputs):
        er = eres[i]
        one = one_case(case, b)
        detail = {"encode": esrc, "decode": dsrc, "options": {"enc": enc_opts, "dec": dopts, "frame": frame,
                                                             "buf_size": buf},
                  "input": repr(b)[:400], "input_len": len(b)}
        if er[0] == "panic":
            continue  # reported above
        if er[0] == "error":
            detail["error"] = str(er[1])[:300]
            ctx.violation("%s:%s:encode_error" % (codec, osig), detail, case=one)
            continue
        detail["encoded"] = repr(er[1])[:400]
        dr = dmap[i]
        side = sides[i]
        if dr[0] == "panic":
            detail["panic"] = dr[1]
            ctx.violation("codec:panic@" + panic_path(dr[1]), detail, case=one)
            continue
        if dr[0] == "ok" and dr[1] == b:
            if side is False:
                ctx.count("independent_decoder_disagrees_but_round_trip_holds:" + codec)
                ctx.note("independent_decoder_disagrees", "%s:%s" % (codec, osig))
            nontrivial = len(b) >= 1 and (non_default or not ALNUM.match(b))
            ctx.ok((codec, osig, dform, len_class(len(b))), nontrivial,
                   sample={"encode": esrc, "decode": dsrc, "input": repr(b)[:80], "encoded": repr(er[1])[:80]})
            continue
        # round trip failed
        if dr[0] == "error":
            detail["error"] = str(dr[1])[:300]
            what = "decode_error" if side is not False else "encode_mismatch"
        else:
            detail["decoded"] = repr(dr[1])[:400]
            what = {True: "decode_mismatch", False: "encode_mismatch", None: "roundtrip_mismatch"}[side]
        detail["independent_check_of_encoder_output"] = side
        if codec == "percent" and side is False and PCT_HEX.search(b):
            ctx.note("percent_sets_not_escaping_percent_sign", enc_opts.get("ascii_set", "default"))
            ctx.violation("percent:literal_percent_sign_not_escaped", detail, case=one)
            continue
        if codec == "charset" and side is False and b"&#" in er[1] and b"&#" not in b:
            # the encoder declared a character unmappable (numeric character reference): our idea of the
            # charset's repertoire (taken from Python's codec) is wider than the WHATWG encoder's
            ctx.skip("charset_repertoire_doubt:" + enc_opts.get("to_charset", "?"))
            continue
        if codec == "charset" and side is not False and er[1].startswith((b"\xfe\xff", b"\xff\xfe", b"\xef\xbb\xbf")):
            # one defect for every charset: the encoded text happens to start with the bytes of a
            # UTF-16 / UTF-8 byte order mark and the decoder does not honour the requested charset
            ctx.note("charsets_hit_by_bom_bytes", osig)
            ctx.violation("charset:encoded_text_starts_with_bom_bytes:%s" % what, detail, case=one)
            continue
        ctx.violation("%s:%s:%s" % (codec, osig, what), detail, case=one)
