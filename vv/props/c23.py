"""C23 — encryption round-trips for every algorithm; IP address encryption round-trips.

Monitor: `decrypt(encrypt(p, alg, key, iv), alg, key, iv) == p` is evaluated by the real runtime
for every algorithm name the function accepts, with plaintext / key / IV delivered through the
event (runtime-typed) and the algorithm either runtime-chosen or a literal; likewise
`decrypt_ip(encrypt_ip(ip, key, mode), key, mode) == ip` (compared as addresses with Python's
`ipaddress`) for IPv4/IPv6 x every mode.

Algorithm names are harvested at setup from the quoted names in /repo/src/stdlib/{encrypt,decrypt}.rs
(match arms, `is_valid_algorithm`, the documented list) united with a built-in list; each
candidate is probed, the ones the function rejects as "Invalid algorithm" are dropped.  Required
key / IV sizes are *discovered* by probing key lengths {16,24,32,48,64} x IV lengths {12,16,24}
(extended grid as a fallback) and cross-checked against (a) a built-in expectation table and
(b) the sizes documented in the function's usage text; disagreements are reported as
`size_expectation_mismatch:*` skips (the discovered size is used), a name with no accepted size is
reported as `uncovered_algorithm:*`.  Modes and key sizes of encrypt_ip are handled the same way.
"""
import ipaddress
import os
import re

from ..wire import enc, dec
from ..gen.lit import str_lit

ID = "C23"
LEVEL = "exploration"
BUDGET = {"quick": 20, "thorough": 240}
MEMCHECK = {"requests": 300, "stride": 10}    # thorough: valgrind memcheck over a sample of the workload
FLOOR = {"quick": 250, "thorough": 400}
RULE = ("every accepted algorithm x plaintext lengths 0-96 (all residues mod 16, emphasis on 16k-1/16k/16k+1; "
        "a few up to 2048) with random / all-zero / all-0xff / text / padding-lookalike tails (..80, ..80 00, "
        "..03 03 03, ..00 00 04, ..10 x16) x random and degenerate (all-zero, all-0xff, one repeated byte, ASCII) "
        "keys and IVs of the discovered sizes; algorithm passed at runtime (mixed batch) or as a literal. "
        "encrypt_ip: IPv4/IPv6 edge + structured + random addresses in canonical / exploded / upper-case text x "
        "every mode x random and degenerate keys. Non-trivial: ciphertext differs from the plaintext (the "
        "cipher did something); distinct by (algorithm, form, len mod 16) and (mode, ip version, address "
        "class, key class).")
ASSUMPTIONS = ["Python ipaddress parses the textual IP forms used (canonical, exploded, upper-case, embedded IPv4) "
               "like Rust's IpAddr::from_str",
               "key/IV sizes: the combination accepted by `encrypt` on a probe plaintext is the one the algorithm requires"]

REPO = os.environ.get("VV_REPO", "/repo")
BATCH = 48
IP_BATCH = 64

BUILTIN_ALGS = (
    ["AES-%d-%s" % (b, m) for b in (128, 192, 256)
     for m in ("CFB", "OFB", "CTR", "CTR-LE", "CTR-BE", "CBC-PKCS7", "CBC-ANSIX923", "CBC-ISO7816", "CBC-ISO10126")]
    + ["AES-128-SIV", "AES-256-SIV", "CHACHA20-POLY1305", "XCHACHA20-POLY1305", "XSALSA20-POLY1305"])


def expected_sizes(alg):
    """Built-in expectation table (independent of the source text)."""
    if alg == "AES-128-SIV":
        return (32, 16)
    if alg == "AES-256-SIV":
        return (64, 16)
    if alg == "CHACHA20-POLY1305":
        return (32, 12)
    if alg in ("XCHACHA20-POLY1305", "XSALSA20-POLY1305"):
        return (32, 24)
    m = re.match(r"AES-(128|192|256)-", alg)
    if m:
        return (int(m.group(1)) // 8, 16)
    return None


BUILTIN_MODES = {"aes128": 16, "pfx": 32}
KEY_GRID = (16, 24, 32, 48, 64)
IV_GRID = (12, 16, 24)

S = {}

SYM_SRC_RT = "c, e1 = encrypt(.p, .a, .k, .i)\nd, e2 = decrypt(c, .a, .k, .i)\n[c, e1, d, e2]"
IP_SRC = "c, e1 = encrypt_ip(.ip, .k, .m)\nd, e2 = decrypt_ip(c, .k, .m)\n[c, e1, d, e2]"


def sym_src_lit(alg):
    a = str_lit(alg.encode())
    return "c, e1 = encrypt(.p, %s, .k, .i)\nd, e2 = decrypt(c, %s, .k, .i)\n[c, e1, d, e2]" % (a, a)


def panic_loc(p):
    """file path without line number, repo / registry prefix and crate version."""
    loc = str((p or {}).get("loc", "?")).rsplit(":", 1)[0]
    if loc.startswith(REPO + "/"):
        loc = loc[len(REPO) + 1:]
    m = re.search(r"/registry/src/[^/]+/(.*)$", loc)
    if m:
        loc = re.sub(r"^([A-Za-z0-9_-]+?)-\d+(?:\.\d+)*[^/]*/", r"\1/", m.group(1))
    return loc


def _read(path):
    try:
        with open(os.path.join(REPO, path), encoding="utf-8") as fh:
            return fh.read()
    except OSError:
        return ""


def harvest_algorithms():
    names = list(BUILTIN_ALGS)
    docs = {}
    for path in ("src/stdlib/encrypt.rs", "src/stdlib/decrypt.rs"):
        text = _read(path)
        for m in re.finditer(r'"([A-Z][A-Z0-9]*(?:-[A-Z0-9]+)+)"', text):
            if m.group(1) not in names:
                names.append(m.group(1))
        for m in re.finditer(r"\*\s+(?:Deprecated\s+-\s+)?([A-Z][A-Z0-9-]+)\s+\(key = (\d+) bytes, iv = (\d+) bytes\)", text):
            n, k, i = m.group(1), int(m.group(2)), int(m.group(3))
            if n not in names:
                names.append(n)
            docs.setdefault(path, {})[n] = (k, i)
    return names, docs


def harvest_modes():
    names = list(BUILTIN_MODES)
    for path in ("src/stdlib/encrypt_ip.rs", "src/stdlib/decrypt_ip.rs"):
        for m in re.finditer(r'^\s*"([a-z0-9_-]+)"\s*=>', _read(path), re.M):
            if m.group(1) not in names:
                names.append(m.group(1))
    return names


def _probe_sym(ctx, alg, grid):
    evs = [{"e": {"o": {"p": "probe plaintext", "a": alg, "k": enc(bytes(range(1, k + 1))),
                        "i": enc(bytes(range(101, 101 + i)))}}} for k, i in grid]
    resp = ctx.call({"op": "run", "src": SYM_SRC_RT, "probe": False, "events": evs})
    if not resp.get("compiled"):
        return None, []
    accepted, invalid = [], False
    for (k, i), run in zip(grid, resp["runs"]):
        if "panic" in run or "ok" not in run.get("out", {}):
            continue
        c, e1, d, e2 = dec(run["out"]["ok"])
        if e1 is None:
            accepted.append((k, i))
        elif b"Invalid algorithm" in e1:
            invalid = True
    return invalid, accepted


def setup(ctx):
    report = ctx.proc == 0

    def skip(reason):
        if report:
            ctx.skip(reason)

    names, docs = harvest_algorithms()
    algs = {}
    grid = [(k, i) for k in KEY_GRID for i in IV_GRID]
    wide = [(k, i) for k in range(1, 65) for i in (8, 12, 16, 24, 32)]
    for alg in names:
        invalid, accepted = _probe_sym(ctx, alg, grid)
        if invalid is None:
            skip("harness:probe_program_rejected")
            continue
        if invalid and not accepted:
            if alg in BUILTIN_ALGS:
                skip("uncovered_algorithm:%s:rejected_as_invalid" % alg)
            continue                       # not an algorithm name (or no longer supported)
        if not accepted:
            _inv, accepted = _probe_sym(ctx, alg, wide)
        if not accepted:
            skip("uncovered_algorithm:%s:no_accepted_key_iv_size" % alg)
            continue
        if len(accepted) > 1 and report:
            ctx.note("multiple_accepted_sizes", "%s:%s" % (alg, accepted))
        size = accepted[0]
        algs[alg] = size
        exp = expected_sizes(alg)
        if exp is None:
            skip("size_expectation_missing:%s" % alg)
            if report:
                ctx.note("new_algorithm", "%s key=%d iv=%d" % (alg, size[0], size[1]))
        elif exp != size:
            skip("size_expectation_mismatch:%s:table" % alg)
            if report:
                ctx.note("size_mismatch", "%s discovered=%s table=%s" % (alg, size, exp))
        for path, table in docs.items():
            if alg not in table:
                skip("undocumented_algorithm:%s:%s" % (alg, os.path.basename(path)))
            elif table[alg] != size:
                skip("size_expectation_mismatch:%s:doc:%s" % (alg, os.path.basename(path)))
                if report:
                    ctx.note("size_mismatch", "%s discovered=%s documented=%s (%s)" % (alg, size, table[alg], path))
    # encrypt_ip modes
    modes = {}
    for mode in harvest_modes():
        sizes = list(KEY_GRID) + [k for k in range(1, 65) if k not in KEY_GRID]
        evs = [{"e": {"o": {"ip": "192.0.2.1", "m": mode, "k": enc(bytes(range(1, k + 1)))}}} for k in sizes]
        resp = ctx.call({"op": "run", "src": IP_SRC, "probe": False, "events": evs})
        if not resp.get("compiled"):
            skip("harness:probe_program_rejected")
            continue
        acc = []
        for k, run in zip(sizes, resp["runs"]):
            if "panic" in run or "ok" not in run.get("out", {}):
                continue
            if dec(run["out"]["ok"])[1] is None:
                acc.append(k)
        if not acc:
            skip("uncovered_mode:%s:no_accepted_key_size" % mode)
            continue
        modes[mode] = acc[0]
        if mode not in BUILTIN_MODES:
            skip("size_expectation_missing:mode:%s" % mode)
        elif BUILTIN_MODES[mode] != acc[0]:
            skip("size_expectation_mismatch:mode:%s" % mode)
    if report:
        ctx.count("algorithms_accepted", len(algs))
        ctx.count("ip_modes_accepted", len(modes))
        for a, (k, i) in sorted(algs.items()):
            ctx.note("algorithm_sizes", "%s key=%d iv=%d" % (a, k, i))
    S.clear()
    S.update({"algs": algs, "modes": modes})


# ----------------------------------------------------------------------------------------
# generation

def gen_len(rng):
    r = rng.random()
    if r < 0.45:
        return max(0, 16 * rng.randint(0, 6) + rng.choice((-1, 0, 1)))
    if r < 0.93:
        return rng.randint(0, 96)
    if r < 0.97:
        return rng.choice((97, 111, 112, 127, 128, 129, 255, 256, 257))
    return rng.choice((1000, 1023, 1024, 1025, 2048))


def gen_plain(rng, n):
    r = rng.random()
    if r < 0.40:
        p = rng.randbytes(n)
    elif r < 0.50:
        p = bytes(n)
    elif r < 0.58:
        p = b"\xff" * n
    elif r < 0.70:
        t = "The quick brown fox ✓ jumps over the lazy dög "
        p = (t * (n // len(t) + 2)).encode()[:n]
    else:
        # tails that look like padding
        tail = rng.choice([b"\x80", b"\x80\x00", b"\x80" + bytes(15), b"\x03\x03\x03", b"\x01", b"\x00\x00\x04",
                           b"\x10" * 16, b"\x00" * 15 + b"\x10", b"\x00", b"\x02\x02", b"\x80\x80", b"\x0f" * 15,
                           b"\x00\x00\x00\x01", b"\x11" * 17])
        body = rng.randbytes(n)
        p = (body + tail)[-n:] if n else b""
    return p


def gen_keyish(rng, n):
    r = rng.random()
    if r < 0.60:
        return rng.randbytes(n)
    if r < 0.70:
        return bytes(n)
    if r < 0.80:
        return b"\xff" * n
    if r < 0.88:
        return bytes([rng.getrandbits(8)]) * n
    if r < 0.95:
        return bytes(rng.choice(b"abcdefghijklmnopqrstuvwxyz0123456789_") for _ in range(n))
    return bytes(range(n))


V4_EDGES = ["0.0.0.0", "255.255.255.255", "127.0.0.1", "10.0.0.1", "192.168.1.1", "172.16.0.0", "224.0.0.1",
            "169.254.0.1", "1.2.3.4", "100.64.0.1", "192.0.2.255", "128.0.0.0", "0.0.0.1", "255.0.0.0"]
V6_EDGES = ["::", "::1", "ffff:ffff:ffff:ffff:ffff:ffff:ffff:ffff", "2001:db8::1", "fe80::1", "ff02::1",
            "2001:db8:85a3::8a2e:370:7334", "64:ff9b::192.0.2.33", "::1.2.3.4", "1::", "0:0:0:1::", "::ffff:0:0:0",
            "2002:c000:204::", "8000::", "0:0:0:0:0:fffe:1.2.3.4", "::fffe:ffff:ffff", "1:2:3:4:5:6:7:8",
            "::1:ffff:1.2.3.4", "0:0:0:0:0:ffff::"]
V6_MAPPED = ["::ffff:1.2.3.4", "::ffff:0.0.0.0", "::ffff:255.255.255.255", "::ffff:192.168.1.1", "0:0:0:0:0:ffff:a00:1"]


def gen_ip(rng):
    """-> (text, class)"""
    r = rng.random()
    if r < 0.15:
        return rng.choice(V4_EDGES), "v4_edge"
    if r < 0.40:
        return str(ipaddress.IPv4Address(rng.getrandbits(32))), "v4_random"
    if r < 0.55:
        s = rng.choice(V6_EDGES)
        cls = "v6_edge"
    elif r < 0.63:
        s = rng.choice(V6_MAPPED) if rng.random() < 0.5 else "::ffff:" + str(ipaddress.IPv4Address(rng.getrandbits(32)))
        cls = "v6_v4mapped"
    elif r < 0.80:
        s = str(ipaddress.IPv6Address(rng.getrandbits(128)))
        cls = "v6_random"
    else:
        # structured: sparse groups, long zero runs
        groups = [rng.choice((0, 0, 0, 1, 0xffff, 0xff, rng.getrandbits(16))) for _ in range(8)]
        s = str(ipaddress.IPv6Address(int("".join("%04x" % g for g in groups), 16)))
        cls = "v6_structured"
    a = ipaddress.IPv6Address(s)
    if cls != "v6_edge" and cls != "v6_v4mapped":
        f = rng.random()
        if f < 0.2:
            s = a.exploded
        elif f < 0.35:
            s = s.upper()
    if a.ipv4_mapped is not None:
        cls = "v6_v4mapped"
    return s, cls


def key_class(k):
    if len(set(k)) <= 1:
        return "uniform"
    h = len(k) // 2
    if len(k) % 2 == 0 and k[:h] == k[h:]:
        return "equal_halves"
    return "mixed"


def gen_case(ctx, rng):
    if not S:
        setup(ctx)
    algs, modes = S["algs"], S["modes"]
    if modes and (not algs or rng.random() < 0.2):
        items = []
        for _ in range(IP_BATCH):
            ip, cls = gen_ip(rng)
            mode = rng.choice(sorted(modes))
            n = modes[mode]
            r = rng.random()
            if r < 0.75:
                k = rng.randbytes(n)
            elif r < 0.85:
                k = gen_keyish(rng, n)
            elif r < 0.93 and n % 2 == 0:
                h = rng.randbytes(n // 2)
                k = h + h
            else:
                h = rng.randbytes(n // 2)
                k = h + bytes([h[0] ^ 1]) + h[1:] + bytes(n - 2 * (n // 2))
                k = k[:n]
            items.append({"ip": ip, "cls": cls, "k": enc(k), "m": mode})
        return {"kind": "ip", "items": items}
    if not algs:
        return None
    names = sorted(algs)
    lit = None
    if rng.random() < 0.3:
        lit = rng.choice(names)
    items = []
    for _ in range(BATCH):
        a = lit or rng.choice(names)
        kl, il = algs[a]
        p = gen_plain(rng, gen_len(rng))
        items.append({"a": a, "p": enc(p), "k": enc(gen_keyish(rng, kl)), "i": enc(gen_keyish(rng, il))})
    return {"kind": "sym", "lit": lit, "items": items}


# ----------------------------------------------------------------------------------------
# judging

def len_class(n):
    r = n % 16
    return "len%%16=%s" % (r if r in (0, 1, 15) else "mid")


def attribute_panic(ctx, src_first, event):
    """Which of the two calls panicked? Re-run the first alone."""
    r = ctx.call({"op": "run", "src": src_first, "probe": False, "events": [event]})
    if r.get("compiled") and r.get("runs") and "panic" in r["runs"][0]:
        return 0
    return 1


def run_sym(ctx, case):
    lit = case.get("lit")
    src = sym_src_lit(lit) if lit else SYM_SRC_RT
    form = "literal" if lit else "runtime"
    evs = [{"e": {"o": {"p": it["p"], "a": it["a"], "k": it["k"], "i": it["i"]}}} for it in case["items"]]
    resp = ctx.call({"op": "run", "src": src, "probe": False, "events": evs})
    if "panic" in resp:
        ctx.violation("encrypt:compile_panic@" + panic_loc(resp["panic"]), {"src": src, "panic": resp["panic"]})
        return
    if not resp.get("compiled"):
        if lit:
            ctx.violation("encrypt:%s:literal_algorithm_rejected_at_compile_time" % lit,
                          {"src": src, "diags": resp.get("diags")}, case={"kind": "sym", "lit": lit, "items": case["items"][:1]})
        else:
            ctx.skip("harness:program_rejected")
        return
    for it, ev, run in zip(case["items"], evs, resp["runs"]):
        alg = it["a"]
        p, k, iv = dec(it["p"]), dec(it["k"]), dec(it["i"])
        one = {"kind": "sym", "lit": lit, "items": [it]}
        base = {"algorithm": alg, "form": form, "plaintext_hex": p.hex(), "len": len(p),
                "key_hex": k.hex(), "iv_hex": iv.hex()}
        if "panic" in run:
            first = (sym_src_lit(lit) if lit else SYM_SRC_RT).split("\n")[0]
            fn = ("encrypt", "decrypt")[attribute_panic(ctx, first, ev)]
            base["panic"] = run["panic"]
            ctx.violation("%s:panic@%s" % (fn, panic_loc(run["panic"])), base, case=one)
            continue
        out = run["out"]
        if "ok" not in out:
            base["out"] = out
            ctx.violation("encrypt:%s:program_failed" % alg, base, case=one)
            continue
        c, e1, d, e2 = dec(out["ok"])
        if e1 is not None:
            base["error"] = repr(e1)
            if b"Invalid key size" in e1 or b"Invalid iv size" in e1 or b"Invalid algorithm" in e1:
                # sizes are discovered in setup; a replayed case against a changed tree may carry stale sizes
                ctx.skip("stale_or_rejected_parameters:%s" % alg)
            else:
                ctx.violation("encrypt:%s:encrypt_error" % alg, base, case=one)
            continue
        base["ciphertext_hex"] = c.hex() if isinstance(c, bytes) else repr(c)
        if e2 is not None:
            base["error"] = repr(e2)
            ctx.violation("encrypt:%s:decrypt_error:%s" % (alg, len_class(len(p))), base, case=one)
            continue
        if type(d) is not bytes or d != p:
            base["decrypted"] = d.hex() if isinstance(d, bytes) else repr(d)
            ctx.violation("encrypt:%s:roundtrip_mismatch:%s" % (alg, len_class(len(p))), base, case=one)
            continue
        ctx.ok((alg, form, len(p) % 16 if len(p) <= 96 else "long"), nontrivial=(c != p),
               sample={"algorithm": alg, "form": form, "len": len(p), "ciphertext_len": len(c),
                       "key_class": key_class(k), "iv_class": key_class(iv)})


def run_ip(ctx, case):
    evs = [{"e": {"o": {"ip": it["ip"], "k": it["k"], "m": it["m"]}}} for it in case["items"]]
    resp = ctx.call({"op": "run", "src": IP_SRC, "probe": False, "events": evs})
    if not resp.get("compiled"):
        ctx.skip("harness:program_rejected")
        return
    for it, ev, run in zip(case["items"], evs, resp["runs"]):
        mode, text = it["m"], it["ip"]
        k = dec(it["k"])
        one = {"kind": "ip", "items": [it]}
        try:
            addr = ipaddress.ip_address(text)
        except ValueError:
            ctx.skip("harness:unparsable_generated_ip")
            continue
        ver = "v%d" % addr.version
        base = {"ip": text, "mode": mode, "key_hex": k.hex(), "key_class": key_class(k)}
        if "panic" in run:
            # attribute: run each function alone on the same (ip, key, mode)
            hit = False
            for fn in ("encrypt_ip", "decrypt_ip"):
                r = ctx.call({"op": "run", "src": "%s!(.ip, .k, .m)" % fn, "probe": False, "events": [ev]})
                if r.get("compiled") and r.get("runs") and "panic" in r["runs"][0]:
                    hit = True
                    ctx.violation("%s:panic@%s" % (fn, panic_loc(r["runs"][0]["panic"])),
                                  dict(base, panic=r["runs"][0]["panic"], call="%s(ip, key, mode)" % fn), case=one)
            if not hit:
                ctx.violation("encrypt_ip:roundtrip_panic@%s" % panic_loc(run["panic"]),
                              dict(base, panic=run["panic"]), case=one)
            continue
        out = run["out"]
        if "ok" not in out:
            base["out"] = out
            ctx.violation("encrypt_ip:%s:program_failed" % mode, base, case=one)
            continue
        c, e1, d, e2 = dec(out["ok"])
        if e1 is not None:
            base["error"] = repr(e1)
            if b"byte key" in e1 or b"Invalid mode" in e1:
                ctx.skip("stale_or_rejected_parameters:%s" % mode)
            elif b"halves" in e1:
                # ipcrypt-pfx requires the two 16-byte halves of the key to differ: such a key is not
                # "of the sizes the algorithm requires" in the property's sense
                ctx.skip("pfx_key_with_identical_halves_rejected")
            else:
                ctx.violation("encrypt_ip:%s:encrypt_error:%s" % (mode, ver), base, case=one)
            continue
        base["encrypted"] = repr(c)
        if e2 is not None:
            base["error"] = repr(e2)
            ctx.violation("encrypt_ip:%s:decrypt_error:%s" % (mode, ver), base, case=one)
            continue
        base["decrypted"] = repr(d)
        try:
            back = ipaddress.ip_address(d.decode())
        except (ValueError, UnicodeDecodeError, AttributeError):
            ctx.violation("encrypt_ip:%s:result_not_an_ip:%s" % (mode, ver), base, case=one)
            continue
        if back != addr or back.version != addr.version:
            if (addr.version == 6 and addr.ipv4_mapped is not None and back.version == 4
                    and back == addr.ipv4_mapped):
                # an IPv4-mapped IPv6 address and the IPv4 address denote the same address; whether the
                # textual family must survive is not stated by the property: counted, not judged
                ctx.skip("ipv4_mapped_ipv6_comes_back_as_ipv4:%s" % mode)
            else:
                ctx.violation("encrypt_ip:%s:roundtrip_mismatch:%s" % (mode, ver), base, case=one)
            continue
        try:
            enc_addr = ipaddress.ip_address(c.decode())
            changed = enc_addr != addr
        except (ValueError, UnicodeDecodeError):
            changed = True
        ctx.ok(("encrypt_ip", mode, ver, it.get("cls", "?"), key_class(k)), nontrivial=changed,
               sample={"ip": text, "mode": mode, "encrypted": repr(c), "key_class": key_class(k)})


def run_case(ctx, case):
    if case.get("kind") == "ip":
        run_ip(ctx, case)
    else:
        run_sym(ctx, case)
