"""C24 — key-value, logfmt and CSV encoders round-trip.

Monitor: flat objects whose keys and values are non-empty UTF-8 strings (1-6 pairs) go
runtime-typed through the event into `encode_key_value` (delimiters, fields_ordering,
flatten_boolean runtime-typed too) and the text into `parse_key_value` with the *same*
delimiters (whitespace mode enumerated from the stdlib metadata, as a literal; accept_standalone_key
runtime-typed), likewise `encode_logfmt`/`parse_logfmt`; lists of strings go through
`encode_csv`/`parse_csv` (default and explicit single-byte delimiter).

Oracle (independent of vrl): round-trip identity, nothing else. A failing case is shrunk by
re-running the same oracle (single pair -> plain key or plain value -> character removal ->
default options) and the signature is derived from the set of special characters left in the
minimal failing key / value, e.g. `kv:value-contains:backslash`.
"""
import unicodedata

from ..wire import enc, dec, veq
from ..gen import values as gv

ID = "C24"
LEVEL = "exploration"
BUDGET = {"quick": 20, "thorough": 240}
FLOOR = {"quick": 60, "thorough": 120}
RULE = ("flat objects of 1-6 pairs, keys/values non-empty strings over letters, digits, space, tab, CR, LF, "
        "double/single quote, backslash, '=', ',', ':', ';', '|', '#', the active delimiters, Unicode letters, "
        "Unicode spaces, emoji; x {default delimiters, 7x9 explicit delimiter pairs incl. multi-character} "
        "x whitespace mode (from metadata) x accept_standalone_key x fields_ordering; logfmt likewise; CSV "
        "lists of 0-6 strings (also empty strings, rarely non-UTF-8 bytes) x delimiter. Non-trivial: some "
        "key/value contains a character outside [A-Za-z0-9_] (needs quoting or escaping); distinct by "
        "(format, option shape, special-character classes in keys, in values).")
ASSUMPTIONS = ["'matching delimiters' := the same non-empty key_value_delimiter / field_delimiter strings passed "
               "to encoder and parser, distinct, neither containing the other, without quotes or backslashes, "
               "without white space except the one-character field delimiters space / tab / newline",
               "the empty object is not judged (the statement's objects have at least one pair)",
               "string := UTF-8 text for key-value/logfmt (the encoder is documented to work on strings); CSV "
               "fields may be arbitrary bytes"]

BATCH = 48

# delimiters containing white space (other than the single-character field delimiters " ", tab, newline)
# are left out: whether they can "match" under the parser's documented whitespace handling is unclear
KV_DELIMS = ["=", ":", "=>", "::", "->", "~", "|"]
FD_DELIMS = [" ", ",", ";", "|", "&", "\t", "||", "\n", "//"]
CSV_DELIMS = [",", ";", "\t", "|", " ", ":"]

PLAIN = "abcdefghijklmnopqrstuvwxyzABCXYZ0123456789_"
SPECIAL = [" ", " ", "\t", "\n", "\r", "\r\n", '"', '"', "\\", "\\", "=", ",", "'", ":", ";", "|", "#", ".", "-",
           "/", "[", "]", "{", "}", "&", "~", ">", "é", "日", "\U0001f600", "\u00a0", "\u2003", "\u3000", "\u000b", "\u0085", "\u2028", "\x00",
           "\x1b", "\\n", '\\"', "\\\\", '""', "''", "%"]

NAMES = {" ": "space", "\t": "tab", "\n": "newline", "\r": "cr", '"': "dquote", "'": "squote", "\\": "backslash",
         "=": "equals", ",": "comma", ":": "colon", ";": "semicolon", "|": "pipe", "#": "hash", ".": "dot",
         "-": "dash", "/": "slash", "&": "ampersand", "~": "tilde", ">": "gt", "%": "percent"}


# ----------------------------------------------------------------------------------------
# generators

def gen_string(rng, extra=(), maxlen=8, p_special=None):
    if p_special is None:
        p_special = rng.choice([0.0, 0.15, 0.15, 0.4, 0.8])
    n = rng.choice([1, 1, 2, 3, 4, 5, maxlen])
    out = []
    for _ in range(n):
        r = rng.random()
        if r < p_special:
            out.append(rng.choice(SPECIAL) if not extra or rng.random() < 0.7 else rng.choice(extra))
        else:
            out.append(rng.choice(PLAIN))
    return "".join(out)


def gen_object(rng, extra):
    n = rng.choice([1, 1, 2, 2, 3, 4, 6])
    o = {}
    p = rng.choice([0.0, 0.1, 0.3, 0.6])
    for _ in range(n):
        k = gen_string(rng, extra, 6, p_special=rng.choice([0.0, 0.0, p]))
        o[k] = gen_string(rng, extra, 8, p_special=p if rng.random() < 0.8 else None)
    return o


def ws_variants(ctx):
    """Literal-only enum parameters of parse_key_value, from the metadata."""
    out = [None]
    for f in ctx.stdlib():
        if f["id"] == "parse_key_value":
            for p in f["params"]:
                if p.get("enum"):
                    if p["keyword"] == "whitespace":
                        out.extend(p["enum"])
                    else:
                        ctx.note("uncovered_enum_param", "parse_key_value." + p["keyword"])
                elif p["keyword"] not in ("value", "key_value_delimiter", "field_delimiter", "accept_standalone_key"):
                    ctx.note("uncovered_param", "parse_key_value." + p["keyword"])
        if f["id"] in ("encode_key_value", "encode_logfmt", "parse_logfmt", "encode_csv", "parse_csv"):
            for p in f["params"]:
                if p["keyword"] not in ("value", "key_value_delimiter", "field_delimiter", "fields_ordering",
                                        "flatten_boolean", "delimiter"):
                    ctx.note("uncovered_param", "%s.%s" % (f["id"], p["keyword"]))
    return out


def gen_ord(rng, o):
    r = rng.random()
    keys = list(o)
    if r < 0.4:
        return []
    rng.shuffle(keys)
    if r < 0.7:
        return keys
    return keys[:rng.randint(0, len(keys))] + (["zz_absent"] if rng.random() < 0.3 else [])


def gen_case(ctx, rng):
    r = rng.random()
    items = []
    if r < 0.55:
        fmt = "kv"
        ws = rng.choice(ws_variants(ctx))
        explicit = rng.random() < 0.65
        for _ in range(BATCH):
            if explicit:
                while True:
                    kvd, fd = rng.choice(KV_DELIMS), rng.choice(FD_DELIMS)
                    if rng.random() < 0.3:
                        kvd, fd = "=", " "
                    if kvd != fd and kvd not in fd and fd not in kvd:
                        break
                o = gen_object(rng, [kvd, fd])
                items.append({"o": enc(o), "kv": kvd, "fd": fd, "ws": ws, "sk": rng.random() < 0.7,
                              "ord": gen_ord(rng, o), "fb": rng.random() < 0.3})
            else:
                o = gen_object(rng, ["=", " "])
                items.append({"o": enc(o), "kv": None, "fd": None, "ws": ws, "sk": None, "ord": None, "fb": None})
    elif r < 0.75:
        fmt = "logfmt"
        with_ord = rng.random() < 0.4
        for _ in range(BATCH):
            o = gen_object(rng, ["=", " "])
            items.append({"o": enc(o), "ord": gen_ord(rng, o) if with_ord else None})
    else:
        fmt = "csv"
        explicit = rng.random() < 0.5
        binary = rng.random() < 0.1
        for _ in range(BATCH):
            d = rng.choice(CSV_DELIMS) if explicit else None
            n = rng.choice([0, 1, 1, 2, 3, 4, 6])
            lst = []
            for _ in range(n):
                q = rng.random()
                if q < 0.12:
                    lst.append(b"")
                elif binary and q < 0.4:
                    lst.append(rng.randbytes(rng.randint(1, 6)))
                else:
                    lst.append(gen_string(rng, [d or ","], 8).encode("utf-8"))
            items.append({"l": enc(lst), "d": d})
    return {"fmt": fmt, "items": items}


# ----------------------------------------------------------------------------------------
# programs

def program(fmt, item):
    if fmt == "kv":
        wsarg = ', whitespace: "%s"' % item["ws"] if item.get("ws") else ""
        if item.get("kv") is None:
            return ("t, e1 = encode_key_value(.o)\n"
                    "r, e2 = parse_key_value(t%s)\n[t, e1, r, e2]" % wsarg)
        return ("t, e1 = encode_key_value(.o, fields_ordering: .ord, key_value_delimiter: .kv, "
                "field_delimiter: .fd, flatten_boolean: .fb)\n"
                "r, e2 = parse_key_value(t, key_value_delimiter: .kv, field_delimiter: .fd%s, "
                "accept_standalone_key: .sk)\n[t, e1, r, e2]" % wsarg)
    if fmt == "logfmt":
        if item.get("ord") is None:
            return "t, e1 = encode_logfmt(.o)\nr, e2 = parse_logfmt(t)\n[t, e1, r, e2]"
        return "t, e1 = encode_logfmt(.o, fields_ordering: .ord)\nr, e2 = parse_logfmt(t)\n[t, e1, r, e2]"
    if item.get("d") is None:
        return "t, e1 = encode_csv(.l)\nr, e2 = parse_csv(t)\n[t, e1, r, e2]"
    return "t, e1 = encode_csv(.l, delimiter: .d)\nr, e2 = parse_csv(t, delimiter: .d)\n[t, e1, r, e2]"


def event(fmt, item):
    e = {}
    if fmt == "csv":
        e["l"] = item["l"]
        if item.get("d") is not None:
            e["d"] = item["d"]
    else:
        e["o"] = item["o"]
        for k in ("kv", "fd", "sk", "fb"):
            if item.get(k) is not None:
                e[k] = item[k]
        if item.get("ord") is not None:
            e["ord"] = list(item["ord"])
    return {"e": {"o": e}}


def original(fmt, item):
    return dec(item["l"] if fmt == "csv" else item["o"])


def evaluate(ctx, fmt, items):
    """-> list of outcomes: None (held) | {"kind": "encode_error"|"parse_error"|"mismatch"|"panic"|..., ...}"""
    groups = {}
    for i, it in enumerate(items):
        groups.setdefault(program(fmt, it), []).append(i)
    out = [None] * len(items)
    for src, idx in groups.items():
        resp = ctx.call({"op": "run", "src": src, "probe": False, "events": [event(fmt, items[i]) for i in idx]})
        if not resp.get("compiled"):
            for i in idx:
                out[i] = {"kind": "rejected", "diags": resp.get("diags")}
            continue
        for i, run in zip(idx, resp["runs"]):
            if "panic" in run:
                out[i] = {"kind": "panic", "panic": run["panic"], "program": src}
                continue
            if "ok" not in run["out"]:
                out[i] = {"kind": "program_failed", "out": run["out"], "program": src}
                continue
            t, e1, r, e2 = dec(run["out"]["ok"])
            orig = original(fmt, items[i])
            if e1 is not None:
                out[i] = {"kind": "encode_error", "error": repr(e1)[:300], "program": src}
            elif e2 is not None:
                out[i] = {"kind": "parse_error", "text": repr(t)[:400], "error": repr(e2)[:300], "program": src}
            elif not veq(r, orig):
                out[i] = {"kind": "mismatch", "text": repr(t)[:400], "parsed": repr(r)[:400], "program": src}
            else:
                out[i] = {"kind": "held", "text": t}
    return out


def failed(o):
    return o is not None and o["kind"] in ("encode_error", "parse_error", "mismatch", "panic")


# ----------------------------------------------------------------------------------------
# classification

def classes(s, delims=()):
    """Set of special-character classes in s (bytes or str). delims: [(name, string)]."""
    if isinstance(s, bytes):
        try:
            s = s.decode("utf-8")
        except UnicodeDecodeError:
            return {"non_utf8"}
    out = set()
    partial = {}
    for name, d in delims:
        if d and d in s:
            out.add(name)
            s = s.replace(d, "")
        if d and len(d) > 1:
            for ch in d:
                partial.setdefault(ch, name + "_char")
    for ch in s:
        if ch in PLAIN:
            continue
        if ch in partial:
            out.add(partial[ch])
            continue
        if ch in NAMES:
            out.add(NAMES[ch])
        elif ord(ch) < 0x20 or ord(ch) == 0x7F:
            out.add("control")
        elif ord(ch) < 0x80:
            out.add("punct")
        elif ch.isspace() or unicodedata.category(ch) in ("Zs", "Zl", "Zp"):
            out.add("unicode_space")
        else:
            out.add("nonascii")
    return out


def item_delims(fmt, item):
    if fmt == "kv":
        kvd = item.get("kv") if item.get("kv") is not None else "="
        fd = item.get("fd") if item.get("fd") is not None else " "
        d = []
        if fd != " ":
            d.append(("field_delimiter", fd))
        if kvd != "=":
            d.append(("kv_delimiter", kvd))
        # longest first so that "||" wins over "|"
        return sorted(d, key=lambda x: -len(x[1]))
    if fmt == "csv":
        d = item.get("d")
        return [("delimiter", d)] if d is not None and d != "," else []
    return []


def cls_text(c):
    return "+".join(sorted(c)) if c else "plain"


PRIORITY = ["backslash", "newline", "dquote", "squote", "field_delimiter", "kv_delimiter", "delimiter",
            "field_delimiter_char", "kv_delimiter_char", "equals", "space", "tab", "cr", "unicode_space", "control",
            "comma", "non_utf8", "empty_field", "nonascii"]


def cov_class(c):
    """Coarse coverage class: the most notable special-character class plus how many there are."""
    if not c:
        return "plain"
    first = next((x for x in PRIORITY if x in c), None) or "other_punct"
    return "%s/%s" % (first, "1" if len(c) == 1 else "2" if len(c) == 2 else "3+")


# ----------------------------------------------------------------------------------------
# shrinking (every step re-judged by `evaluate`)

def still_fails(ctx, fmt, cands):
    """Index of the first failing candidate or None."""
    if not cands:
        return None
    outs = evaluate(ctx, fmt, cands)
    for i, o in enumerate(outs):
        if failed(o):
            return i
    return None


def with_obj(item, o):
    it = dict(item)
    it["o"] = enc(o)
    if it.get("ord") is not None:
        it["ord"] = [k for k in it["ord"] if k in o]
    return it


def shorter(s):
    """Strictly shorter non-empty variants of s."""
    out = []
    if len(s) > 2:
        out.append(s[:len(s) // 2])
        out.append(s[len(s) // 2:])
    if len(s) > 1:
        out.extend(s[:i] + s[i + 1:] for i in range(len(s)))
    seen, res = set(), []
    for x in out:
        if x and x not in seen:
            seen.add(x)
            res.append(x)
    return res


def shrink_string(ctx, fmt, make, s):
    """make(s) -> item. Greedy minimisation of s keeping failure."""
    for _ in range(60):
        cands = shorter(s)
        i = still_fails(ctx, fmt, [make(c) for c in cands])
        if i is None:
            break
        s = cands[i]
    return s


def shrink_object_item(ctx, fmt, item):
    """-> (item, role) with role in key|value|pair|multi."""
    o = dec(item["o"])
    # 1. a single pair
    if len(o) > 1:
        pairs = [{k: v} for k, v in o.items()]
        i = still_fails(ctx, fmt, [with_obj(item, p) for p in pairs])
        if i is not None:
            o = pairs[i]
        else:
            # drop pairs one at a time while it keeps failing
            changed = True
            while changed and len(o) > 2:
                changed = False
                subs = [{k: v for k, v in o.items() if k != drop} for drop in o]
                i = still_fails(ctx, fmt, [with_obj(item, s) for s in subs])
                if i is not None:
                    o = subs[i]
                    changed = True
    item = with_obj(item, o)
    if item.get("ord"):
        it2 = dict(item)
        it2["ord"] = []
        if still_fails(ctx, fmt, [it2]) is not None:
            item = it2
    if len(o) > 1:
        # plain keys named in encoding order (so that fields_ordering can be dropped)
        order = [k for k in (item.get("ord") or []) if k in o]
        order += [k for k in sorted(o, key=lambda x: x.encode("utf-8")) if k not in order]
        o2 = {"k%d" % n: o[k] for n, k in enumerate(order)}
        it2 = dict(item, o=enc(o2))
        if it2.get("ord") is not None:
            it2["ord"] = []
        if still_fails(ctx, fmt, [it2]) is not None:
            item, o = it2, o2
        # make every key / value plain that can be
        for n, k in enumerate(list(o)):
            o2 = {("k%d" % n if kk == k else kk): vv for kk, vv in o.items()}
            if len(o2) == len(o) and o2 != o and still_fails(ctx, fmt, [with_obj(item, o2)]) is not None:
                o = o2
        for k in list(o):
            o2 = dict(o)
            o2[k] = b"v"
            if o2 != o and still_fails(ctx, fmt, [with_obj(item, o2)]) is not None:
                o = o2
        for k in list(o):
            if o[k] != b"v":
                def mk(sv, k=k):
                    o3 = dict(o)
                    o3[k] = sv.encode("utf-8")
                    return with_obj(item, o3)
                o[k] = shrink_string(ctx, fmt, mk, o[k].decode("utf-8")).encode("utf-8")
        for k in list(o):
            if not (k.startswith("k") and k[1:].isdigit()):
                def mk2(sk, k=k):
                    if sk in o:
                        return with_obj(item, {"k": b"v"})       # would collide: a candidate that holds
                    o3 = {(sk if kk == k else kk): vv for kk, vv in o.items()}
                    return with_obj(item, o3)
                k2 = shrink_string(ctx, fmt, mk2, k)
                if k2 != k and k2 not in o:
                    o = {(k2 if kk == k else kk): vv for kk, vv in o.items()}
        return with_obj(item, o), "multi"
    (k, v), = o.items()
    # 2. which side?
    plain_key = with_obj(item, {"k": v})
    plain_val = with_obj(item, {k: b"v"})
    outs = evaluate(ctx, fmt, [plain_key, plain_val])
    if failed(outs[0]):
        v2 = shrink_string(ctx, fmt, lambda s: with_obj(item, {"k": s.encode("utf-8")}), v.decode("utf-8"))
        return with_obj(item, {"k": v2.encode("utf-8")}), "value"
    if failed(outs[1]):
        k2 = shrink_string(ctx, fmt, lambda s: with_obj(item, {s: b"v"}), k)
        return with_obj(item, {k2: b"v"}), "key"
    # needs both: shrink each in turn
    k2 = shrink_string(ctx, fmt, lambda s: with_obj(item, {s: v}), k)
    v2 = shrink_string(ctx, fmt, lambda s: with_obj(item, {k2: s.encode("utf-8")}), v.decode("utf-8"))
    return with_obj(item, {k2: v2.encode("utf-8")}), "pair"


def generalize_kv(ctx, item):
    """Try the same object under default options; -> (item, [option names the failure depends on])."""
    defaults = dict(item, kv=None, fd=None, ws=None, sk=None, ord=None, fb=None)
    if item == defaults:
        return item, []
    if still_fails(ctx, "kv", [defaults]) is not None:
        return defaults, []
    if item.get("kv") is None:
        return item, option_parts(item)
    d_rest = dict(item, ws=None, sk=True, ord=[], fb=False)     # only the delimiters stay
    if still_fails(ctx, "kv", [d_rest]) is not None:
        return d_rest, ["custom_delimiters"]
    d_delims = dict(item, kv="=", fd=" ")                       # only the other options stay
    if still_fails(ctx, "kv", [d_delims]) is not None:
        return d_delims, option_parts(item)
    return item, ["custom_delimiters"] + option_parts(item)


def option_parts(item):
    parts = []
    if item.get("ws"):
        parts.append("whitespace=" + item["ws"])
    if item.get("sk") is False:
        parts.append("accept_standalone_key=false")
    return parts or ["explicit_options"]


def shrink_csv_item(ctx, item):
    lst = dec(item["l"])
    if len(lst) > 1:
        singles = [[x] for x in lst]
        i = still_fails(ctx, "csv", [dict(item, l=enc(s)) for s in singles])
        if i is not None:
            lst = singles[i]
        else:
            changed = True
            while changed and len(lst) > 2:
                changed = False
                subs = [lst[:j] + lst[j + 1:] for j in range(len(lst))]
                i = still_fails(ctx, "csv", [dict(item, l=enc(s)) for s in subs])
                if i is not None:
                    lst = subs[i]
                    changed = True
    item = dict(item, l=enc(lst))
    if len(lst) == 1 and len(lst[0]) > 1:
        b = lst[0]
        try:
            s = b.decode("utf-8")
            s2 = shrink_string(ctx, "csv", lambda x: dict(item, l=enc([x.encode("utf-8")])), s)
            item = dict(item, l=enc([s2.encode("utf-8")]))
        except UnicodeDecodeError:
            pass
    if item.get("d") is not None:
        d = dict(item, d=None)
        if still_fails(ctx, "csv", [d]) is not None:
            item = d
    return item


# ----------------------------------------------------------------------------------------

def panic_path(p):
    loc = (p or {}).get("loc", "?")
    path = loc.rsplit(":", 1)[0]
    if "/registry/src/" in path:
        path = path.split("/registry/src/", 1)[1].split("/", 1)[-1]
    elif path.startswith("/repo/"):
        path = path[len("/repo/"):]
    return path


def without_class(x, cls, delims):
    """x (bytes) with every character of class cls replaced by a plain letter (None if not text)."""
    try:
        t = x.decode("utf-8")
    except UnicodeDecodeError:
        return None
    for name, d in delims:
        if name == cls and d:
            t = t.replace(d, "x")
    out = []
    for ch in t:
        out.append("x" if (ch not in PLAIN and cls in classes(ch, [(n, d) for n, d in delims if len(d) > 1])) else ch)
    return "".join(out).encode("utf-8")


def only_class(x, cls, delims):
    """x (bytes) keeping only the special characters of class cls."""
    try:
        t = x.decode("utf-8")
    except UnicodeDecodeError:
        return None
    multi = [(n, d) for n, d in delims if len(d) > 1]
    return "".join(ch if (ch in PLAIN or cls in classes(ch, multi)) else "x" for ch in t).encode("utf-8")


def necessary_class(ctx, fmt, m, o, delims, union):
    """Several special strings interact. Delta-debugging step: the classes whose removal from every
    key and value cures the failure are *necessary*; among them the one to name is the first that also
    fails in isolation (a single pair whose only special characters are of that class) — the others
    merely accompany it. If none fails alone it is a genuine interaction, named a+b."""
    def as_b(k):
        return k.encode("utf-8") if isinstance(k, str) else k
    needed = []
    for cls in [c for c in PRIORITY if c in union]:
        o2 = {}
        for i, (k, v) in enumerate(o.items()):
            k2 = without_class(as_b(k), cls, delims)
            v2 = without_class(v, cls, delims) if isinstance(v, bytes) else v
            if k2 is None or v2 is None:
                break
            k2 = k2.decode("utf-8")
            if k2 in o2:
                k2 += "k%d" % i
            o2[k2] = v2
        else:
            if o2 != o and not failed(evaluate(ctx, fmt, [dict(m, o=enc(o2))])[0]):
                needed.append(cls)
    for cls in needed:
        singles = []
        for k, v in o.items():
            if cls in classes(as_b(k), delims):
                k1 = only_class(as_b(k), cls, delims)
                if k1 is not None:
                    singles.append({k1.decode("utf-8"): b"v"})
            if isinstance(v, bytes) and cls in classes(v, delims):
                v1 = only_class(v, cls, delims)
                if v1 is not None:
                    singles.append({"k": v1})
        if singles and any(failed(r) for r in evaluate(ctx, fmt, [dict(m, o=enc(x)) for x in singles])):
            return cls
    # none fails alone: an interaction. Spaces and double quotes are what the encoders do handle
    # (they quote on space and escape the double quote), so they are context, not cause.
    rest = [c for c in needed if c not in ("space", "dquote")]
    if rest:
        return rest[0]
    if needed:
        return "+".join(sorted(needed))
    return None


def report(ctx, fmt, item, outcome):
    if outcome["kind"] == "panic":
        ctx.violation("%s:panic@%s" % (fmt, panic_path(outcome["panic"])),
                      {"program": outcome["program"], "event": event(fmt, item)["e"], "panic": outcome["panic"]},
                      case={"fmt": fmt, "items": [item]})
        return
    opts = []
    if fmt == "csv":
        m = shrink_csv_item(ctx, item)
        lst = dec(m["l"])
        if not lst:
            sig = "csv:empty_list"
        elif len(lst) > 1:
            c = set()
            for x in lst:
                c |= classes(x, item_delims(fmt, m)) or ({"empty_field"} if not x else set())
            sig = "csv:multi-field:" + cls_text(c)
        elif lst[0] == b"":
            sig = "csv:single_empty_field"
        else:
            sig = "csv:field-contains:" + cls_text(classes(lst[0], item_delims(fmt, m)))
    else:
        m, role = shrink_object_item(ctx, fmt, item)
        if fmt == "kv":
            m, opts = generalize_kv(ctx, m)
        o = dec(m["o"])
        delims = item_delims(fmt, m)
        special = [("key", classes(k, delims)) for k in o] + [("value", classes(v, delims)) for v in o.values()]
        special = [(r, c) for r, c in special if c]
        if len(o) == 1 and role in ("key", "value"):
            (k, v), = o.items()
            sig = "%s:%s-contains:%s" % (fmt, role, cls_text(classes(v if role == "value" else k, delims)))
        elif len(special) == 1:
            # one special string, but the failure needs a second (plain) pair next to it
            sig = "%s:%s-contains:%s:in_multi_pair" % (fmt, special[0][0], cls_text(special[0][1]))
        elif not special:
            sig = "%s:plain_pairs" % fmt
        else:
            union = set()
            for _, c in special:
                union |= c
            # several special strings interact: name the most notable class only (the full set is in
            # the witness), so that variants of one defect share a signature
            primary = necessary_class(ctx, fmt, m, o, delims, union) \
                or next((x for x in PRIORITY if x in union), None) or cls_text(union)
            sig = "%s:several-contain:%s" % (fmt, primary)
    if "custom_delimiters" in opts and "delimiter" in sig:
        opts.remove("custom_delimiters")     # already said by the character class
    suffix = ":only_with:" + ",".join(opts) if opts else ""
    final = evaluate(ctx, fmt, [m])[0]
    if not failed(final):
        # shrinking lost the failure (should not happen): report the original, unshrunk
        m, final = item, outcome
        sig = "%s:unshrunk:%s" % (fmt, outcome["kind"])
        suffix = ""
    detail = {"program": final.get("program"), "input": repr(original(fmt, m)),
              "options": {k: v for k, v in m.items() if k not in ("o", "l")}, "failure": final["kind"]}
    for k in ("text", "parsed", "error", "panic"):
        if k in final:
            detail[k] = final[k]
    detail["fine_signature"] = sig + suffix
    ctx.violation(coarse_signature(sig), detail, case={"fmt": fmt, "items": [m]})


def shape(fmt, item):
    if fmt == "kv":
        if item.get("kv") is None:
            d = "defaults"
        else:
            d = "std_delims" if (item["kv"], item["fd"]) == ("=", " ") else \
                "custom_delims" if len(item["kv"]) + len(item["fd"]) == 2 else "multichar_delims"
        return d + "/ws=" + str(item.get("ws"))
    if fmt == "logfmt":
        return "ord" if item.get("ord") else "plain"
    return "d=" + NAMES.get(item["d"], item["d"]) if item.get("d") is not None else "defaults"


ROUGH_SEEN = {}
MAX_SHRINKS_PER_ROUGH_CLASS = 2


def rough_class(fmt, item):
    orig = original(fmt, item)
    delims = item_delims(fmt, item)
    c = set()
    if fmt == "csv":
        for x in orig:
            c |= classes(x, delims)
        return (fmt, len(orig) > 1, item.get("d") is not None, tuple(sorted(c)))
    for k, v in orig.items():
        c |= {"k:" + x for x in classes(k, delims)}
        c |= {"v:" + x for x in classes(v, delims)}
    return (fmt, item.get("ws"), item.get("sk"), tuple(sorted(c)))


def coarse_signature(sig):
    """<format>:<character class>: which role (key / value / several pairs) carried the character and
    which options were needed is part of the witness, not of the signature — the encoders have one
    quoting rule per format, so one character class is one defect."""
    parts = sig.split(":")
    if len(parts) >= 3 and (parts[1].endswith("-contains") or parts[1] == "several-contain"):
        return "%s:%s" % (parts[0], parts[2])
    return sig


def run_case(ctx, case):
    fmt = case["fmt"]
    items = case["items"]
    outs = evaluate(ctx, fmt, items)
    for item, o in zip(items, outs):
        if o is None or o["kind"] == "rejected":
            ctx.skip("harness:program_rejected")
            continue
        if o["kind"] == "program_failed":
            ctx.violation("%s:program_failed" % fmt, {"out": o["out"], "program": o["program"],
                                                      "event": event(fmt, item)["e"]},
                          case={"fmt": fmt, "items": [item]})
            continue
        if failed(o):
            rc = rough_class(fmt, item)
            seen = ROUGH_SEEN.get(rc, 0)
            if o["kind"] != "panic" and seen >= MAX_SHRINKS_PER_ROUGH_CLASS and ctx.corpus_idx is None:
                # same character classes / options as a failure this process already shrunk and reported
                ctx.count("round_trip_failures_not_shrunk(same class as a reported one)")
                continue
            ROUGH_SEEN[rc] = seen + 1
            report(ctx, fmt, item, o)
            continue
        orig = original(fmt, item)
        delims = item_delims(fmt, item)
        if fmt == "csv":
            vc = set()
            for x in orig:
                vc |= classes(x, delims)
                if not x:
                    vc.add("empty_field")
            key = (fmt, shape(fmt, item), cov_class(vc), "n>1" if len(orig) > 1 else "n<=1")
            nontrivial = bool(vc)
        else:
            kc, vc = set(), set()
            for k, v in orig.items():
                kc |= classes(k, delims)
                vc |= classes(v, delims)
            key = (fmt, shape(fmt, item), cov_class(kc | vc), "special_key" if kc else "plain_keys")
            nontrivial = bool(kc or vc)
        ctx.ok(key, nontrivial, sample={"input": repr(orig)[:200], "text": repr(o["text"])[:200],
                                        "program": program(fmt, item)})
