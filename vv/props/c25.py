"""C25 — paired conversion functions are mutually inverse.

Monitor: for each pair (f, g) the composition g(f(x)) is evaluated by the real runtime on the
domain the statement defines and compared with x; wherever Python has a reference
(`ipaddress`, `int(s, base)`, integer arithmetic on (secs, nanos), a strftime model for the
full-precision formats) each direction is additionally cross-checked against it.  Every call is
made on runtime-typed arguments (`r, e = f(.a, .b)` on an untyped event); options that must be
literals (`unit:`) are put into the source text; `separator`, `base`, `format` and `timezone` are
exercised both runtime-typed and as literals.  The two steps of a composition are two requests
(the intermediate result travels back through the event), so the second function also sees an
untyped argument.

Pairs: flatten/unflatten · to_entries/from_entries · ip_aton/ip_ntoa · ip_pton/ip_ntop ·
ip_to_ipv6/ipv6_to_ipv4 · format_int/parse_int (bases 2-36) · to_unix_timestamp/from_unix_timestamp
(every unit both functions accept) · format_timestamp/parse_timestamp (full-precision formats).
"""
import datetime
import ipaddress
import re
import os

from ..wire import enc, dec, veq, Ts
from ..gen import values as gv
from ..gen.lit import str_lit

ID = "C25"
LEVEL = "exploration"
BUDGET = {"quick": 20, "thorough": 240}
FLOOR = {"quick": 500, "thorough": 800}
RULE = ("per case one pair x 48 inputs: nested objects (depth 1-4, keys incl. empty/unicode/punctuation but "
        "never the separator, 10 separators incl. multi-character, no empty containers; arrays of objects as "
        "leaves) for flatten/unflatten; arbitrary objects and canonical entry lists for to_entries/from_entries; "
        "all-IPv4 edges + random, IPv6 edge/structured/random in canonical/exploded/upper-case text and raw "
        "4/16-byte strings for the ip pairs; i64 edges (MIN, MAX, +-2^k+-1) and random x every base 2-36 plus "
        "canonical digit strings for format_int/parse_int; integers across each unit's representable range "
        "and timestamps across chrono's full range (-262143..+262142) for the unix pair; 10 full-precision "
        "strftime formats x timestamps across the range x {no tz, UTC, 8 named zones (>=1973 only)} for "
        "format/parse_timestamp. Non-trivial: the intermediate value differs from the input in "
        "representation and the input is not the pair's zero/empty element; distinct by (pair, direction, "
        "option, edge class of the input).")
ASSUMPTIONS = ["Python ipaddress / int(s, base) / integer arithmetic are the reference for each direction",
               "Python ipaddress parses the generated textual forms exactly like Rust's FromStr (no zone ids, "
               "no leading zeros in IPv4 octets)",
               "strftime model for the cross-check covers UTC and years 1..9999 only; outside only the round-trip is judged",
               "multi-character separators: objects whose joined keys contain an accidental extra occurrence of "
               "the separator are outside the domain (skipped)",
               "named time zones are only used for instants >= 1973-01-01 (whole-minute UTC offsets)"]

REPO = os.environ.get("VV_REPO", "/repo")
BATCH = 48
I64_MIN, I64_MAX = gv.I64_MIN, gv.I64_MAX
TS_MIN_S, TS_MAX_S = -8334601228800, 8210266876799     # chrono DateTime<Utc> range (years -262143..+262142)

S = {}


def panic_loc(p):
    loc = str((p or {}).get("loc", "?")).rsplit(":", 1)[0]
    if loc.startswith(REPO + "/"):
        loc = loc[len(REPO) + 1:]
    m = re.search(r"/registry/src/[^/]+/(.*)$", loc)
    if m:
        loc = re.sub(r"^([A-Za-z0-9_-]+?)-\d+(?:\.\d+)*[^/]*/", r"\1/", m.group(1))
    return loc


# ----------------------------------------------------------------------------------------
# calling one function on a batch

class R:
    """Result of one call: .val / .err (bytes) / .panic (dict) / .bad (harness problem)."""
    __slots__ = ("val", "err", "panic", "bad")

    def __init__(self, val=None, err=None, panic=None, bad=None):
        self.val, self.err, self.panic, self.bad = val, err, panic, bad

    @property
    def ok(self):
        return self.err is None and self.panic is None and self.bad is None


def call_fn(ctx, expr, events):
    """expr: VRL call text over event fields, e.g. 'format_int(.a, .b)'.  events: list of dict
    field -> wire-encoded value.  -> list[R] (one per event) or None when the program was rejected."""
    src = "r, e = %s\n[r, e]" % expr
    resp = ctx.call({"op": "run", "src": src, "probe": False,
                     "events": [{"e": {"o": ev}} for ev in events]})
    if "panic" in resp:
        return [R(panic=resp["panic"]) for _ in events]
    if not resp.get("compiled"):
        ctx.note("rejected_program", (src + " :: " + str(resp.get("diags")))[:500])
        return None
    out = []
    for run in resp["runs"]:
        if "panic" in run:
            out.append(R(panic=run["panic"]))
        elif "out" not in run:
            out.append(R(bad=str(run)[:200]))
        elif "ok" not in run["out"]:
            out.append(R(bad=str(run["out"])[:200]))
        else:
            v, e = dec(run["out"]["ok"])
            out.append(R(val=v, err=e) if e is not None else R(val=v))
    return out


def report_panic(ctx, fn, r, detail, one):
    ctx.violation("%s:panic@%s" % (fn, panic_loc(r.panic)), dict(detail, panic=r.panic), case=one)


def setup(ctx):
    report = ctx.proc == 0
    st = {}
    # units: union of the two enums, kept when both functions compile with the literal
    units = []
    for f in ctx.stdlib():
        if f["id"] in ("to_unix_timestamp", "from_unix_timestamp"):
            for p in f["params"]:
                if p["keyword"] == "unit":
                    for u in p.get("enum") or []:
                        if u not in units:
                            units.append(u)
    good = []
    for u in units:
        ok = True
        for expr, ev in (("from_unix_timestamp(.a, unit: %s)" % str_lit(u), {"a": 0}),
                         ("to_unix_timestamp(.a, unit: %s)" % str_lit(u), {"a": enc(Ts(0, 0))})):
            res = call_fn(ctx, expr, [ev])
            if res is None or not res[0].ok:
                ok = False
        if ok:
            good.append(u)
            if u not in UNIT_NS and report:
                ctx.skip("unix:unit_without_model:%s" % u)
        elif report:
            ctx.skip("unix:unit_without_inverse:%s" % u)
    st["units"] = [u for u in good if u in UNIT_NS]
    S.clear()
    S.update(st)


# ========================================================================================
# 1. flatten / unflatten

SEPARATORS = [".", ".", ".", "_", "/", ":", "__", "::", "->", "→", " ", "%"]
FLAT_KEYS = ["a", "b", "c", "d", "foo", "bar", "k1", "x", "", "A", "a b", "é", "日本", "a-b", "a,b", "0", "1",
             "@t", "\"q\"", "a\\b", "[0]", "a=b", "key", "value", "😀", "_", "a.b", "a/b", "a:b", "x_y", "a%b",
             "-", ">", "a->b", " "]


def gen_leaf(rng, sep, depth):
    r = rng.random()
    if r < 0.80 or depth <= 0:
        return gv.rand_scalar(rng)
    # non-empty array; may contain non-empty objects / arrays
    return [gen_leaf(rng, sep, depth - 1) if rng.random() < 0.7 else gen_obj(rng, sep, depth - 1)
            for _ in range(rng.randint(1, 3))]


def gen_obj(rng, sep, depth):
    keys = [k for k in FLAT_KEYS if sep not in k]
    n = rng.randint(1, 4)
    out = {}
    for _ in range(n):
        k = rng.choice(keys) if rng.random() < 0.9 else "".join(rng.choice("abcxyz01 _-") for _ in range(rng.randint(1, 6)))
        if sep in k:
            continue
        if depth > 0 and rng.random() < 0.5:
            out[k] = gen_obj(rng, sep, depth - 1)
        else:
            out[k] = gen_leaf(rng, sep, 2)
    if not out:
        out["a"] = 1
    return out


def flat_paths(o, prefix=()):
    """Key paths of the leaves under nested objects (arrays are leaves)."""
    for k, v in o.items():
        if isinstance(v, dict):
            yield from flat_paths(v, prefix + (k,))
        else:
            yield prefix + (k,), v


def obj_depth(o):
    return 1 + max([obj_depth(v) for v in o.values() if isinstance(v, dict)] or [0])


def has_empty_container(v):
    if isinstance(v, (list, dict)):
        if not v:
            return True
        return any(has_empty_container(x) for x in (v.values() if isinstance(v, dict) else v))
    return False


def gen_flatten(rng):
    sep = rng.choice(SEPARATORS)
    form = rng.choice(["runtime", "runtime", "literal", "default"]) if sep == "." else rng.choice(["runtime", "literal"])
    items = [enc(gen_obj(rng, sep, rng.randint(0, 3))) for _ in range(BATCH)]
    return {"pair": "flatten", "sep": sep, "form": form, "items": items}


def run_flatten(ctx, case):
    sep, form = case["sep"], case["form"]
    if form == "runtime":
        e1, e2 = "flatten(.v, .sep)", "unflatten(.v, .sep)"
    elif form == "literal":
        e1 = "flatten(.v, separator: %s)" % str_lit(sep)
        e2 = "unflatten(.v, separator: %s)" % str_lit(sep)
    else:
        e1, e2 = "flatten(.v)", "unflatten(.v)"
    objs = [dec(x) for x in case["items"]]
    keep = []
    for x, o in zip(case["items"], objs):
        if has_empty_container(o) or any(sep in k for k in all_keys(o)):
            ctx.skip("flatten:outside_domain")
            continue
        if any(sep.join(p).split(sep) != list(p) for p, _v in flat_paths(o)):
            ctx.skip("flatten:ambiguous_join_with_multichar_separator")
            continue
        keep.append((x, o))
    if not keep:
        return
    r1 = call_fn(ctx, e1, [{"v": x, "sep": sep} for x, _o in keep])
    if r1 is None:
        ctx.skip("harness:program_rejected")
        return
    second = [(i, r.val) for i, r in enumerate(r1) if r.ok]
    r2 = call_fn(ctx, e2, [{"v": enc(v), "sep": sep} for _i, v in second]) if second else []
    if r2 is None:
        ctx.skip("harness:program_rejected")
        return
    back = {i: r for (i, _v), r in zip(second, r2)}
    sepcls = "dot" if sep == "." else "char" if len(sep) == 1 else "multi"
    for i, ((x, o), a) in enumerate(zip(keep, r1)):
        one = {"pair": "flatten", "sep": sep, "form": form, "items": [x]}
        detail = {"pair": "flatten/unflatten", "separator": sep, "form": form, "input": repr(o)[:600]}
        if a.panic:
            report_panic(ctx, "flatten", a, detail, one)
            continue
        if a.bad:
            ctx.skip("harness:bad_run")
            continue
        if a.err is not None:
            ctx.violation("flatten:unexpected_error", dict(detail, error=repr(a.err)), case=one)
            continue
        detail["flattened"] = repr(a.val)[:600]
        b = back[i]
        if b.panic:
            report_panic(ctx, "unflatten", b, detail, one)
            continue
        if b.bad:
            ctx.skip("harness:bad_run")
            continue
        if b.err is not None:
            ctx.violation("unflatten:unexpected_error", dict(detail, error=repr(b.err)), case=one)
            continue
        if not veq(b.val, o):
            d = obj_depth(o)
            special = "empty_key" if "" in all_keys(o) else "plain_keys"
            ctx.violation("flatten:roundtrip_mismatch:sep_%s:%s" % (sepcls, special),
                          dict(detail, restored=repr(b.val)[:600], depth=d), case=one)
            continue
        d = obj_depth(o)
        ctx.ok(("flatten", form, sep, min(d, 4), "arr" if any(isinstance(v, list) for _p, v in flat_paths(o)) else "scalar",
                "empty_key" if "" in all_keys(o) else "k"),
               nontrivial=d > 1, sample={"pair": "flatten/unflatten", "separator": sep, "depth": d,
                                         "flattened_keys": sorted(a.val)[:6] if isinstance(a.val, dict) else None})


def all_keys(v):
    if isinstance(v, dict):
        for k, x in v.items():
            yield k
            yield from all_keys(x)
    elif isinstance(v, list):
        for x in v:
            yield from all_keys(x)


# ========================================================================================
# 2. to_entries / from_entries

def gen_entries(rng):
    direction = "obj" if rng.random() < 0.7 else "entries"
    items = []
    for _ in range(BATCH):
        o = gv.rand_object(rng, depth=rng.randint(1, 3), simple_keys=rng.random() < 0.3, maxlen=5)
        if rng.random() < 0.15:
            o.update({rng.choice(["key", "value", "Key", "Value", "name", "Name"]): gv.rand_value(rng, 1)})
        if direction == "obj":
            items.append(enc(o))
        else:
            items.append(enc([{"key": k.encode(), "value": v}
                              for k, v in sorted(o.items(), key=lambda kv: kv[0].encode())]))
    return {"pair": "entries", "dir": direction, "items": items}


def run_entries(ctx, case):
    direction = case["dir"]
    f1, f2 = ("to_entries", "from_entries") if direction == "obj" else ("from_entries", "to_entries")
    vals = [dec(x) for x in case["items"]]
    r1 = call_fn(ctx, "%s(.v)" % f1, [{"v": x} for x in case["items"]])
    if r1 is None:
        ctx.skip("harness:program_rejected")
        return
    second = [(i, r.val) for i, r in enumerate(r1) if r.ok]
    r2 = call_fn(ctx, "%s(.v)" % f2, [{"v": enc(v)} for _i, v in second]) if second else []
    if r2 is None:
        ctx.skip("harness:program_rejected")
        return
    back = {i: r for (i, _v), r in zip(second, r2)}
    for i, (x, v, a) in enumerate(zip(case["items"], vals, r1)):
        one = {"pair": "entries", "dir": direction, "items": [x]}
        detail = {"pair": "%s -> %s" % (f1, f2), "input": repr(v)[:600]}
        n = len(v)
        if a.panic:
            report_panic(ctx, f1, a, detail, one)
            continue
        if a.bad:
            ctx.skip("harness:bad_run")
            continue
        if a.err is not None:
            ctx.violation("%s:unexpected_error" % f1, dict(detail, error=repr(a.err)), case=one)
            continue
        detail["intermediate"] = repr(a.val)[:600]
        if direction == "obj":
            # cross-check the shape: [{key, value}] in key order
            exp = [{"key": k.encode(), "value": val} for k, val in sorted(v.items(), key=lambda kv: kv[0].encode())]
            if not veq(a.val, exp):
                ctx.violation("to_entries:wrong_entries", dict(detail, expected=repr(exp)[:600]), case=one)
                continue
        b = back[i]
        if b.panic:
            report_panic(ctx, f2, b, detail, one)
            continue
        if b.bad:
            ctx.skip("harness:bad_run")
            continue
        if b.err is not None:
            ctx.violation("%s:unexpected_error_on_%s_output" % (f2, f1), dict(detail, error=repr(b.err)), case=one)
            continue
        if not veq(b.val, v):
            ctx.violation("entries:roundtrip_mismatch:%s" % direction, dict(detail, restored=repr(b.val)[:600]), case=one)
            continue
        keys = list(v) if direction == "obj" else [e["key"].decode() for e in v]
        kcls = ("alias" if any(k in ("key", "value", "Key", "Value", "name", "Name") for k in keys) else
                "empty" if "" in keys else "special" if any(not k.isalnum() for k in keys) else "plain")
        ctx.ok(("entries", direction, min(n, 4), kcls), nontrivial=n > 0,
               sample={"pair": "%s -> %s" % (f1, f2), "n": n})


# ========================================================================================
# IP helpers

V4_EDGES = ["0.0.0.0", "255.255.255.255", "127.0.0.1", "10.0.0.1", "192.168.1.1", "172.16.0.0", "224.0.0.1",
            "169.254.0.1", "1.2.3.4", "100.64.0.1", "192.0.2.255", "128.0.0.0", "0.0.0.1", "255.0.0.0",
            "0.0.1.0", "0.1.0.0", "1.0.0.0", "127.255.255.255", "128.0.0.1", "255.255.255.254", "0.0.0.255"]
V6_EDGES = ["::", "::1", "ffff:ffff:ffff:ffff:ffff:ffff:ffff:ffff", "2001:db8::1", "fe80::1", "ff02::1",
            "2001:db8:85a3::8a2e:370:7334", "64:ff9b::192.0.2.33", "::1.2.3.4", "1::", "0:0:0:1::", "::ffff:0:0:0",
            "2002:c000:204::", "8000::", "0:0:0:0:0:fffe:1.2.3.4", "::fffe:ffff:ffff", "1:2:3:4:5:6:7:8",
            "::1:ffff:1.2.3.4", "0:0:0:0:0:ffff::", "::ffff:1.2.3.4", "::ffff:0.0.0.0", "::ffff:255.255.255.255",
            "1:0:0:2:0:0:0:3", "1:0:0:0:2:0:0:3", "0:1:0:1:0:1:0:1", "::2", "::1:0", "::1:0:0", "1::1"]


def gen_v4(rng):
    r = rng.random()
    if r < 0.3:
        return ipaddress.IPv4Address(rng.choice(V4_EDGES)), "edge"
    if r < 0.5:
        return ipaddress.IPv4Address(bytes(rng.choice((0, 1, 9, 10, 99, 100, 127, 128, 199, 200, 254, 255)) for _ in range(4))), "octet_edges"
    return ipaddress.IPv4Address(rng.getrandbits(32)), "random"


def gen_v6(rng):
    r = rng.random()
    if r < 0.3:
        return ipaddress.IPv6Address(rng.choice(V6_EDGES)), "edge"
    if r < 0.4:
        return ipaddress.IPv6Address((0xffff << 32) | rng.getrandbits(32)), "v4mapped"
    if r < 0.7:
        groups = [rng.choice((0, 0, 0, 1, 0xffff, 0xff, 0x100, rng.getrandbits(16))) for _ in range(8)]
        return ipaddress.IPv6Address(int("".join("%04x" % g for g in groups), 16)), "structured"
    return ipaddress.IPv6Address(rng.getrandbits(128)), "random"


def v6_text(rng, a):
    r = rng.random()
    if r < 0.6:
        return str(a), "canonical"
    if r < 0.75:
        return a.exploded, "exploded"
    if r < 0.85:
        return str(a).upper(), "upper"
    if r < 0.93:
        # full form without zero padding
        return ":".join("%x" % int(g, 16) for g in a.exploded.split(":")), "full"
    # embedded dotted quad for the low 32 bits
    hi = ":".join("%x" % int(g, 16) for g in a.exploded.split(":")[:6])
    return hi + ":" + str(ipaddress.IPv4Address(int(a) & 0xFFFFFFFF)), "dotted_tail"


def parse_ip(b):
    try:
        return ipaddress.ip_address(b.decode("ascii"))
    except (ValueError, UnicodeDecodeError, AttributeError):
        return None


def step(ctx, fn, results, idx, detail, one):
    """Common handling of panic / harness problems of one call. -> True when the result is usable."""
    r = results[idx]
    if r.panic:
        report_panic(ctx, fn, r, detail, one)
        return False
    if r.bad:
        ctx.skip("harness:bad_run")
        return False
    return True


# ========================================================================================
# 3. ip_aton / ip_ntoa

def gen_ip4int(rng):
    items = []
    for _ in range(BATCH):
        a, cls = gen_v4(rng)
        items.append({"s": str(a), "cls": cls})
    return {"pair": "ip4int", "items": items}


def run_ip4int(ctx, case):
    items = case["items"]
    addrs = [ipaddress.IPv4Address(it["s"]) for it in items]
    a1 = call_fn(ctx, "ip_aton(.a)", [{"a": it["s"]} for it in items])
    b1 = call_fn(ctx, "ip_ntoa(.a)", [{"a": int(a)} for a in addrs])
    if a1 is None or b1 is None:
        ctx.skip("harness:program_rejected")
        return
    a2 = call_fn(ctx, "ip_ntoa(.a)", [{"a": enc(r.val) if r.ok else None} for r in a1])
    b2 = call_fn(ctx, "ip_aton(.a)", [{"a": enc(r.val) if r.ok else None} for r in b1])
    if a2 is None or b2 is None:
        ctx.skip("harness:program_rejected")
        return
    for i, (it, addr) in enumerate(zip(items, addrs)):
        one = {"pair": "ip4int", "items": [it]}
        s, n = it["s"].encode(), int(addr)
        # direction 1: text -> int -> text
        d = {"pair": "ip_aton -> ip_ntoa", "input": it["s"]}
        if step(ctx, "ip_aton", a1, i, d, one):
            r = a1[i]
            if r.err is not None:
                ctx.violation("ip_aton:unexpected_error", dict(d, error=repr(r.err)), case=one)
            elif type(r.val) is not int or r.val != n:
                ctx.violation("ip_aton:wrong_value", dict(d, got=repr(r.val), expected=n), case=one)
            elif step(ctx, "ip_ntoa", a2, i, d, one):
                q = a2[i]
                if q.err is not None:
                    ctx.violation("ip_ntoa:unexpected_error_on_ip_aton_output", dict(d, n=r.val, error=repr(q.err)), case=one)
                elif q.val != s:
                    ctx.violation("ip_aton_ntoa:roundtrip_mismatch", dict(d, n=r.val, restored=repr(q.val)), case=one)
                else:
                    ctx.ok(("ip_aton->ip_ntoa", it.get("cls"), "hi" if n >= 1 << 31 else "lo"), nontrivial=True,
                           sample={"pair": "ip_aton -> ip_ntoa", "input": it["s"], "integer": n})
        # direction 2: int -> text -> int
        d = {"pair": "ip_ntoa -> ip_aton", "input": n}
        if step(ctx, "ip_ntoa", b1, i, d, one):
            r = b1[i]
            if r.err is not None:
                ctx.violation("ip_ntoa:unexpected_error", dict(d, error=repr(r.err)), case=one)
            elif r.val != s:
                ctx.violation("ip_ntoa:wrong_value", dict(d, got=repr(r.val), expected=it["s"]), case=one)
            elif step(ctx, "ip_aton", b2, i, d, one):
                q = b2[i]
                if q.err is not None:
                    ctx.violation("ip_aton:unexpected_error_on_ip_ntoa_output", dict(d, error=repr(q.err)), case=one)
                elif type(q.val) is not int or q.val != n:
                    ctx.violation("ip_ntoa_aton:roundtrip_mismatch", dict(d, text=repr(r.val), restored=repr(q.val)), case=one)
                else:
                    ctx.ok(("ip_ntoa->ip_aton", it.get("cls"), "hi" if n >= 1 << 31 else "lo"), nontrivial=True)


# ========================================================================================
# 4. ip_pton / ip_ntop

def gen_ipbin(rng):
    items = []
    for _ in range(BATCH):
        if rng.random() < 0.35:
            a, cls = gen_v4(rng)
            items.append({"s": str(a), "cls": "v4_" + cls, "form": "canonical"})
        else:
            a, cls = gen_v6(rng)
            s, form = v6_text(rng, a)
            items.append({"s": s, "cls": "v6_" + cls, "form": form})
    return {"pair": "ipbin", "items": items}


def run_ipbin(ctx, case):
    items = case["items"]
    addrs = [ipaddress.ip_address(it["s"]) for it in items]
    a1 = call_fn(ctx, "ip_pton(.a)", [{"a": it["s"]} for it in items])
    b1 = call_fn(ctx, "ip_ntop(.a)", [{"a": enc(a.packed)} for a in addrs])
    if a1 is None or b1 is None:
        ctx.skip("harness:program_rejected")
        return
    a2 = call_fn(ctx, "ip_ntop(.a)", [{"a": enc(r.val) if r.ok else None} for r in a1])
    b2 = call_fn(ctx, "ip_pton(.a)", [{"a": enc(r.val) if r.ok else None} for r in b1])
    if a2 is None or b2 is None:
        ctx.skip("harness:program_rejected")
        return
    for i, (it, addr) in enumerate(zip(items, addrs)):
        one = {"pair": "ipbin", "items": [it]}
        ver = "v%d" % addr.version
        d = {"pair": "ip_pton -> ip_ntop", "input": it["s"]}
        if step(ctx, "ip_pton", a1, i, d, one):
            r = a1[i]
            if r.err is not None:
                ctx.violation("ip_pton:unexpected_error:%s:%s" % (ver, it["form"]), dict(d, error=repr(r.err)), case=one)
            elif r.val != addr.packed:
                ctx.violation("ip_pton:wrong_bytes:%s" % ver, dict(d, got=repr(r.val), expected=addr.packed.hex()), case=one)
            elif step(ctx, "ip_ntop", a2, i, d, one):
                q = a2[i]
                back = parse_ip(q.val) if q.err is None else None
                if q.err is not None:
                    ctx.violation("ip_ntop:unexpected_error_on_ip_pton_output", dict(d, error=repr(q.err)), case=one)
                elif back is None or back != addr:
                    ctx.violation("ip_pton_ntop:roundtrip_mismatch:%s" % ver, dict(d, restored=repr(q.val)), case=one)
                else:
                    ctx.ok(("ip_pton->ip_ntop", it["cls"], it["form"], "same_text" if q.val == it["s"].encode() else "canonicalised"),
                           nontrivial=True, sample={"pair": "ip_pton -> ip_ntop", "input": it["s"], "restored": repr(q.val)})
        d = {"pair": "ip_ntop -> ip_pton", "input_hex": addr.packed.hex()}
        if step(ctx, "ip_ntop", b1, i, d, one):
            r = b1[i]
            back = parse_ip(r.val) if r.err is None else None
            if r.err is not None:
                ctx.violation("ip_ntop:unexpected_error:%s" % ver, dict(d, error=repr(r.err)), case=one)
            elif back is None or back != addr:
                ctx.violation("ip_ntop:wrong_text:%s" % ver, dict(d, got=repr(r.val), expected=str(addr)), case=one)
            elif step(ctx, "ip_pton", b2, i, d, one):
                q = b2[i]
                if q.err is not None:
                    ctx.violation("ip_pton:unexpected_error_on_ip_ntop_output:%s" % ver, dict(d, text=repr(r.val), error=repr(q.err)), case=one)
                elif q.val != addr.packed:
                    ctx.violation("ip_ntop_pton:roundtrip_mismatch:%s" % ver, dict(d, text=repr(r.val), restored=repr(q.val)), case=one)
                else:
                    ctx.ok(("ip_ntop->ip_pton", it["cls"]), nontrivial=True)


# ========================================================================================
# 5. ip_to_ipv6 / ipv6_to_ipv4 (mapped addresses)

def gen_ip46(rng):
    items = []
    for _ in range(BATCH):
        a, cls = gen_v4(rng)
        m = ipaddress.IPv6Address((0xffff << 32) | int(a))
        r = rng.random()
        mt = "::ffff:" + str(a) if r < 0.6 else str(m) if r < 0.8 else m.exploded
        items.append({"s": str(a), "m": mt, "cls": cls})
    return {"pair": "ip46", "items": items}


def run_ip46(ctx, case):
    items = case["items"]
    a1 = call_fn(ctx, "ip_to_ipv6(.a)", [{"a": it["s"]} for it in items])
    b1 = call_fn(ctx, "ipv6_to_ipv4(.a)", [{"a": it["m"]} for it in items])
    if a1 is None or b1 is None:
        ctx.skip("harness:program_rejected")
        return
    a2 = call_fn(ctx, "ipv6_to_ipv4(.a)", [{"a": enc(r.val) if r.ok else None} for r in a1])
    b2 = call_fn(ctx, "ip_to_ipv6(.a)", [{"a": enc(r.val) if r.ok else None} for r in b1])
    if a2 is None or b2 is None:
        ctx.skip("harness:program_rejected")
        return
    for i, it in enumerate(items):
        one = {"pair": "ip46", "items": [it]}
        v4 = ipaddress.IPv4Address(it["s"])
        mapped = ipaddress.IPv6Address((0xffff << 32) | int(v4))
        d = {"pair": "ip_to_ipv6 -> ipv6_to_ipv4", "input": it["s"]}
        if step(ctx, "ip_to_ipv6", a1, i, d, one):
            r = a1[i]
            if r.err is not None:
                ctx.violation("ip_to_ipv6:unexpected_error", dict(d, error=repr(r.err)), case=one)
            elif parse_ip(r.val) != mapped:
                ctx.violation("ip_to_ipv6:not_the_mapped_address", dict(d, got=repr(r.val), expected=str(mapped)), case=one)
            elif step(ctx, "ipv6_to_ipv4", a2, i, d, one):
                q = a2[i]
                if q.err is not None:
                    ctx.violation("ipv6_to_ipv4:unexpected_error_on_ip_to_ipv6_output", dict(d, mapped=repr(r.val), error=repr(q.err)), case=one)
                elif q.val != it["s"].encode():
                    ctx.violation("ip_to_ipv6_to_ipv4:roundtrip_mismatch", dict(d, mapped=repr(r.val), restored=repr(q.val)), case=one)
                else:
                    ctx.ok(("ip_to_ipv6->ipv6_to_ipv4", it["cls"], "hi" if int(v4) >= 1 << 31 else "lo"), nontrivial=True,
                           sample={"pair": "ip_to_ipv6 -> ipv6_to_ipv4", "input": it["s"], "mapped": repr(r.val)})
        d = {"pair": "ipv6_to_ipv4 -> ip_to_ipv6", "input": it["m"]}
        if step(ctx, "ipv6_to_ipv4", b1, i, d, one):
            r = b1[i]
            if r.err is not None:
                ctx.violation("ipv6_to_ipv4:unexpected_error", dict(d, error=repr(r.err)), case=one)
            elif r.val != it["s"].encode():
                ctx.violation("ipv6_to_ipv4:wrong_value", dict(d, got=repr(r.val), expected=it["s"]), case=one)
            elif step(ctx, "ip_to_ipv6", b2, i, d, one):
                q = b2[i]
                if q.err is not None:
                    ctx.violation("ip_to_ipv6:unexpected_error_on_ipv6_to_ipv4_output", dict(d, error=repr(q.err)), case=one)
                elif parse_ip(q.val) != mapped:
                    ctx.violation("ipv6_to_ipv4_to_ipv6:roundtrip_mismatch", dict(d, v4=repr(r.val), restored=repr(q.val)), case=one)
                else:
                    form = "dotted" if "." in it["m"] else "hex"
                    ctx.ok(("ipv6_to_ipv4->ip_to_ipv6", it["cls"], form), nontrivial=True)


# ========================================================================================
# 6. format_int / parse_int

DIGITS = "0123456789abcdefghijklmnopqrstuvwxyz"


def to_base(n, base):
    if n == 0:
        return "0"
    s, m = [], abs(n)
    while m:
        m, r = divmod(m, base)
        s.append(DIGITS[r])
    return ("-" if n < 0 else "") + "".join(reversed(s))


def int_class(n):
    if n == I64_MIN:
        return "i64_min"
    if n == I64_MAX:
        return "i64_max"
    if n == 0:
        return "zero"
    m = abs(n)
    mag = "small" if m < 36 else "mid" if m < 1 << 32 else "big" if m < 1 << 62 else "huge"
    return ("neg_" if n < 0 else "pos_") + mag


def gen_int(rng):
    base = rng.randint(2, 36) if rng.random() < 0.8 else rng.choice((2, 8, 10, 16, 36))
    form = rng.choice(["runtime", "runtime", "literal"]) if rng.random() < 0.9 or base != 10 else "default"
    items = []
    for _ in range(BATCH):
        r = rng.random()
        if r < 0.12:
            n = rng.choice((I64_MIN, I64_MIN + 1, I64_MAX, I64_MAX - 1, 0, 1, -1))
        elif r < 0.3:
            k = rng.randint(1, 12)
            n = rng.choice((1, -1)) * (base ** k + rng.choice((-1, 0, 1)))
        else:
            n = gv.rand_int(rng)
        n = max(I64_MIN, min(I64_MAX, n))
        items.append(n)
    return {"pair": "int", "base": base, "form": form, "items": items}


def run_int(ctx, case):
    base, form = case["base"], case["form"]
    if form == "runtime":
        fe, pe = "format_int(.a, .b)", "parse_int(.a, .b)"
    elif form == "literal":
        fe, pe = "format_int(.a, base: %d)" % base, "parse_int(.a, base: %d)" % base
    else:
        fe, pe = "format_int(.a)", "parse_int(.a, 10)"
    ns = case["items"]
    texts = [to_base(n, base) for n in ns]
    a1 = call_fn(ctx, fe, [{"a": n, "b": base} for n in ns])
    b1 = call_fn(ctx, pe, [{"a": t, "b": base} for t in texts])
    if a1 is None or b1 is None:
        ctx.skip("harness:program_rejected")
        return
    a2 = call_fn(ctx, pe, [{"a": enc(r.val) if r.ok else None, "b": base} for r in a1])
    b2 = call_fn(ctx, fe, [{"a": enc(r.val) if r.ok else None, "b": base} for r in b1])
    if a2 is None or b2 is None:
        ctx.skip("harness:program_rejected")
        return
    for i, (n, t) in enumerate(zip(ns, texts)):
        one = {"pair": "int", "base": base, "form": form, "items": [n]}
        cls = int_class(n)
        d = {"pair": "format_int -> parse_int", "value": n, "base": base, "form": form}
        if step(ctx, "format_int", a1, i, d, one):
            r = a1[i]
            if r.err is not None:
                ctx.violation("format_int:unexpected_error:%s" % cls, dict(d, error=repr(r.err)), case=one)
            elif r.val != t.encode():
                ctx.violation("format_int:wrong_text:%s" % cls, dict(d, got=repr(r.val), expected=t), case=one)
            elif step(ctx, "parse_int", a2, i, d, one):
                q = a2[i]
                if q.err is not None:
                    ctx.violation("parse_int:unexpected_error_on_format_int_output:%s" % cls, dict(d, text=t, error=repr(q.err)), case=one)
                elif type(q.val) is not int or q.val != n:
                    ctx.violation("format_parse_int:roundtrip_mismatch:%s" % cls, dict(d, text=t, restored=repr(q.val)), case=one)
                else:
                    ctx.ok(("format_int->parse_int", base, cls, form), nontrivial=(n != 0),
                           sample={"pair": "format_int -> parse_int", "value": n, "base": base, "text": t})
        d = {"pair": "parse_int -> format_int", "text": t, "base": base, "form": form}
        if step(ctx, "parse_int", b1, i, d, one):
            r = b1[i]
            if r.err is not None:
                ctx.violation("parse_int:unexpected_error:%s" % cls, dict(d, error=repr(r.err)), case=one)
            elif type(r.val) is not int or r.val != int(t, base):
                ctx.violation("parse_int:wrong_value:%s" % cls, dict(d, got=repr(r.val), expected=n), case=one)
            elif step(ctx, "format_int", b2, i, d, one):
                q = b2[i]
                if q.err is not None:
                    ctx.violation("format_int:unexpected_error_on_parse_int_output:%s" % cls, dict(d, error=repr(q.err)), case=one)
                elif q.val != t.encode():
                    ctx.violation("parse_format_int:roundtrip_mismatch:%s" % cls, dict(d, restored=repr(q.val)), case=one)
                else:
                    ctx.ok(("parse_int->format_int", base, cls, form), nontrivial=(n != 0))


# ========================================================================================
# 7. to_unix_timestamp / from_unix_timestamp

UNIT_NS = {"seconds": 10 ** 9, "milliseconds": 10 ** 6, "microseconds": 10 ** 3, "nanoseconds": 1}


def ts_from_ns(ns):
    return Ts(ns // 10 ** 9, ns % 10 ** 9)


def ts_in_range(t):
    return TS_MIN_S <= t.secs <= TS_MAX_S


def gen_ts_wide(rng):
    r = rng.random()
    if r < 0.2:
        return rng.choice(gv.TS_EDGES + [Ts(TS_MIN_S, 0), Ts(TS_MAX_S, 999999999), Ts(-62135596800, 0), Ts(-62135596801, 999999999),
                                         Ts(253402300799, 999999999), Ts(253402300800, 0), Ts(-62167219200, 0),
                                         Ts(-9223372037, 145224192), Ts(9223372036, 854775807), Ts(9223372036, 854775808),
                                         Ts(-9223372037, 145224191), Ts(-1, 0), Ts(-1, 1)])
    if r < 0.55:
        secs = rng.randint(-3 * 10 ** 9, 5 * 10 ** 9)
    elif r < 0.8:
        secs = rng.randint(-62135596800, 253402300799)
    else:
        secs = rng.randint(TS_MIN_S, TS_MAX_S)
    nanos = rng.choice((0, 0, 1, 1000, 999, 1000000, 500000000, 999999999, 123456789, 123456000, 123000000,
                        rng.randint(0, 999999999), rng.randint(0, 999) * 10 ** 6, rng.randint(0, 999999) * 1000))
    return Ts(secs, nanos)


def gen_unix(rng):
    units = S.get("units") or []
    if not units:
        return None
    unit = rng.choice(units)
    k = UNIT_NS[unit]
    per = 10 ** 9 // k
    lo, hi = max(I64_MIN, TS_MIN_S * per), min(I64_MAX, TS_MAX_S * per + (per - 1))
    items = []
    for _ in range(BATCH):
        r = rng.random()
        if r < 0.15:
            n = rng.choice((0, 1, -1, 999, 1000, 1001, -999, -1000, -1001, lo, hi, lo + 1, hi - 1, lo - 1, hi + 1,
                            I64_MIN, I64_MAX, 10 ** 9, -10 ** 9, 10 ** 12, 1600000000 * per))
        elif r < 0.6:
            n = rng.randint(-3 * 10 ** 9, 5 * 10 ** 9) * per + rng.randint(0, per - 1)
        elif r < 0.8:
            n = gv.rand_int(rng)
        else:
            n = rng.randint(lo, hi)
        n = max(I64_MIN, min(I64_MAX, n))
        items.append({"n": n, "t": enc(gen_ts_wide(rng))})
    return {"pair": "unix", "unit": unit, "items": items}


def era(t):
    if t.secs < -62167219200:
        return "year<0"
    if t.secs < -62135596800:
        return "year0"
    if t.secs < 0:
        return "pre_epoch"
    if t.secs > 253402300799:
        return "year>9999"
    return "normal"


def run_unix(ctx, case):
    unit = case["unit"]
    k = UNIT_NS.get(unit)
    if k is None:
        ctx.skip("unix:unit_without_model:%s" % unit)
        return
    fe = "from_unix_timestamp(.a, unit: %s)" % str_lit(unit)
    te = "to_unix_timestamp(.a, unit: %s)" % str_lit(unit)
    items = case["items"]
    ns = [it["n"] for it in items]
    tss = [dec(it["t"]) for it in items]
    a1 = call_fn(ctx, fe, [{"a": n} for n in ns])
    b1 = call_fn(ctx, te, [{"a": it["t"]} for it in items])
    if a1 is None or b1 is None:
        ctx.skip("harness:program_rejected")
        return
    a2 = call_fn(ctx, te, [{"a": enc(r.val) if r.ok else None} for r in a1])
    b2 = call_fn(ctx, fe, [{"a": enc(r.val) if r.ok else None} for r in b1])
    if a2 is None or b2 is None:
        ctx.skip("harness:program_rejected")
        return
    for i, (it, n, t) in enumerate(zip(items, ns, tss)):
        one = {"pair": "unix", "unit": unit, "items": [it]}
        # direction 1: integer -> timestamp -> integer
        d = {"pair": "from_unix_timestamp -> to_unix_timestamp", "unit": unit, "value": n}
        model = ts_from_ns(n * k)
        if step(ctx, "from_unix_timestamp", a1, i, d, one):
            r = a1[i]
            if not ts_in_range(model):
                if r.err is None:
                    ctx.violation("from_unix_timestamp:%s:accepted_out_of_range_value" % unit, dict(d, got=repr(r.val)), case=one)
                else:
                    ctx.skip("unix:integer_outside_timestamp_range")
            elif r.err is not None:
                ctx.violation("from_unix_timestamp:%s:unexpected_error:%s" % (unit, era(model)), dict(d, error=repr(r.err)), case=one)
            elif type(r.val) is not Ts or r.val != model:
                ctx.violation("from_unix_timestamp:%s:wrong_timestamp:%s" % (unit, "negative" if n < 0 else "positive"),
                              dict(d, got=repr(r.val), expected=repr(model)), case=one)
            elif step(ctx, "to_unix_timestamp", a2, i, d, one):
                q = a2[i]
                if q.err is not None:
                    ctx.violation("to_unix_timestamp:%s:unexpected_error_on_from_unix_timestamp_output" % unit,
                                  dict(d, ts=repr(r.val), error=repr(q.err)), case=one)
                elif type(q.val) is not int or q.val != n:
                    ctx.violation("from_to_unix_timestamp:%s:roundtrip_mismatch:%s" % (unit, "negative" if n < 0 else "positive"),
                                  dict(d, ts=repr(r.val), restored=repr(q.val)), case=one)
                else:
                    sub = "whole_second" if (n * k) % 10 ** 9 == 0 else "fraction"
                    ctx.ok(("from->to_unix", unit, era(model), "neg" if n < 0 else "pos", sub), nontrivial=(n != 0),
                           sample={"pair": "from_unix_timestamp -> to_unix_timestamp", "unit": unit, "value": n, "ts": repr(r.val)})
        # direction 2: timestamp -> integer -> timestamp
        d = {"pair": "to_unix_timestamp -> from_unix_timestamp", "unit": unit, "ts": repr(t)}
        m = t.ns() // k
        if step(ctx, "to_unix_timestamp", b1, i, d, one):
            r = b1[i]
            if not (I64_MIN <= m <= I64_MAX):
                if r.err is None:
                    ctx.violation("to_unix_timestamp:%s:no_error_on_i64_overflow" % unit, dict(d, got=repr(r.val)), case=one)
                else:
                    ctx.skip("unix:timestamp_outside_i64_%s" % unit)
            elif r.err is not None:
                ctx.violation("to_unix_timestamp:%s:unexpected_error:%s" % (unit, era(t)), dict(d, error=repr(r.err)), case=one)
            elif type(r.val) is not int or r.val != m:
                ctx.violation("to_unix_timestamp:%s:wrong_value:%s" % (unit, era(t)), dict(d, got=repr(r.val), expected=m), case=one)
            elif step(ctx, "from_unix_timestamp", b2, i, d, one):
                q = b2[i]
                exact = t.ns() % k == 0
                want = ts_from_ns(m * k)
                if q.err is not None:
                    ctx.violation("from_unix_timestamp:%s:unexpected_error_on_to_unix_timestamp_output:%s" % (unit, era(t)),
                                  dict(d, value=m, error=repr(q.err)), case=one)
                elif type(q.val) is not Ts or q.val != want:
                    ctx.violation("to_from_unix_timestamp:%s:roundtrip_mismatch:%s" % (unit, era(t)),
                                  dict(d, value=m, restored=repr(q.val), expected=repr(want)), case=one)
                elif not exact:
                    ctx.skip("unix:timestamp_not_representable_in_unit(truncation_checked)")
                else:
                    ctx.ok(("to->from_unix", unit, era(t), "whole_second" if t.nanos == 0 else "fraction"),
                           nontrivial=(t.ns() != 0))


# ========================================================================================
# 8. format_timestamp / parse_timestamp

MONTHS = ["Jan", "Feb", "Mar", "Apr", "May", "Jun", "Jul", "Aug", "Sep", "Oct", "Nov", "Dec"]
DAYS = ["Mon", "Tue", "Wed", "Thu", "Fri", "Sat", "Sun"]


def frac_dot(nanos):
    """chrono %.f : shortest of 0/3/6/9 digits."""
    if nanos == 0:
        return ""
    if nanos % 1000000 == 0:
        return ".%03d" % (nanos // 1000000)
    if nanos % 1000 == 0:
        return ".%06d" % (nanos // 1000)
    return ".%09d" % nanos


def _dt(t):
    return datetime.datetime(1970, 1, 1) + datetime.timedelta(seconds=t.secs)


# format -> (has_zone, model(t) for UTC within years 1..9999 or None)
FORMATS = {
    "%+": (True, lambda t: _dt(t).strftime("%Y-%m-%dT%H:%M:%S").rjust(19, "0") + frac_dot(t.nanos) + "+00:00"),
    "%Y-%m-%dT%H:%M:%S%.f%:z": (True, lambda t: _dt(t).strftime("%Y-%m-%dT%H:%M:%S").rjust(19, "0") + frac_dot(t.nanos) + "+00:00"),
    "%Y-%m-%dT%H:%M:%S%.9f%z": (True, lambda t: _dt(t).strftime("%Y-%m-%dT%H:%M:%S").rjust(19, "0") + ".%09d+0000" % t.nanos),
    "%Y-%m-%d %H:%M:%S.%f %z": (True, lambda t: _dt(t).strftime("%Y-%m-%d %H:%M:%S").rjust(19, "0") + ".%09d +0000" % t.nanos),
    "%d/%b/%Y:%H:%M:%S.%f %z": (True, lambda t: "%02d/%s/%04d:%s.%09d +0000" % (
        _dt(t).day, MONTHS[_dt(t).month - 1], _dt(t).year, _dt(t).strftime("%H:%M:%S"), t.nanos)),
    "%a, %d %b %Y %H:%M:%S%.f %z": (True, lambda t: "%s, %02d %s %04d %s%s +0000" % (
        DAYS[_dt(t).weekday()], _dt(t).day, MONTHS[_dt(t).month - 1], _dt(t).year, _dt(t).strftime("%H:%M:%S"), frac_dot(t.nanos))),
    "%Y-%m-%d %I:%M:%S%.f %p %:z": (True, None),
    "%Y-%j %H:%M:%S%.f %z": (True, lambda t: "%04d-%03d %s%s +0000" % (
        _dt(t).year, _dt(t).timetuple().tm_yday, _dt(t).strftime("%H:%M:%S"), frac_dot(t.nanos))),
    "%s.%f": (False, lambda t: "%d.%09d" % (t.secs, t.nanos)),
    "%Y-%m-%dT%H:%M:%S%.fZ": (False, lambda t: _dt(t).strftime("%Y-%m-%dT%H:%M:%S").rjust(19, "0") + frac_dot(t.nanos) + "Z"),
}
ZONES = ["UTC", "Europe/London", "America/New_York", "Asia/Kolkata", "Australia/Lord_Howe", "Asia/Kathmandu",
         "Pacific/Chatham", "America/St_Johns", "Etc/GMT+12"]
T1973 = 94694400


def gen_tsfmt(rng):
    fmt = rng.choice(list(FORMATS))
    has_zone = FORMATS[fmt][0]
    if has_zone:
        tz = rng.choice([None, None, "UTC"] + ZONES)
    else:
        tz = "UTC"
    form = rng.choice(["runtime", "literal"])
    items = []
    for _ in range(BATCH):
        t = gen_ts_wide(rng)
        if tz not in (None, "UTC") and not (T1973 <= t.secs <= TS_MAX_S - 2 * 86400):
            # named zones: whole-minute offsets only (>= 1973) and the local time must stay inside
            # chrono's date range (the last day of year +262142 overflows in zones east of UTC)
            t = Ts(rng.randint(T1973, 4102444800), t.nanos)
        items.append(enc(t))
    return {"pair": "tsfmt", "fmt": fmt, "tz": tz, "form": form, "items": items}


def nanos_class(n):
    return "0" if n == 0 else "ms" if n % 1000000 == 0 else "us" if n % 1000 == 0 else "ns"


def run_tsfmt(ctx, case):
    fmt, tz, form = case["fmt"], case.get("tz"), case["form"]
    has_zone, model = FORMATS.get(fmt, (True, None))
    if form == "runtime":
        fe = "format_timestamp(.a, .f, .tz)" if tz else "format_timestamp(.a, .f)"
        pe = "parse_timestamp(.a, .f, .tz)" if tz else "parse_timestamp(.a, .f)"
    else:
        opt = ", timezone: %s" % str_lit(tz) if tz else ""
        fe = "format_timestamp(.a, format: %s%s)" % (str_lit(fmt), opt)
        pe = "parse_timestamp(.a, format: %s%s)" % (str_lit(fmt), opt)

    def ev(a):
        e = {"a": a, "f": fmt}
        if tz:
            e["tz"] = tz
        return e

    tss = [dec(x) for x in case["items"]]
    r1 = call_fn(ctx, fe, [ev(x) for x in case["items"]])
    if r1 is None:
        ctx.skip("harness:program_rejected")
        return
    r2 = call_fn(ctx, pe, [ev(enc(r.val) if r.ok else None) for r in r1])
    if r2 is None:
        ctx.skip("harness:program_rejected")
        return
    tzcls = "none" if tz is None else "utc" if tz == "UTC" else "named"
    for i, (x, t) in enumerate(zip(case["items"], tss)):
        one = {"pair": "tsfmt", "fmt": fmt, "tz": tz, "form": form, "items": [x]}
        e = era(t)
        if "%s" in fmt:
            e = "negative_unix_time" if t.secs < 0 else "non_negative_unix_time"
        d = {"pair": "format_timestamp -> parse_timestamp", "format": fmt, "timezone": tz, "form": form, "ts": repr(t)}
        if not step(ctx, "format_timestamp", r1, i, d, one):
            continue
        a = r1[i]
        if a.err is not None:
            ctx.violation("format_timestamp:%s:unexpected_error:%s" % (fmt, e), dict(d, error=repr(a.err)), case=one)
            continue
        d["text"] = repr(a.val)
        if model is not None and tz in (None, "UTC") and era(t) in ("normal", "pre_epoch"):
            want = model(t).encode()
            if a.val != want:
                ctx.violation("format_timestamp:%s:differs_from_strftime_model:%s" % (fmt, e), dict(d, expected=want.decode()), case=one)
                continue
        if not step(ctx, "parse_timestamp", r2, i, d, one):
            continue
        b = r2[i]
        if b.err is not None:
            ctx.violation("parse_timestamp:%s:cannot_parse_format_timestamp_output:%s" % (fmt, e), dict(d, error=repr(b.err)), case=one)
            continue
        if type(b.val) is not Ts or b.val != t:
            ctx.violation("format_parse_timestamp:%s:roundtrip_mismatch:%s:tz_%s" % (fmt, e, tzcls), dict(d, restored=repr(b.val)), case=one)
            continue
        ctx.ok(("tsfmt", fmt, tzcls if tzcls != "named" else tz, e, nanos_class(t.nanos), form), nontrivial=True,
               sample={"pair": "format_timestamp -> parse_timestamp", "format": fmt, "timezone": tz, "ts": repr(t), "text": repr(a.val)})


# ========================================================================================

GENS = [("flatten", gen_flatten, 3), ("entries", gen_entries, 2), ("ip4int", gen_ip4int, 1), ("ipbin", gen_ipbin, 2),
        ("ip46", gen_ip46, 1), ("int", gen_int, 4), ("unix", gen_unix, 3), ("tsfmt", gen_tsfmt, 4)]
RUNS = {"flatten": run_flatten, "entries": run_entries, "ip4int": run_ip4int, "ipbin": run_ipbin, "ip46": run_ip46,
        "int": run_int, "unix": run_unix, "tsfmt": run_tsfmt}


def gen_case(ctx, rng):
    if not S:
        setup(ctx)
    total = sum(w for _n, _g, w in GENS)
    x = rng.random() * total
    for _name, g, w in GENS:
        if x < w:
            return g(rng)
        x -= w
    return GENS[-1][1](rng)


def run_case(ctx, case):
    RUNS[case["pair"]](ctx, case)
