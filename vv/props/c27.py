"""C27 — digest and checksum functions match the published reference algorithms.

Monitor: md5, sha1, sha2 (every variant + default), sha3 (every variant + default), hmac (every
algorithm, literal and runtime-chosen + default), crc (every catalogue algorithm, literal and
runtime-chosen + default), xxhash (every variant, literal and runtime-chosen + default) and
seahash are evaluated by the real runtime on byte strings delivered through the event; every
result is compared with an independent implementation:

  md5/sha1/sha2/sha3/hmac   Python hashlib / hmac (OpenSSL)
  crc                       bit-serial Rocksoft model over the public CRC catalogue parameters
                            (vv/model/crcref.py), every entry self-validated on its published
                            check value at setup (zlib.crc32 as a second opinion for CRC-32/ISO-HDLC)
  xxhash                    pure-Python XXH32/XXH64/XXH3-64/XXH3-128 (vv/model/xxhashref.py),
                            self-validated on published vectors at setup
  seahash                   pure-Python SeaHash (vv/model/seahashref.py), self-validated

Encodings as documented: md5/sha1/sha2/sha3 lowercase hex string; hmac raw bytes; crc decimal
string; xxhash XXH32 integer (unsigned value), XXH64/XXH3-64 integer (u64 reinterpreted as i64),
XXH3-128 decimal string of the u128; seahash integer (u64 reinterpreted as i64).

Variant names come from the stdlib's enum metadata (`ctx.stdlib()`) and, for xxhash (which
publishes no enum), from VALID_VARIANTS in the source; a variant without a validated oracle is
reported as `uncovered_variant:*` (skip), never judged.
"""
import base64
import hashlib
import hmac as pyhmac
import os
import re
import zlib

from ..wire import enc, dec
from ..gen.lit import str_lit
from ..model import crcref, xxhashref, seahashref

ID = "C27"
LEVEL = "exploration"
BUDGET = {"quick": 20, "thorough": 240}
MEMCHECK = {"requests": 300, "stride": 10}    # thorough: valgrind memcheck over a sample of the workload
FLOOR = {"quick": 400, "thorough": 700}
RULE = ("byte strings of length 0-1024 (plus a few up to 2100) concentrated on the block/padding "
        "boundaries of every hash (55/56/64, 111/112/128, SHA-3 rates 72/104/136/144, XXH 3/4/8/9/16/17/"
        "32/128/129/240/241/1024/1025, SeaHash 8/32) with random / all-zero / all-0xff / text / periodic "
        "content, hmac keys of length 0-200 around the 64/128-byte block size; every variant of every "
        "function per input (6 runtime-chosen + 6 literal CRC algorithms per input). Non-trivial: "
        "non-empty input; distinct by (function, variant, form, length class relative to the "
        "algorithm's block structure).")
ASSUMPTIONS = ["Python hashlib/hmac (OpenSSL) implement MD5, SHA-1, SHA-2 (incl. SHA-512/t), SHA-3 and HMAC correctly",
               "the CRC catalogue parameters transcribed in vv/model/crcref.py are the published ones "
               "(each entry reproduces its published check value under an independent bit-serial model)",
               "the pure-Python xxHash/SeaHash references are correct (validated on published vectors "
               "covering every length class of XXH3)"]

BATCH = 16
N_CRC_DYN = 6
N_CRC_LIT = 6
REPO = os.environ.get("VV_REPO", "/repo")

SHA2 = {"SHA-224": "sha224", "SHA-256": "sha256", "SHA-384": "sha384", "SHA-512": "sha512",
        "SHA-512/224": "sha512_224", "SHA-512/256": "sha512_256"}
SHA3 = {"SHA3-224": "sha3_224", "SHA3-256": "sha3_256", "SHA3-384": "sha3_384", "SHA3-512": "sha3_512"}
HMAC = {"SHA1": "sha1", "SHA-224": "sha224", "SHA-256": "sha256", "SHA-384": "sha384", "SHA-512": "sha512"}
# (block size, first tail length that needs an extra block) for the length classes
BLOCKS = {"md5": (64, 56), "sha1": (64, 56), "sha224": (64, 56), "sha256": (64, 56),
          "sha384": (128, 112), "sha512": (128, 112), "sha512_224": (128, 112), "sha512_256": (128, 112),
          "sha3_224": (144, 143), "sha3_256": (136, 135), "sha3_384": (104, 103), "sha3_512": (72, 71)}

S = {}   # per-process state filled by setup()


def panic_loc(p):
    """Stable location of a panic: file path without line number / registry prefix."""
    loc = str((p or {}).get("loc", "?")).rsplit(":", 1)[0]
    if loc.startswith(REPO + "/"):
        loc = loc[len(REPO) + 1:]
    m = re.search(r"/registry/src/[^/]+/(.*)$", loc)
    if m:
        loc = m.group(1)
    return loc


def _hashlib_ok(name):
    try:
        hashlib.new(name, b"")
        return True
    except Exception:
        return False


def _fn(ctx, ident):
    for f in ctx.stdlib():
        if f["id"] == ident:
            return f
    return None


def _param(f, kw):
    for p in f["params"]:
        if p["keyword"] == kw:
            return p
    return None


def _enum_and_default(ctx, ident, kw):
    f = _fn(ctx, ident)
    if f is None:
        return None, None
    p = _param(f, kw)
    if p is None:
        return None, None
    default = dec(p["default"]["v"]).decode() if p.get("default") else None
    return (list(p["enum"]) if p.get("enum") else None), default


def setup(ctx):
    report = ctx.proc == 0

    def uncovered(fn, name, why):
        if report:
            ctx.skip("uncovered_variant:%s:%s:%s" % (fn, name, why))

    st = {}
    # --- plain digests
    st["plain"] = [n for n in ("md5", "sha1") if _fn(ctx, n) is not None and _hashlib_ok(n)]
    for fn, table in (("sha2", SHA2), ("sha3", SHA3)):
        names, default = _enum_and_default(ctx, fn, "variant")
        names = names or []
        good = []
        for n in names:
            if n in table and _hashlib_ok(table[n]):
                good.append(n)
            else:
                uncovered(fn, n, "no_oracle")
        st[fn] = good
        st[fn + "_default"] = default if default in good else None
        if default not in good:
            uncovered(fn, "<default>", "unknown_default")
    # --- hmac
    names, default = _enum_and_default(ctx, "hmac", "algorithm")
    good = []
    for n in names or []:
        if n in HMAC:
            good.append(n)
        else:
            uncovered("hmac", n, "no_oracle")
    st["hmac"] = good
    st["hmac_default"] = default if default in good else None
    # --- crc
    valid, invalid = crcref.validated()
    for n in invalid:
        uncovered("crc", n, "catalogue_entry_failed_self_validation")
    if crcref.compute("CRC_32_ISO_HDLC", b"The quick brown fox") != zlib.crc32(b"The quick brown fox"):
        valid = [n for n in valid if n != "CRC_32_ISO_HDLC"]
        uncovered("crc", "CRC_32_ISO_HDLC", "disagrees_with_zlib")
    names, default = _enum_and_default(ctx, "crc", "algorithm")
    good = []
    for n in names or []:
        if n in valid:
            good.append(n)
        elif n not in invalid:
            uncovered("crc", n, "not_in_catalogue_table")
    st["crc"] = good
    st["crc_default"] = default if default in good else None
    if report:
        ctx.count("crc_catalogue_entries_validated", len(valid))
        ctx.count("crc_variants_covered", len(good))
    # --- xxhash: no enum metadata; harvest names from the source, keep the validated ones
    xgood, xbad = xxhashref.selftest()
    names = list(xxhashref.FUNCS)
    try:
        with open(os.path.join(REPO, "src/stdlib/xxhash.rs")) as fh:
            m = re.search(r"VALID_VARIANTS[^=]*=\s*&\[([^\]]*)\]", fh.read())
        if m:
            names = re.findall(r'"([^"]+)"', m.group(1))
    except OSError:
        pass
    good = []
    for n in names:
        if n in xgood:
            good.append(n)
        else:
            uncovered("xxhash", n, "reference_failed_selftest" if n in xbad else "no_oracle")
    st["xxhash"] = good
    _e, xdef = _enum_and_default(ctx, "xxhash", "variant")
    st["xxhash_default"] = xdef if xdef in good else None
    # --- seahash
    st["seahash"] = _fn(ctx, "seahash") is not None and seahashref.selftest()
    if not st["seahash"]:
        uncovered("seahash", "-", "reference_failed_selftest")
    S.clear()
    S.update(st)


# ----------------------------------------------------------------------------------------
# generation

EDGE_LENS = sorted(set(
    [0, 1, 2, 3, 4, 5, 7, 8, 9, 15, 16, 17, 31, 32, 33, 47, 48, 55, 56, 57, 63, 64, 65, 71, 72, 73,
     95, 96, 97, 103, 104, 105, 111, 112, 113, 119, 120, 127, 128, 129, 135, 136, 137, 143, 144, 145,
     160, 175, 176, 191, 192, 193, 207, 208, 239, 240, 241, 255, 256, 257, 271, 272, 273, 287, 288, 289,
     511, 512, 513, 1023, 1024]))
LONG_LENS = [1025, 1087, 1088, 2047, 2048, 2049, 2100]
KEY_LENS = [0, 1, 16, 20, 32, 63, 64, 65, 100, 127, 128, 129, 130, 199, 200]


def gen_len(rng):
    r = rng.random()
    if r < 0.55:
        return rng.choice(EDGE_LENS)
    if r < 0.60:
        return rng.choice(LONG_LENS)
    if r < 0.85:
        return rng.randint(0, 300)
    return rng.randint(0, 1024)


def gen_bytes(rng, n):
    r = rng.random()
    if r < 0.55:
        return rng.randbytes(n)
    if r < 0.65:
        return bytes(n)
    if r < 0.75:
        return b"\xff" * n
    if r < 0.87:
        text = "The quick brown fox jumps over the lazy dog. Ünïcödé ✓ 日本語 "
        return (text * (n // len(text) + 2)).encode("utf-8")[:n]
    if r < 0.94:
        return bytes((i * 7 + 3) & 0xFF for i in range(n))
    return bytes([rng.getrandbits(8)]) * n


def gen_case(ctx, rng):
    events = []
    crc_names = S["crc"]
    for _ in range(BATCH):
        v = gen_bytes(rng, gen_len(rng))
        klen = rng.choice(KEY_LENS) if rng.random() < 0.6 else rng.randint(0, 200)
        k = gen_bytes(rng, klen)
        events.append({
            "v": enc(v), "k": enc(k),
            "ha": rng.choice(S["hmac"]) if S["hmac"] else None,
            "xv": rng.choice(S["xxhash"]) if S["xxhash"] else None,
            "cs": [rng.choice(crc_names) for _ in range(N_CRC_DYN)] if crc_names else [],
        })
    lits = rng.sample(crc_names, min(N_CRC_LIT, len(crc_names))) if crc_names else []
    return {"events": events, "crc_lits": lits}


# ----------------------------------------------------------------------------------------
# oracle

def i64(u):
    return u - (1 << 64) if u >= (1 << 63) else u


def hexdigest(alg, v):
    return hashlib.new(alg, v).hexdigest().encode()


def xx_expected(variant, v):
    h = xxhashref.FUNCS[variant](v)
    if variant == "XXH32":
        return h
    if variant == "XXH3-128":
        return str(h).encode()
    return i64(h)


def generic_class(n, block, pad):
    q = min(n // block, 2)
    r = n % block
    if n == 0:
        return "empty"
    if r == 0:
        pos = "blk"
    elif r == 1:
        pos = "blk+1"
    elif r == block - 1:
        pos = "blk-1"
    elif r == pad:
        pos = "pad"
    elif r == pad - 1:
        pos = "pad-1"
    elif r == pad + 1:
        pos = "pad+1"
    else:
        pos = "mid"
    return "%d:%s" % (q, pos)


def xxh3_class(n):
    for hi, name in ((0, "0"), (3, "1-3"), (8, "4-8"), (16, "9-16"), (32, "17-32"), (64, "33-64"),
                     (96, "65-96"), (128, "97-128"), (240, "129-240"), (1024, "241-1024")):
        if n <= hi:
            return name
    return "1025+"


def crc_class(n):
    return "0" if n == 0 else "1" if n == 1 else "2-8" if n <= 8 else "9-64" if n <= 64 else "65+"


def build_program(crc_lits):
    """-> (source, [slot], [expr]); slot = (function, variant, form, oracle(ev) -> expected, class(n))."""
    exprs, slots = [], []

    def add(expr, fn, variant, form, oracle, cls):
        exprs.append(expr)
        slots.append((fn, variant, form, oracle, cls))

    for name in S["plain"]:
        b, p = BLOCKS[name]
        add("%s!(.v)" % name, name, "-", "plain",
            (lambda ev, a=name: hexdigest(a, ev["v"])), (lambda n, b=b, p=p: generic_class(n, b, p)))
    for fn, table in (("sha2", SHA2), ("sha3", SHA3)):
        for var in S[fn]:
            alg = table[var]
            b, p = BLOCKS[alg]
            add("%s!(.v, variant: %s)" % (fn, str_lit(var)), fn, var, "literal",
                (lambda ev, a=alg: hexdigest(a, ev["v"])), (lambda n, b=b, p=p: generic_class(n, b, p)))
        d = S[fn + "_default"]
        if d:
            alg = table[d]
            b, p = BLOCKS[alg]
            add("%s!(.v)" % fn, fn, d, "default",
                (lambda ev, a=alg: hexdigest(a, ev["v"])), (lambda n, b=b, p=p: generic_class(n, b, p)))
    if S["seahash"]:
        add("seahash!(.v)", "seahash", "-", "plain",
            (lambda ev: i64(seahashref.seahash(ev["v"]))),
            (lambda n: "empty" if n == 0 else "%d:%d" % (min(n // 32, 2), n % 8)))
    for var in S["xxhash"]:
        add("xxhash!(.v, variant: %s)" % str_lit(var), "xxhash", var, "literal",
            (lambda ev, x=var: xx_expected(x, ev["v"])), _xx_class(var))
    if S["xxhash_default"]:
        d = S["xxhash_default"]
        add("xxhash!(.v)", "xxhash", d, "default", (lambda ev, x=d: xx_expected(x, ev["v"])), _xx_class(d))
    if S["xxhash"]:
        add("xxhash!(.v, .xv)", "xxhash", None, "runtime",
            (lambda ev: xx_expected(ev["xv"], ev["v"])), None)
    for alg in S["hmac"]:
        add("hmac!(.v, .k, algorithm: %s)" % str_lit(alg), "hmac", alg, "literal",
            (lambda ev, a=HMAC[alg]: pyhmac.new(ev["k"], ev["v"], a).digest()), _hmac_class(HMAC[alg]))
    if S["hmac_default"]:
        d = S["hmac_default"]
        add("hmac!(.v, .k)", "hmac", d, "default",
            (lambda ev, a=HMAC[d]: pyhmac.new(ev["k"], ev["v"], a).digest()), _hmac_class(HMAC[d]))
    if S["hmac"]:
        add("hmac!(.v, .k, .ha)", "hmac", None, "runtime",
            (lambda ev: pyhmac.new(ev["k"], ev["v"], HMAC[ev["ha"]]).digest()), None)
    if S["crc_default"]:
        d = S["crc_default"]
        add("crc!(.v)", "crc", d, "default",
            (lambda ev, a=d: str(crcref.compute(a, ev["v"])).encode()), crc_class)
    for i in range(N_CRC_DYN):
        if S["crc"]:
            add("crc!(.v, .cs[%d])" % i, "crc", i, "runtime",
                (lambda ev, i=i: str(crcref.compute(ev["cs"][i], ev["v"])).encode()), crc_class)
    for name in crc_lits:
        add("crc!(.v, algorithm: %s)" % str_lit(name), "crc", name, "literal",
            (lambda ev, a=name: str(crcref.compute(a, ev["v"])).encode()), crc_class)
    return "[\n  " + ",\n  ".join(exprs) + "\n]", slots, exprs


def _xx_class(var):
    if var == "XXH32":
        return lambda n: "empty" if n == 0 else "%d:%d" % (min(n // 16, 2), n % 16 if n % 16 in (0, 1, 4, 15) else 8)
    if var == "XXH64":
        return lambda n: "empty" if n == 0 else "%d:%d" % (min(n // 32, 2), n % 32 if n % 32 in (0, 1, 4, 8, 31) else 16)
    return xxh3_class


def _hmac_class(alg):
    b, p = BLOCKS[alg]
    return lambda n, b=b, p=p: generic_class(n, b, p)


def key_class(klen, block):
    if klen == 0:
        return "k0"
    if klen < block:
        return "k<blk"
    if klen == block:
        return "k=blk"
    return "k>blk"


def classify_mismatch(got, exp):
    """Distinguish an encoding slip from a wrong value."""
    if type(got) is not type(exp):
        if isinstance(got, bytes) and isinstance(exp, int) and got == str(exp).encode():
            return "wrong_encoding"
        if isinstance(got, int) and isinstance(exp, bytes) and str(got).encode() == exp:
            return "wrong_encoding"
        return "wrong_type"
    if isinstance(exp, bytes) and isinstance(got, bytes):
        alts = [exp.upper()]
        for conv in (bytes.fromhex, ):
            try:
                raw = conv(exp.decode())
                alts += [raw, base64.b64encode(raw), base64.urlsafe_b64encode(raw)]
            except (ValueError, UnicodeDecodeError):
                pass
        alts += [exp.hex().encode(), exp.hex().upper().encode(), base64.b64encode(exp)]
        if exp.isdigit():
            alts += [b"%x" % int(exp), b"%X" % int(exp), b"0x%x" % int(exp)]
        if got in alts:
            return "wrong_encoding"
    if isinstance(exp, int) and isinstance(got, int) and (got - exp) % (1 << 64) == 0:
        return "wrong_encoding"
    return None


def one_event_case(case, idx, slot):
    c = {"events": [case["events"][idx]], "crc_lits": []}
    if slot[0] == "crc" and slot[2] == "literal":
        c["crc_lits"] = [slot[1]]
    return c


def run_case(ctx, case):
    if not S:
        setup(ctx)
    src, slots, exprs = build_program(case.get("crc_lits") or [])
    evs = []
    for e in case["events"]:
        o = {"v": e["v"], "k": e["k"], "cs": list(e.get("cs") or [])}
        if e.get("ha") is not None:
            o["ha"] = e["ha"]
        if e.get("xv") is not None:
            o["xv"] = e["xv"]
        evs.append({"e": {"o": o}})
    resp = ctx.call({"op": "run", "src": src, "probe": False, "events": evs})
    if "panic" in resp:
        ctx.violation("digest:compile_panic@" + panic_loc(resp["panic"]),
                      {"src": src, "panic": resp["panic"]})
        return
    if not resp.get("compiled"):
        ctx.skip("harness:program_rejected")
        ctx.note("rejected_diag", str(resp.get("diags"))[:400])
        return
    for idx, (e, run) in enumerate(zip(case["events"], resp["runs"])):
        ev = {"v": dec(e["v"]), "k": dec(e["k"]), "ha": e.get("ha"), "xv": e.get("xv"),
              "cs": list(e.get("cs") or [])}
        if len(ev["cs"]) < N_CRC_DYN:
            # replayed single-event cases keep their list; pad so that slots stay aligned
            ev["cs"] = ev["cs"] + [None] * (N_CRC_DYN - len(ev["cs"]))
        n = len(ev["v"])
        if "panic" in run:
            ctx.violation("digest:panic@" + panic_loc(run["panic"]), {"len": n, "value": ev["v"].hex()[:200], "panic": run["panic"]},
                          case=one_event_case(case, idx, ("", "", "")))
            continue
        out = run["out"]
        if "ok" not in out:
            # one failing call aborts the whole array: find the culprit with single-call programs
            blame(ctx, case, idx, ev, slots, exprs, out)
            continue
        got_all = dec(out["ok"])
        for slot, got in zip(slots, got_all):
            judge(ctx, case, idx, ev, slot, got)


def blame(ctx, case, idx, ev, slots, exprs, out):
    e = case["events"][idx]
    o = {"v": e["v"], "k": e["k"], "cs": list(e.get("cs") or [])}
    if e.get("ha") is not None:
        o["ha"] = e["ha"]
    if e.get("xv") is not None:
        o["xv"] = e["xv"]
    found = False
    for expr, slot in zip(exprs, slots):
        fn, variant, form = slot[0], slot[1], slot[2]
        if form == "runtime":
            variant = ev["ha"] if fn == "hmac" else ev["xv"] if fn == "xxhash" else ev["cs"][variant]
            if variant is None:
                continue
        r = ctx.call({"op": "run", "src": expr, "probe": False, "events": [{"e": {"o": o}}]})
        if not r.get("compiled"):
            continue
        run = r["runs"][0]
        if "panic" in run:
            found = True
            ctx.violation("%s:panic@%s" % (fn, panic_loc(run["panic"])),
                          {"expr": expr, "len": len(ev["v"]), "panic": run["panic"]},
                          case=one_event_case(case, idx, slot))
        elif "ok" not in run["out"]:
            found = True
            ctx.violation("%s:%s:unexpected_error" % (fn, variant),
                          {"expr": expr, "form": form, "len": len(ev["v"]), "value": ev["v"].hex()[:200],
                           "out": run["out"]}, case=one_event_case(case, idx, slot))
    if not found:
        ctx.skip("harness:program_failed_unattributed")
        ctx.note("unattributed_failure", str(out)[:300])


def judge(ctx, case, idx, ev, slot, got):
    fn, variant, form, oracle, cls = slot
    n = len(ev["v"])
    if form == "runtime":
        if fn == "hmac":
            variant = ev["ha"]
            cls = _hmac_class(HMAC[variant])
        elif fn == "xxhash":
            variant = ev["xv"]
            cls = _xx_class(variant)
        else:
            variant = ev["cs"][variant]
            if variant is None:
                return
    exp = oracle(ev)
    label = fn if variant == "-" else "%s:%s" % (fn, variant)
    if type(got) is type(exp) and got == exp:
        key = [fn, variant, form, cls(n)]
        if fn == "hmac":
            key.append(key_class(len(ev["k"]), BLOCKS[HMAC[variant]][0]))
        ctx.ok(tuple(key), nontrivial=n > 0,
               sample={"function": fn, "variant": variant, "form": form, "len": n,
                       "result": repr(got)[:80]})
        return
    kind = classify_mismatch(got, exp)
    what = {"md5": "digest", "sha1": "digest", "sha2": "digest", "sha3": "digest", "hmac": "mac",
            "crc": "checksum"}.get(fn, "hash")
    sig = "%s:%s" % (label, kind or "wrong_" + what)
    detail = {"function": fn, "variant": variant, "form": form, "len": n,
              "value_hex": ev["v"].hex()[:400], "got": repr(got)[:200], "expected": repr(exp)[:200]}
    if fn == "hmac":
        detail["key_hex"] = ev["k"].hex()[:400]
    ctx.violation(sig, detail, case=one_event_case(case, idx, slot))
