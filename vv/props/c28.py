"""C28 — string and collection functions obey their algebraic laws.

Monitor: a table of laws, each a pure Python predicate over the outputs of one or two calls of the
real stdlib functions.  Inputs are delivered runtime-typed through the event in batches (one
compile per group of functions, many events).  The laws are exactly those named in the property
statement; option semantics are taken from the functions' documentation.

Groups (one VRL program each) and their laws:
  str1      idem.{upcase,downcase,camelcase,kebabcase,pascalcase,snakecase,screamingsnakecase},
            strip.exact, strlen.scalars, length.string
  splitjoin splitjoin.roundtrip, splitjoin.limit_roundtrip
  substr    {starts_with,ends_with,contains}.{cs,cs_explicit,ci}
  truncate  truncate.bound, truncate.bound_suffix, truncate.unchanged
  slice     slice.{string,array}.{start,range}
  unique    unique.no_duplicates, unique.first_occurrences, length.array
  compact   compact.{array,object}.{rec,flat}, compact.defaults
  object    keys.set, values.multiset, length.object
  merge     merge.shallow.shared, merge.deep.shared
"""
import re

from ..wire import enc, dec, veq, tag, Ts, Rx
from ..gen import values as gv
from ..model import c28_strings as S
from ..model.c2x_util import panic_file, shrink_item
from ..pool import WorkerDied

ID = "C28"
LEVEL = "exploration"
BUDGET = {"quick": 20, "thorough": 240}
FLOOR = {"quick": 200, "thorough": 350}
RULE = ("per case one function group and a batch of 48 inputs: Unicode strings (identifier styles, casing "
        "special cases such as sharp s / dotted I / final sigma / Kelvin sign, combining marks, all 25 "
        "White_Space code points and look-alikes that are not White_Space), delimiters and substrings "
        "derived from the string (prefix/suffix/infix, case variants), limits around the length, nested "
        "arrays/objects with empty members and all compact option vectors; a few invalid-UTF-8 inputs are "
        "sent to the string functions for panic detection only. Non-trivial: the function changed its "
        "input / the delimiter or substring occurs / something was removed / keys are shared; distinct by "
        "(law id, input feature class).")
ASSUMPTIONS = [
    "the 25 code points of UCD White_Space are hard-coded; Python str is a sequence of Unicode scalar values",
    "case-insensitive matching is judged only where lower-, upper- and casefold-based comparison (Python, "
    "Unicode 14) agree; other pairs are skipped",
    "slice positions on strings are byte positions: the documented default end is the 'String length' and "
    "`length` documents string length as the number of bytes",
    "string laws are judged for valid UTF-8 input only (the statement quantifies over Unicode strings)",
    "compact: recursion is bottom-up (the documented example removes \"c\": [null]); nullish strings are "
    "generated only from '-', '' and White_Space-only strings",
]

BATCH = 48
CASE_FNS = ["upcase", "downcase", "camelcase", "kebabcase", "pascalcase", "snakecase", "screamingsnakecase"]

SRC = {
    "str1": ("s = string!(.s)\n"
             + "".join("t%d = %s(s)\n" % (i, f) for i, f in enumerate(CASE_FNS))
             + "[" + ", ".join("[t%d, %s(t%d)]" % (i, f, i) for i, f in enumerate(CASE_FNS))
             + ", strip_whitespace(s), strlen(s), length(s)]"),
    "splitjoin": ("s = string!(.s)\nd = string!(.d)\nn = int!(.n)\n"
                  "p1 = split(s, d)\np2 = split(s, d, limit: n)\n"
                  "[join!(p1, d), join!(p2, d), length(p1), length(p2)]"),
    "substr": ("s = string!(.s)\np = string!(.p)\n"
               "[starts_with(s, p), ends_with(s, p), contains(s, p), "
               "starts_with(s, p, case_sensitive: true), ends_with(s, p, case_sensitive: true), "
               "contains(s, p, case_sensitive: true), "
               "starts_with(s, p, case_sensitive: false), ends_with(s, p, case_sensitive: false), "
               "contains(s, p, case_sensitive: false)]"),
    "truncate": ("s = string!(.s)\nn = int!(.n)\nx = string!(.x)\n"
                 "[truncate(s, n), truncate(s, n, x), truncate(s, n, suffix: x)]"),
    "slice": "r1, e1 = slice(.v, .a)\nr2, e2 = slice(.v, .a, .b)\n[[r1, e1], [r2, e2]]",
    "unique": "a = array!(.a)\n[unique(a), length(a)]",
    "compact": ("[compact!(.v, recursive: bool!(.r), null: bool!(.n), string: bool!(.s), object: bool!(.o), "
                "array: bool!(.a), nullish: bool!(.z)), compact!(.v)]"),
    "object": "o = object!(.o)\n[keys(o), values(o), length(o)]",
    "merge": ("a = object!(.a)\nb = object!(.b)\n"
              "[merge(a, b), merge(a, b, deep: true), merge(a, b, deep: false)]"),
}
FIELDS = {
    "str1": ["s"], "splitjoin": ["s", "d"], "substr": ["s", "p"], "truncate": ["s", "x", "n"],
    "slice": ["v"], "unique": ["a"], "compact": ["v"], "object": ["o"], "merge": ["a", "b"],
}
GROUP_WEIGHTS = [("str1", 5), ("splitjoin", 2), ("substr", 4), ("truncate", 2), ("slice", 2),
                 ("unique", 2), ("compact", 3), ("object", 2), ("merge", 2)]


# ----------------------------------------------------------------------------------------
# generators

def gen_bytes(rng, invalid_p=0.03):
    if rng.random() < invalid_p:
        return S.rand_invalid_utf8(rng)
    return S.rand_str(rng).encode("utf-8")


def swap_some(rng, s):
    out = []
    mode = rng.randrange(4)
    for ch in s:
        if mode == 0:
            c = ch.upper()
        elif mode == 1:
            c = ch.lower()
        elif mode == 2:
            c = ch.swapcase()
        else:
            c = ch.swapcase() if rng.random() < 0.5 else ch
        out.append(c)
    return "".join(out)


def gen_sub(rng, s):
    """A substring candidate related to s."""
    n = len(s)
    r = rng.random()
    if n == 0 or r < 0.12:
        p = S.rand_str(rng, 4)
    elif r < 0.32:
        p = s[:rng.randint(0, n)]
    elif r < 0.52:
        p = s[rng.randint(0, n):]
    elif r < 0.7:
        i = rng.randint(0, n)
        p = s[i:rng.randint(i, n)]
    elif r < 0.78:
        p = s
    elif r < 0.88:
        # lowercase image followed by padding: exercises length-changing case mappings
        p = s.lower()[:rng.randint(1, max(1, n))] + "".join(rng.choice("abk") for _ in range(rng.randint(0, 3)))
    else:
        p = s[:rng.randint(0, n)] + rng.choice(["x", "A", "é", " "])
    if rng.random() < 0.45:
        p = swap_some(rng, p)
    return p


CVAL_SCALARS = [None, None, b"", b"", b"-", b" ", b"\n", b" \t ", "\u00a0".encode(), "\u3000 ".encode(),
                b"a", b"- ", b"--", b" a ", b"0", 0, 1, -1, 1.0, 0.0, True, False, 2, 0.5,
                Ts(0, 0), Ts(1600000000, 5), b"\xff", b"x", b"null", Rx("a")]


def rand_cval(rng, depth=3, maxlen=4):
    r = rng.random()
    if depth <= 0 or r < 0.5:
        return rng.choice(CVAL_SCALARS)
    if r < 0.6:
        return []
    if r < 0.7:
        return {}
    if r < 0.85:
        return [rand_cval(rng, depth - 1, maxlen) for _ in range(rng.randint(0, maxlen))]
    return {rng.choice(gv.KEYS): rand_cval(rng, depth - 1, maxlen) for _ in range(rng.randint(0, maxlen))}


def rand_cobj(rng, depth=3, maxlen=5, keys=None):
    keys = keys or gv.KEYS
    return {rng.choice(keys): rand_cval(rng, depth - 1) for _ in range(rng.randint(0, maxlen))}


def gen_item(rng, g):
    if g == "str1":
        return {"s": gen_bytes(rng)}
    if g == "splitjoin":
        sb = gen_bytes(rng, 0.03)
        if not S.lossless(sb):
            return {"s": sb, "d": rng.choice([b"a", b"\xff", b"_"]), "n": rng.randint(0, 4)}
        s = sb.decode("utf-8")
        r = rng.random()
        if s and r < 0.55:
            i = rng.randrange(len(s))
            d = s[i:i + rng.choice([1, 1, 1, 2, 3])]
        elif r < 0.75:
            d = rng.choice(["_", "-", " ", ", ", "aa", "a", "ab", "é", "́", "\U0001f600", "__", "\n"])
            # plant the delimiter
            k = rng.randint(0, 4)
            for _ in range(k):
                i = rng.randint(0, len(s))
                s = s[:i] + d + s[i:]
        else:
            d = S.rand_str(rng, 3) or "x"
        if rng.random() < 0.15:
            s = d * rng.randint(1, 4) + (s[:2] if rng.random() < 0.5 else "")
        if not d:
            d = "a"
        pieces = len(s.split(d))
        n = rng.choice([1, 1, 2, pieces, pieces + 1, max(1, pieces - 1), rng.randint(-2, 8), 999])
        return {"s": s.encode("utf-8"), "d": d.encode("utf-8"), "n": n}
    if g == "substr":
        sb = gen_bytes(rng, 0.012)
        if not S.lossless(sb):
            pb = rng.choice([sb, sb[:rng.randint(0, len(sb))], sb[rng.randint(0, len(sb)):], b"a",
                             S.rand_invalid_utf8(rng)])
            return {"s": sb, "p": pb}
        s = sb.decode("utf-8")
        return {"s": sb, "p": gen_sub(rng, s).encode("utf-8")}
    if g == "truncate":
        sb = gen_bytes(rng, 0.03)
        n = len(sb.decode("utf-8", "replace"))
        lim = rng.choice([0, 1, n - 1, n, n + 1, n // 2, rng.randint(-3, 14), len(sb), gv.I64_MAX, gv.I64_MIN, -1])
        x = rng.choice([b"", b"...", b"[TRUNCATED]", "…".encode(), b"x", S.rand_str(rng, 3).encode("utf-8")])
        return {"s": sb, "n": lim, "x": x}
    if g == "slice":
        if rng.random() < 0.55:
            v = gv.rand_bytes(rng, 10) if rng.random() < 0.5 else S.rand_str(rng, 8).encode("utf-8")
        else:
            v = [rand_cval(rng, 1) for _ in range(rng.randint(0, 7))]
        n = len(v)

        def wild():
            return rng.choice([n + 1, -n - 1, rng.randint(-n - 2, n + 2), rng.randint(-12, 12),
                               gv.I64_MAX, gv.I64_MIN, 100, -100])
        a = rng.randint(-n, n) if rng.random() < 0.8 else wild()
        a1 = a + n if a < 0 else a
        r = rng.random()
        if r < 0.55 and 0 <= a1 <= n:
            b1 = rng.randint(a1, n)
            b = b1 if (rng.random() < 0.5 or b1 == n) else b1 - n
        elif r < 0.75:
            b = rng.choice([n, n + 1, n + 5, gv.I64_MAX, 100])
        else:
            b = wild()
        return {"v": v, "a": a, "b": b}
    if g == "unique":
        pool = [rng.choice(CVAL_SCALARS) for _ in range(rng.randint(1, 5))]
        if rng.random() < 0.5:
            pool += [1, 1.0, True, b"1", 0, False, None, b""][:rng.randint(0, 8)]
        if rng.random() < 0.5:
            pool += [rand_cval(rng, 2, 3) for _ in range(rng.randint(1, 3))]
        arr = [rng.choice(pool) for _ in range(rng.randint(0, 9))]
        if rng.random() < 0.2:
            arr = [rand_cval(rng, 2, 3) for _ in range(rng.randint(0, 6))]
        arr = [dec(enc(x)) for x in arr]
        return {"a": arr}
    if g == "compact":
        v = rand_cobj(rng, 4) if rng.random() < 0.5 else [rand_cval(rng, 3) for _ in range(rng.randint(0, 6))]
        if rng.random() < 0.3:
            bits = rng.choice([(True, True, True, True, True, False), (False,) * 6, (True,) * 6])
        else:
            bits = tuple(rng.random() < 0.5 for _ in range(6))
        return {"v": v, "r": bits[0], "n": bits[1], "s": bits[2], "o": bits[3], "a": bits[4], "z": bits[5]}
    if g == "object":
        keys = gv.KEYS + ["\U0001f600", "k" * 20, " ", "A", "a.b.c", "[0]"]
        return {"o": rand_cobj(rng, 3, rng.choice([0, 1, 3, 6, 12]), keys)}
    if g == "merge":
        keys = gv.SIMPLE_KEYS[:6] + ["", "a b"]
        a = rand_cobj(rng, 4, 5, keys)
        r = rng.random()
        if r < 0.6:
            b = {}
            for k, x in a.items():
                q = rng.random()
                if q < 0.3:
                    continue
                if q < 0.6 and isinstance(x, dict):
                    b[k] = dict(rand_cobj(rng, 3, 4, keys), **{kk: rand_cval(rng, 2) for kk in list(x)[:2]})
                elif q < 0.8:
                    b[k] = rand_cval(rng, 2)
                else:
                    b[k] = dec(enc(x))
            for _ in range(rng.randint(0, 2)):
                b[rng.choice(keys)] = rand_cval(rng, 2)
        else:
            b = rand_cobj(rng, 4, 5, keys)
        if rng.random() < 0.5:
            # make sure there is a shared key holding objects on both sides
            k = rng.choice(keys)
            a[k] = rand_cobj(rng, 3, 4, keys)
            b[k] = rand_cobj(rng, 3, 4, keys)
        return {"a": a, "b": b}
    raise ValueError(g)


def gen_case(ctx, rng):
    g = rng.choices([x for x, _ in GROUP_WEIGHTS], [w for _, w in GROUP_WEIGHTS])[0]
    items = [gen_item(rng, g) for _ in range(BATCH)]
    return {"g": g, "items": [{k: enc(v) for k, v in it.items()} for it in items]}


# ----------------------------------------------------------------------------------------
# judging

class Res:
    def __init__(self):
        self.viol = []      # (sig, detail)
        self.oks = []       # (covkey, nontrivial, sample)
        self.skips = []

    def ok(self, key, nontrivial=True, sample=None):
        self.oks.append((key, nontrivial, sample))

    def bad(self, sig, detail):
        self.viol.append((sig, detail))

    def skip(self, why):
        self.skips.append(why)


def u8(b):
    return b.decode("utf-8", "replace")


def r8(b):
    return ascii(u8(b)) if isinstance(b, bytes) else repr(b)


DELIMS = "_- "


def idem_class(t, u):
    """Mechanism of an idempotence failure f(s)=t, f(t)=u, and whether the spot involved is ASCII."""
    T, U = u8(t), u8(u)
    ctx = ""
    if T.casefold() == U.casefold():
        # only the case of letters changed: two words of f(s) were read as one word by the second pass
        mech = "word_boundary_lost"
        if len(T) == len(U):
            for i in range(len(T)):
                if T[i] != U[i]:
                    ctx += T[max(0, i - 1):i + 2]
        else:
            ctx = T
    else:
        i = j = 0
        added = dropped = changed = 0
        okay = True
        while i < len(T) or j < len(U):
            a = T[i] if i < len(T) else ""
            b = U[j] if j < len(U) else ""
            if a and b and (a == b or a.casefold() == b.casefold()):
                i += 1
                j += 1
            elif a and b and a in DELIMS and b in DELIMS:
                changed += 1
                ctx += T[max(0, i - 1):i] + T[i + 1:i + 3]
                i += 1
                j += 1
            elif b and b in DELIMS:
                added += 1
                ctx += U[max(0, j - 1):j] + U[j + 1:j + 3]
                j += 1
            elif a and a in DELIMS:
                dropped += 1
                ctx += T[max(0, i - 1):i] + T[i + 1:i + 3]
                i += 1
            else:
                okay = False
                break
        kinds = [k for k, c in (("word_boundary_added", added), ("delimiter_dropped", dropped),
                                ("delimiter_changed", changed)) if c]
        if not okay or len(kinds) != 1:
            mech, ctx = "other", T
        else:
            mech = kinds[0]
    return "%s:%s" % (mech, "ascii" if all(ord(c) < 128 for c in ctx) else "nonascii")


def ws_end_class(chars):
    if not chars:
        return "none"
    a = any(ord(c) < 128 for c in chars)
    u = any(ord(c) >= 128 for c in chars)
    return "mixed" if a and u else "ascii" if a else "unicode"


def judge_str1(it, out, R):
    sb = it["s"]
    if not S.lossless(sb):
        R.ok(("str1.no_panic", "invalid_utf8"))
        return
    s = sb.decode("utf-8")
    cls = S.str_class(s)
    for name, pair in zip(CASE_FNS, out[:7]):
        t, u = pair
        if t != u:
            R.bad("idem:%s:%s" % (name, idem_class(t, u)),
                  {"law": "%s(%s(s)) == %s(s)" % (name, name, name), "s": ascii(s), "f(s)": r8(t), "f(f(s))": r8(u)})
        else:
            R.ok(("idem." + name, cls), t != sb, {"law": "idem." + name, "s": ascii(s), "f(s)": r8(t)})
    # strip_whitespace
    got = out[7]
    exp = S.strip_model(s)
    lead = s[:len(s) - len(s.lstrip(S.WS_CHARS))]
    trail = s[len(s.rstrip(S.WS_CHARS)):] if exp else ""
    if got != exp.encode("utf-8"):
        g = u8(got)
        if len(g) > len(exp) and exp in g:
            extra = g.replace(exp, "", 1) if exp else g
            kind = "not_removed:" + ws_end_class([c for c in extra if ord(c) in S.WHITE_SPACE] or extra)
        elif len(g) < len(exp):
            kind = "removed:non_white_space"
        else:
            kind = "other"
        R.bad("strip:" + kind, {"law": "strip_whitespace(s) == s without leading/trailing White_Space",
                                "s": ascii(s), "expected": ascii(exp), "got": r8(got)})
    else:
        notws_edge = bool(exp) and (exp[0] in S.NOT_WS or exp[-1] in S.NOT_WS)
        inner = any(ord(c) in S.WHITE_SPACE for c in exp)
        feat = "%s/%s%s%s" % (ws_end_class(lead), ws_end_class(trail), "/inner" if inner else "",
                              "/lookalike_edge" if notws_edge else "")
        if not exp and s:
            feat = "all_ws:" + ws_end_class(s)
        R.ok(("strip.exact", feat), bool(lead or trail or notws_edge),
             {"law": "strip.exact", "s": ascii(s), "got": r8(got)})
    if out[8] != len(s):
        R.bad("strlen:%s" % ("ascii" if len(s) == len(sb) else "multibyte"),
              {"law": "strlen(s) == number of scalar values", "s": ascii(s), "expected": len(s), "got": repr(out[8])})
    else:
        R.ok(("strlen.scalars", cls), len(s) != len(sb))
    if out[9] != len(sb):
        R.bad("length:string", {"s": ascii(s), "expected": len(sb), "got": repr(out[9])})
    else:
        R.ok(("length.string", cls), len(s) != len(sb))


def delim_class(s, d):
    if d * 2 in s or (len(d) > 1 and d[0] == d[-1] and (d + d[1:]) in s):
        return "overlapping"
    if any(ord(c) > 127 for c in d):
        return "nonascii"
    return "ascii1" if len(d) == 1 else "ascii_multi"


def judge_splitjoin(it, out, R):
    sb, db, n = it["s"], it["d"], it["n"]
    if not (S.lossless(sb) and S.lossless(db)):
        R.ok(("splitjoin.no_panic", "invalid_utf8"))
        return
    if not db:
        R.skip("splitjoin:empty_delimiter")
        return
    s, d = sb.decode("utf-8"), db.decode("utf-8")
    occ = s.count(d)
    occ_c = "0" if occ == 0 else "1" if occ == 1 else "many"
    dc = delim_class(s, d)
    edge = ("start" if s.startswith(d) else "") + ("end" if s.endswith(d) and s else "")
    if out[0] != sb:
        R.bad("splitjoin:roundtrip:" + dc, {"law": "join(split(s, d), d) == s", "s": ascii(s), "d": ascii(d),
                                            "got": r8(out[0])})
    else:
        R.ok(("splitjoin.roundtrip", occ_c, dc, edge or "inner"), occ > 0,
             {"law": "splitjoin.roundtrip", "s": ascii(s), "d": ascii(d), "pieces": out[2]})
    if n < 1:
        R.skip("splitjoin:limit<1")
    elif out[1] != sb:
        R.bad("splitjoin:limit:roundtrip:" + dc, {"law": "join(split(s, d, limit: n), d) == s (n >= 1)", "s": ascii(s),
                                                  "d": ascii(d), "n": n, "got": r8(out[1])})
    else:
        cut = "cut" if n < occ + 1 else "exact" if n == occ + 1 else "slack"
        R.ok(("splitjoin.limit_roundtrip", occ_c, dc, cut), occ > 0)


def ci_expect(s, p, op):
    res = set()
    for f in (str.lower, str.upper, str.casefold):
        res.add(op(f(s), f(p)))
    return res.pop() if len(res) == 1 else None


def len_changing(s):
    return any(len(c.lower().encode("utf-8")) != len(c.encode("utf-8")) for c in s)


SUB_OPS = [("starts_with", str.startswith), ("ends_with", str.endswith), ("contains", lambda a, b: b in a)]


def judge_substr(it, out, R):
    sb, pb = it["s"], it["p"]
    if not (S.lossless(sb) and S.lossless(pb)):
        R.ok(("substr.no_panic", "invalid_utf8"))
        return
    s, p = sb.decode("utf-8"), pb.decode("utf-8")
    asc = "ascii" if len(sb) == len(s) and len(pb) == len(p) else (
        "length_changing_lowercase" if len_changing(s + p) else
        "sigma" if any(c in "\u03a3\u03c3\u03c2" for c in s + p) else "nonascii")
    if not p:
        rel = "empty_p"
    elif p == s:
        rel = "equal"
    elif len(pb) > len(sb):
        rel = "p_longer"
    elif s.startswith(p):
        rel = "prefix"
    elif s.endswith(p):
        rel = "suffix"
    elif p in s:
        rel = "infix"
    elif p.lower() in s.lower():
        rel = "ci_only"
    else:
        rel = "none"
    interesting = rel not in ("none", "p_longer") or asc != "ascii"
    for i, (name, op) in enumerate(SUB_OPS):
        # byte-substring position (identical to scalar-value position for valid UTF-8)
        exp = {"starts_with": sb.startswith(pb), "ends_with": sb.endswith(pb), "contains": pb in sb}[name]
        for mode, got in (("cs", out[i]), ("cs_explicit", out[3 + i])):
            if got is not exp:
                R.bad("%s:%s:%s:%s" % (name, mode, "false_negative" if exp else "false_positive", asc),
                      {"law": "%s(s, p) == byte-substring position" % name, "s": ascii(s), "p": ascii(p),
                       "expected": exp, "got": repr(got)})
            else:
                R.ok(("%s.%s" % (name, mode), rel, asc), interesting)
        expi = ci_expect(s, p, op)
        got = out[6 + i]
        if expi is None:
            R.skip("substr:ci_foldings_disagree")
        elif got is not expi:
            if expi and any(c in "\u03a3\u03c3\u03c2" for c in s + p):
                vc = "sigma"
            elif not expi and len(s) < len(p):
                vc = "value_has_fewer_chars_than_substring"
            else:
                vc = asc
            R.bad("%s:ci:%s:%s" % (name, "false_negative" if expi else "false_positive", vc),
                  {"law": "%s(s, p, case_sensitive: false) == %s after case folding" % (name, name), "s": ascii(s),
                   "p": ascii(p), "expected": expi, "got": repr(got)})
        else:
            R.ok(("%s.ci" % name, rel, asc, "match" if expi else "nomatch"), interesting,
                 {"law": name + ".ci", "s": ascii(s), "p": ascii(p), "result": got})


def judge_truncate(it, out, R):
    sb, n, xb = it["s"], it["n"], it["x"]
    if not (S.lossless(sb) and S.lossless(xb)):
        R.ok(("truncate.no_panic", "invalid_utf8"))
        return
    s, x = sb.decode("utf-8"), xb.decode("utf-8")
    lim = max(n, 0)
    ls = len(s)
    rel = ("neg" if n < 0 else "zero" if n == 0 else "huge" if n > 1 << 32 else
           "lt" if n < ls else "eq" if n == ls else "gt")
    sc = "ascii" if len(sb) == ls else "combining" if any(c in S.COMBINING for c in s) else "multibyte"
    xc = "nosuffix" if not x else "ascii_suffix" if len(xb) == len(x) else "multibyte_suffix"
    r1, r2, r3 = out
    if len(u8(r1)) > lim:
        R.bad("truncate:exceeds_limit:" + sc, {"law": "strlen(truncate(s, n)) <= n", "s": ascii(s), "n": n, "got": r8(r1)})
    else:
        R.ok(("truncate.bound", rel, sc), n < ls, {"law": "truncate.bound", "s": ascii(s), "n": n, "got": r8(r1)})
    for form, r in (("positional", r2), ("keyword", r3)):
        if len(u8(r)) > lim + len(x):
            R.bad("truncate:exceeds_limit_plus_suffix:" + sc,
                  {"law": "strlen(truncate(s, n, suffix)) <= n + strlen(suffix)", "s": ascii(s), "n": n,
                   "suffix": ascii(x), "got": r8(r)})
        else:
            R.ok(("truncate.bound_suffix", rel, sc, xc, form), n < ls)
    if ls <= n:
        if r1 != sb or r2 != sb or r3 != sb:
            R.bad("truncate:changed_short_string", {"law": "strlen(s) <= n => truncate(s, n[, suffix]) == s",
                                                    "s": ascii(s), "n": n, "suffix": ascii(x),
                                                    "got": [r8(r1), r8(r2), r8(r3)]})
        else:
            R.ok(("truncate.unchanged", rel, sc, xc), bool(s))


def judge_slice(it, out, R):
    v, a, b = it["v"], it["a"], it["b"]
    kind = "string" if isinstance(v, bytes) else "array"
    n = len(v)
    a1 = a + n if a < 0 else a
    for form, end, (r, e) in (("start", None, out[0]), ("range", b, out[1])):
        if end is None:
            b1 = n
        else:
            b1 = end + n if end < 0 else end
        if not (0 <= a1 <= n) or b1 < a1:
            R.skip("slice:positions_outside_documented_domain")
            continue
        exp = v[a1:min(b1, n)]
        feat = "%s%s%s" % ("neg_start" if a < 0 else "pos_start",
                           "" if end is None else ("/neg_end" if end < 0 else "/end_beyond" if end > n else "/pos_end"),
                           "/empty" if not exp else "/whole" if len(exp) == n else "")
        if kind == "string" and any(c > 127 for c in v):
            feat += "/nonascii"
        det = {"law": "slice(v, start[, end]) == v[start:end] (%s positions)" % ("byte" if kind == "string" else "element"),
               "v": r8(v), "start": a, "end": end, "expected": r8(exp), "got": r8(r), "error": r8(e)}
        if e is not None:
            R.bad("slice:%s:%s:unexpected_error" % (kind, form), det)
        elif not veq(r, exp, float_bits=True):
            R.bad("slice:%s:%s:wrong_result" % (kind, form), det)
        else:
            R.ok(("slice.%s.%s" % (kind, form), feat), 0 < len(exp) < n or a < 0 or (end is not None and end < 0),
                 {"law": "slice.%s.%s" % (kind, form), "v": r8(v), "start": a, "end": end, "got": r8(r)})


def has_signed_zero_pair(arr):
    zs = set()

    def walk(x):
        if type(x) is float and x == 0.0:
            zs.add(str(x))
        elif isinstance(x, list):
            for y in x:
                walk(y)
        elif isinstance(x, dict):
            for y in x.values():
                walk(y)
    walk(arr)
    return len(zs) > 1


def judge_unique(it, out, R):
    arr = it["a"]
    u, ln = out
    if ln != len(arr):
        R.bad("length:array", {"a": repr(arr), "expected": len(arr), "got": repr(ln)})
    else:
        R.ok(("length.array", "n=%d" % min(len(arr), 8)), len(arr) > 0)
    if has_signed_zero_pair(arr):
        R.skip("unique:signed_zero_pair")
        return
    exp = []
    for x in arr:
        if not any(veq(x, y) for y in exp):
            exp.append(x)
    dups = len(arr) - len(exp)
    kinds = sorted({tag(x) for x in arr})
    feat = ("nodup" if dups == 0 else "dup1" if dups == 1 else "dups") + (
        "/nested" if any(isinstance(x, (list, dict)) for x in arr) else "") + (
        "/numeric_lookalikes" if {"integer", "float"} <= set(kinds) or {"integer", "boolean"} <= set(kinds) else "") + (
        "/adjacent" if any(veq(x, y) for x, y in zip(arr, arr[1:])) else "")
    if not isinstance(u, list):
        R.bad("unique:not_an_array", {"a": repr(arr), "got": repr(u)})
        return
    has_dup = any(veq(x, y) for i, x in enumerate(u) for y in u[i + 1:])
    det = {"a": repr(arr), "expected": repr(exp), "got": repr(u)}
    if has_dup:
        R.bad("unique:duplicates_remain", dict(det, law="unique(a) has no duplicates"))
    else:
        R.ok(("unique.no_duplicates", feat), dups > 0)
    if not has_dup and not veq(u, exp, float_bits=True):
        if len(u) == len(exp) and all(any(veq(x, y) for y in exp) for x in u):
            R.bad("unique:order_not_first_occurrences", dict(det, law="unique(a) keeps first occurrences in order"))
        else:
            R.bad("unique:wrong_elements", dict(det, law="unique(a) keeps exactly the distinct elements"))
    elif not has_dup:
        R.ok(("unique.first_occurrences", feat), dups > 0, {"law": "unique.first_occurrences", "a": repr(arr), "got": repr(u)})


def is_nullish(v):
    if v is None:
        return True
    if isinstance(v, bytes):
        if v == b"" or v == b"-":
            return True
        try:
            s = v.decode("utf-8")
        except UnicodeDecodeError:
            return False
        return all(ord(c) in S.WHITE_SPACE for c in s)
    return False


def compact_model(v, o):
    rec, null, string, obj, arr, nullish = o

    def empty(x):
        if nullish and is_nullish(x):
            return True
        if isinstance(x, bytes):
            return string and len(x) == 0
        if x is None:
            return null
        if isinstance(x, dict):
            return obj and not x
        if isinstance(x, list):
            return arr and not x
        return False

    def go(x):
        if isinstance(x, list):
            items = [(go(y) if rec else y) for y in x]
            return [y for y in items if not empty(y)]
        if isinstance(x, dict):
            items = {k: (go(y) if rec else y) for k, y in x.items()}
            return {k: y for k, y in items.items() if not empty(y)}
        return x
    return go(v)


def count_nodes(v):
    if isinstance(v, list):
        return 1 + sum(count_nodes(x) for x in v)
    if isinstance(v, dict):
        return 1 + sum(count_nodes(x) for x in v.values())
    return 1


def judge_compact(it, out, R):
    v = it["v"]
    o = (it["r"], it["n"], it["s"], it["o"], it["a"], it["z"])
    kind = "array" if isinstance(v, list) else "object"
    bits = "".join("1" if x else "0" for x in o)
    for law, opts, got in (("compact.%s.%s" % (kind, "rec" if o[0] else "flat"), o, out[0]),
                           ("compact.defaults", (True, True, True, True, True, False), out[1])):
        exp = compact_model(v, opts)
        if not veq(got, exp, float_bits=True):
            ne, ng = count_nodes(exp), count_nodes(got)
            diff = "kept_empty" if ng > ne else "removed_non_empty" if ng < ne else "other"
            R.bad("%s:%s" % (law.replace(".", ":"), diff),
                  {"law": "compact removes exactly the configured empties",
                   "options(recursive,null,string,object,array,nullish)": bits if law != "compact.defaults" else "defaults",
                   "v": repr(v), "expected": repr(exp), "got": repr(got)})
        else:
            removed = count_nodes(v) - count_nodes(exp)
            eff = "nothing" if removed == 0 else "all" if not exp else "some"
            if law == "compact.defaults":
                R.ok((law, kind, eff), removed > 0)
            else:
                R.ok((law, bits[1:], eff), removed > 0,
                     {"law": law, "options(recursive,null,string,object,array,nullish)": bits, "v": repr(v), "got": repr(got)})


def judge_object(it, out, R):
    o = it["o"]
    ks, vs, ln = out
    n = len(o)
    feat = "n=%s" % (n if n < 4 else "4+") + ("/empty_key" if "" in o else "") + (
        "/nonascii_key" if any(any(ord(c) > 127 for c in k) for k in o) else "") + (
        "/nested" if any(isinstance(x, (list, dict)) for x in o.values()) else "")
    expk = sorted(k.encode("utf-8") for k in o)
    if not isinstance(ks, list) or sorted(ks, key=lambda x: x if isinstance(x, bytes) else b"") != expk:
        R.bad("keys:mismatch", {"law": "keys(o) == the object's keys", "o": repr(o), "got": repr(ks)})
    else:
        R.ok(("keys.set", feat), n > 0)
    ok = isinstance(vs, list) and len(vs) == n
    if ok:
        rest = list(o.values())
        for x in vs:
            for i, y in enumerate(rest):
                if veq(x, y, float_bits=True):
                    del rest[i]
                    break
            else:
                ok = False
                break
    if not ok:
        R.bad("values:mismatch", {"law": "values(o) == the object's values (as a multiset)", "o": repr(o), "got": repr(vs)})
    else:
        R.ok(("values.multiset", feat), n > 0)
    if ln != n:
        R.bad("length:object", {"o": repr(o), "expected": n, "got": repr(ln)})
    else:
        R.ok(("length.object", feat), n > 0)


def deep_merge(a, b):
    out = dict(a)
    for k, y in b.items():
        if k in out and isinstance(out[k], dict) and isinstance(y, dict):
            out[k] = deep_merge(out[k], y)
        else:
            out[k] = y
    return out


def judge_merge(it, out, R):
    a, b = it["a"], it["b"]
    shared = [k for k in a if k in b]
    both_obj = [k for k in shared if isinstance(a[k], dict) and isinstance(b[k], dict)]
    feat = "shared=%s" % (len(shared) if len(shared) < 3 else "3+") + (
        "/objects_both" if both_obj else "") + (
        "/object_vs_scalar" if any(isinstance(a[k], dict) != isinstance(b[k], dict) for k in shared) else "")
    for law, got, deep in (("merge.shallow.shared", out[0], False), ("merge.deep.shared", out[1], True),
                           ("merge.shallow.shared", out[2], False)):
        bad = None
        if not isinstance(got, dict):
            bad = ("?", None)
        else:
            for k in shared:
                exp = deep_merge(a[k], b[k]) if deep and k in both_obj else b[k]
                if k not in got or not veq(got[k], exp, float_bits=True):
                    bad = (k, exp)
                    break
        if bad:
            k, exp = bad
            R.bad("%s:%s/%s" % (law.replace(".", ":"), tag(a.get(k)), tag(b.get(k))),
                  {"law": "merge(a, b%s)[k] == %s on shared keys" % (", deep: true" if deep else "",
                                                                      "deep-merged value" if deep else "b[k]"),
                   "a": repr(a), "b": repr(b), "key": k, "expected": repr(exp), "got": repr(got)})
        else:
            R.ok((law, feat, "explicit_false" if got is out[2] else "default" if not deep else "deep"), bool(shared),
                 {"law": law, "a": repr(a), "b": repr(b), "got": repr(got)})


JUDGES = {"str1": judge_str1, "splitjoin": judge_splitjoin, "substr": judge_substr, "truncate": judge_truncate,
          "slice": judge_slice, "unique": judge_unique, "compact": judge_compact, "object": judge_object,
          "merge": judge_merge}
STRING_GROUPS = {"str1": ["s"], "splitjoin": ["s", "d"], "substr": ["s", "p"], "truncate": ["s", "x"]}


def evaluate(ctx, g, items):
    """items: list of dicts of *decoded* values -> list of Res (None if the program was rejected)."""
    resp = ctx.call({"op": "run", "src": SRC[g], "probe": False,
                     "events": [{"e": {"o": {k: enc(v) for k, v in it.items()}}} for it in items]})
    if not resp.get("compiled"):
        return None
    out = []
    for it, run in zip(items, resp["runs"]):
        R = Res()
        out.append(R)
        invalid = g in STRING_GROUPS and not all(S.lossless(it[f]) for f in STRING_GROUPS[g])
        area = g + (".invalid_utf8" if invalid else "")
        if "panic" in run:
            R.bad("%s:panic@%s" % (area, panic_file(run["panic"])), {"panic": run["panic"], "program": SRC[g],
                                                                    "input": {k: r8(v) if isinstance(v, bytes) else repr(v)
                                                                              for k, v in it.items()}})
            continue
        o = run.get("out", {})
        if "ok" not in o:
            R.bad("%s:program_failed" % area, {"out": o, "program": SRC[g],
                                               "input": {k: repr(v) for k, v in it.items()}})
            continue
        JUDGES[g](it, dec(o["ok"]), R)
    return out


def coarse_signature(sig):
    """idem:<function>:<how the second application differs>:<ascii|nonascii> -> idem:<function>:<ascii|nonascii>
    (the way the output changes is part of the witness)."""
    parts = sig.split(":")
    if parts[0] == "idem" and len(parts) == 4:
        return "idem:%s:%s" % (parts[1], parts[3])
    return sig


def run_case(ctx, case):
    g = case["g"]
    items = [{k: dec(v) for k, v in it.items()} for it in case["items"]]
    results = evaluate(ctx, g, items)
    if results is None:
        ctx.skip("harness:program_rejected:" + g)
        return
    for it, R in zip(items, results):
        for why in R.skips:
            ctx.skip(why)
        for key, nontrivial, sample in R.oks:
            ctx.ok(key, nontrivial, sample)
        for sig, detail in R.viol:
            one = it
            csig = coarse_signature(sig)
            if csig not in ctx.violations:
                # first occurrence in this process: shrink the witness
                def still(cands, sig=sig):
                    rs = evaluate(ctx, g, cands)
                    if rs is None:
                        return [False] * len(cands)
                    return [any(s2 == sig for s2, _ in r.viol) for r in rs]
                try:
                    if ":panic@" in sig:     # a caught panic costs ~50 ms in the worker: shrink sparingly
                        one = shrink_item(it, FIELDS[g], still, max_rounds=6, max_batch=6)
                    else:
                        one = shrink_item(it, FIELDS[g], still)
                    rs = evaluate(ctx, g, [one])
                    for s2, d2 in (rs[0].viol if rs else []):
                        if s2 == sig:
                            detail = d2
                            break
                    else:
                        one = it
                except WorkerDied:
                    one = it
            detail = dict(detail, fine_signature=sig)
            ctx.violation(csig, detail, case={"g": g, "items": [{k: enc(v) for k, v in one.items()}]})


def on_death(ctx, case, e):
    g = (case or {}).get("g", "?")
    if e.kind in ("cpu_timeout", "wall_timeout"):
        ctx.skip("timeout:" + g)
    elif e.kind in ("oom", "stack_overflow"):
        ctx.skip("resource_exhaustion:%s:%s" % (e.kind, g))
    else:
        ctx.skip("worker_died:%s:%s" % (e.kind, g))
