"""C29 — numeric functions return mathematically correct results.

Monitor: round/ceil/floor (with precision), abs, mod and the to_int/to_float/to_string/parse_int/
parse_float family are evaluated by the real runtime on operands delivered through the event; the
oracle uses exact rationals (fractions.Fraction of the doubles involved).

  round/ceil/floor(x, p), x finite:  result r is a finite number with |r - x| <= 10^-p, ceil: r >= x,
      floor: r <= x -- each bound with 2 ulp(max(|x|,|r|)) of slack because the result has to be a
      double; nothing stricter (no rounding-mode rule) is demanded.
  abs: magnitude; i64::MIN wraps to i64::MIN (the only wrapping case).
  mod: truncated remainder a - b*trunc(a/b) (sign of the dividend), finite operands, b != 0.
  conversions: parse_int(to_string(i)) == i, to_int(to_string(i)) == i, to_float(to_string(i)) ==
      parse_float(to_string(i)) == to_float(i), to_int(to_float(i)) == i for |i| <= 2^53,
      parse_float(to_string(f)) == to_float(to_string(f)) == f, to_float(to_int(f)) == f for integral
      |f| < 2^63, |to_int(f) - f| < 1 for |f| < 2^63.
"""
import math
from fractions import Fraction

from ..wire import enc, dec, veq, tag, f2bits, bits2f
from ..gen import values as gv
from ..model.c2x_util import panic_file
from ..pool import WorkerDied

ID = "C29"
LEVEL = "exploration"
BUDGET = {"quick": 20, "thorough": 240}
FLOOR = {"quick": 100, "thorough": 180}
RULE = ("per case one function group and a batch of 64 operands: finite doubles over all exponents (random "
        "bit patterns, edge pool, decimal ties k.5*10^-p, neighbours), i64 edges; precisions -400..400 plus "
        "i64 extremes, concentrated near 0, +-16, +-308, +-323; mod operand pairs incl. equal/negated/huge "
        "ratio; conversions on every i64/finite double. Non-trivial: non-zero finite float operand (round "
        "family), negative / i64::MIN (abs), non-zero remainder or sign mix (mod), |i| > 2^53 or "
        "non-integral / extreme float (conversions); distinct by (function, exponent class, precision "
        "class, outcome).")
ASSUMPTIONS = [
    "fractions.Fraction(float) is the exact value of a double; math.ulp is the unit in the last place",
    "10^-precision is computed exactly for |precision| <= 1100; beyond, it is treated as 0 (precision > 1100) "
    "or as unbounded (precision < -1100)",
    "mixed int/float mod is judged only when the integer is exactly representable as a double",
    "Python float(int) rounds to nearest-even (reference for to_float(i))",
]

BATCH = 64
MAXF = Fraction(1.7976931348623157e308)
MIN_SUB = Fraction(5e-324)
I64_MIN, I64_MAX = gv.I64_MIN, gv.I64_MAX

SRC = {
    "round": ("r0, e0 = round(.x, .p)\nr1, e1 = ceil(.x, .p)\nr2, e2 = floor(.x, .p)\n"
              "r3, e3 = round(.x, precision: .p)\nr4, e4 = ceil(.x, precision: .p)\nr5, e5 = floor(.x, precision: .p)\n"
              "[[r0, e0], [r1, e1], [r2, e2], [r3, e3], [r4, e4], [r5, e5]]"),
    "round0": ("r0, e0 = round(.x)\nr1, e1 = ceil(.x)\nr2, e2 = floor(.x)\n[[r0, e0], [r1, e1], [r2, e2]]"),
    "abs": "r0, e0 = abs(.a)\n[r0, e0]",
    "mod": "r0, e0 = mod(.a, .b)\n[r0, e0]",
    "conv_int": ("i = int!(.i)\nsi = to_string(i)\n"
                 "a0, e0 = parse_int(si)\na1, e1 = to_int(si)\na2, e2 = to_float(.i)\na3, e3 = to_float(si)\n"
                 "a4, e4 = parse_float(si)\na5 = to_int(a2)\na6, e6 = parse_int(si, base: 10)\n"
                 "[si, [a0, e0], [a1, e1], [a2, e2], [a3, e3], [a4, e4], a5, [a6, e6]]"),
    "conv_float": ("f = float!(.f)\nsf = to_string(f)\n"
                   "b0, g0 = parse_float(sf)\nb1, g1 = to_float(sf)\nb2, g2 = to_int(.f)\nb3 = to_float(b2)\n"
                   "[sf, [b0, g0], [b1, g1], [b2, g2], b3]"),
}
GROUP_WEIGHTS = [("round", 8), ("round0", 1), ("abs", 1), ("mod", 3), ("conv_int", 2), ("conv_float", 3)]
FNS = ["round", "ceil", "floor"]


# ----------------------------------------------------------------------------------------
# generators

def rand_precision(rng):
    r = rng.random()
    if r < 0.25:
        return rng.randint(-3, 6)
    if r < 0.45:
        return rng.randint(-20, 20)
    if r < 0.75:
        return rng.randint(-400, 400)
    if r < 0.93:
        return rng.choice([308, 309, 307, 310, 323, 324, 325, 400, -307, -308, -309, -310, -322, -323, -324, -325,
                           -400, 15, 16, 17, 22, 23, -15, -16, -17, -22, -23, 0, 1, -1]) + rng.choice([0, 0, 1, -1])
    return rng.choice([I64_MAX, I64_MIN, 1 << 31, -(1 << 31), 1 << 62, -(1 << 62), 1000, -1000, 1 << 53, 401, -401])


def rand_finite(rng):
    r = rng.random()
    if r < 0.3:
        # every exponent equally likely
        e = rng.randint(0, 2046)
        m = rng.getrandbits(52) if rng.random() < 0.8 else rng.choice([0, 1, (1 << 52) - 1, 1 << 51])
        return bits2f((rng.getrandbits(1) << 63) | (e << 52) | m)
    if r < 0.4:
        return rng.uniform(-1, 1) * 10.0 ** rng.randint(-320, 308)
    return gv.rand_float(rng, finite=True)


def gen_round_item(rng):
    p = rand_precision(rng)
    r = rng.random()
    if r < 0.12:
        x = gv.rand_int(rng)
    elif r < 0.32 and -300 < p < 300:
        # decimal tie / grid point at this precision
        k = rng.choice([rng.randint(-1000, 1000), rng.randint(-(10 ** 15), 10 ** 15)])
        num = Fraction(2 * k + rng.choice([0, 1, 1]), 2) / (Fraction(10) ** p)
        try:
            x = float(num)
        except OverflowError:
            x = rand_finite(rng)
        if rng.random() < 0.3:
            x = gv.nextafter_up(x) if rng.random() < 0.5 else gv.nextafter_down(x)
        if math.isinf(x):
            x = rand_finite(rng)
    elif r < 0.45 and -330 < p < 330:
        # magnitude close to 10^-p (last digit kept / first digit dropped) or to the overflow threshold
        try:
            x = rng.uniform(0.01, 100) * 10.0 ** (-p + rng.choice([0, 0, 1, -1, 15, 16, 17, -2]))
        except OverflowError:
            x = rand_finite(rng)
        if rng.random() < 0.5:
            x = -x
        if math.isinf(x) or x != x:
            x = rand_finite(rng)
    else:
        x = rand_finite(rng)
    return {"x": x, "p": p}


def gen_item(rng, g):
    if g == "round":
        return gen_round_item(rng)
    if g == "round0":
        return {"x": rand_finite(rng) if rng.random() < 0.85 else gv.rand_int(rng)}
    if g == "abs":
        r = rng.random()
        if r < 0.012:
            return {"a": I64_MIN}
        if r < 0.5:
            a = gv.rand_int(rng)
            return {"a": a if a != I64_MIN else I64_MIN + 1}
        return {"a": gv.rand_float(rng)}
    if g == "mod":
        def operand():
            r = rng.random()
            if r < 0.5:
                return gv.rand_int(rng)
            return rand_finite(rng) if rng.random() < 0.8 else gv.rand_float(rng)
        a = operand()
        r = rng.random()
        if r < 0.15:
            b = rng.choice([1, -1, 2, -2, 3, 10, 0.5, -0.5, 1.0, 7, -7, 0.1, 1e-300, 1e300, 5e-324])
        elif r < 0.25:
            b = rng.choice([a, -a if a != I64_MIN else -1, 0, 0.0])
        else:
            b = operand()
        return {"a": a, "b": b}
    if g == "conv_int":
        return {"i": gv.rand_int(rng)}
    if g == "conv_float":
        r = rng.random()
        if r < 0.25:
            f = float(gv.rand_int(rng))
        elif r < 0.35:
            f = float(rng.randint(-(1 << 64), 1 << 64)) + rng.choice([0.0, 0.5, -0.5])
        else:
            f = rand_finite(rng)
        return {"f": f}
    raise ValueError(g)


def gen_case(ctx, rng):
    g = rng.choices([x for x, _ in GROUP_WEIGHTS], [w for _, w in GROUP_WEIGHTS])[0]
    items = [gen_item(rng, g) for _ in range(BATCH)]
    return {"g": g, "items": [{k: enc(v) for k, v in it.items()} for it in items]}


# ----------------------------------------------------------------------------------------
# oracle

def pow10(e):
    """Exact 10^e as a Fraction."""
    return Fraction(10) ** e


def p_class(p):
    if p > 308:
        return "precision>308"
    if p < -323:
        return "precision<-323"
    if p < -308:
        return "precision<-308"
    if p > 0:
        return "precision>0"
    if p < 0:
        return "precision<0"
    return "precision=0"


def p_cov(p):
    if p > 308:
        return "p>308"
    if p > 16:
        return "16<p<=308"
    if p > 0:
        return "1..16"
    if p == 0:
        return "0"
    if p >= -16:
        return "-16..-1"
    if p >= -308:
        return "-308<=p<-16"
    if p >= -323:
        return "-323..-309"
    return "p<-323"


def x_class(x):
    if type(x) is int:
        return "int_big" if abs(x) > 1 << 53 else "int"
    if x == 0:
        return "zero"
    a = abs(x)
    if a < 2.2250738585072014e-308:
        return "subnormal"
    if a < 1e-100:
        return "<1e-100"
    if a < 1e-15:
        return "<1e-15"
    if a < 1:
        return "<1"
    if a < 9007199254740992.0:
        return "<2^53"
    if a < 1e100:
        return "<1e100"
    return ">=1e100"


def product_qual(fn, x, p):
    """Qualifier for -323 <= p <= 308: the exactly rounded value exceeds the double range, or the exact
    product |x|*10^p leaves the double range."""
    if not (-323 <= p <= 308) or x == 0:
        return ""
    scale = pow10(p)
    y = Fraction(x) * scale
    if fn == "floor":
        n = math.floor(y)
    elif fn == "ceil":
        n = math.ceil(y)
    else:
        n = math.floor(y + Fraction(1, 2)) if y >= 0 else -math.floor(-y + Fraction(1, 2))
    if abs(Fraction(n) / scale) > MAXF:
        return ":exact_result_exceeds_f64"
    if abs(y) > MAXF:
        return ":product_overflow"
    if abs(y) < MIN_SUB / 2:
        return ":product_underflow"
    return ""


def judge_round_fn(fn, x, p, r, e):
    """Returns (violation kind or None, outcome class)."""
    if e is not None:
        return "error", None
    if type(r) is float:
        if math.isinf(r) or r != r:
            return "result_not_finite", None
    elif type(r) is not int:
        return "result_not_a_number", None
    X, Rr = Fraction(x), Fraction(r)
    slack = 2 * Fraction(math.ulp(float(max(abs(X), abs(Rr))))) if (type(x) is float or type(r) is float) else Fraction(0)
    if p > 1100:
        tol = Fraction(0)
    elif p < -1100:
        tol = None
    else:
        tol = pow10(-p)
    if tol is not None and abs(Rr - X) > tol + slack:
        return "result_not_within_bound", None
    if fn == "ceil" and Rr < X - slack:
        return "result_below_input", None
    if fn == "floor" and Rr > X + slack:
        return "result_above_input", None
    return None, ("same" if Rr == X else "up" if Rr > X else "down")


def trunc_rem(a, b):
    A, B = Fraction(a), Fraction(b)
    q = A / B
    t = math.floor(q) if q >= 0 else -math.floor(-q)
    return A - B * t


class Res:
    def __init__(self):
        self.viol, self.oks, self.skips = [], [], []

    def ok(self, key, nontrivial=True, sample=None):
        self.oks.append((key, nontrivial, sample))

    def bad(self, sig, detail):
        self.viol.append((sig, detail))

    def skip(self, why):
        self.skips.append(why)


def rp(v):
    return repr(v) if not isinstance(v, bytes) else ascii(v.decode("utf-8", "replace"))


def judge_round(it, out, R, default_precision=False):
    x = it["x"]
    p = 0 if default_precision else it["p"]
    pc = p_class(p)
    forms = [("positional", 0)] if default_precision else [("positional", 0), ("keyword", 3)]
    for form, off in forms:
        for k, fn in enumerate(FNS):
            r, e = out[off + k]
            qual = product_qual(fn, x, p)
            kind, outcome = judge_round_fn(fn, x, p, r, e)
            if kind:
                R.bad("%s:%s%s:%s" % (fn, pc, qual, kind),
                      {"law": "%s(x, precision p) is finite, within 10^-p of x%s (2 ulp slack)" % (
                          fn, ", not below x" if fn == "ceil" else ", not above x" if fn == "floor" else ""),
                       "x": rp(x), "precision": p if not default_precision else "default", "got": rp(r), "error": rp(e)})
            else:
                R.ok((fn, x_class(x), p_cov(p) if not default_precision else "default", outcome + qual.replace(":", "/")),
                     type(x) is float and x != 0,
                     {"fn": fn, "x": rp(x), "precision": p, "got": rp(r)})


def judge_abs(it, out, R):
    a = it["a"]
    r, e = out
    det = {"law": "abs(a) == |a| (i64::MIN wraps)", "a": rp(a), "got": rp(r), "error": rp(e)}
    if type(a) is int:
        cls = "i64_min" if a == I64_MIN else "integer"
        exp = I64_MIN if a == I64_MIN else abs(a)
        if e is not None:
            R.bad("abs:%s:error" % cls, det)
        elif type(r) is not int or r != exp:
            R.bad("abs:%s:wrong_result" % cls, dict(det, expected=exp))
        else:
            R.ok(("abs", cls, "neg" if a < 0 else "nonneg", "big" if abs(a) > 1 << 53 else "small"), a < 0)
    else:
        exp = math.fabs(a)
        if e is not None:
            R.bad("abs:float:error", det)
        elif type(r) is not float or f2bits(r) != f2bits(exp):
            R.bad("abs:float:wrong_result", dict(det, expected=rp(exp)))
        else:
            R.ok(("abs", "float", x_class(a) if not math.isinf(a) else "inf", "neg" if math.copysign(1, a) < 0 else "nonneg"),
                 math.copysign(1, a) < 0)


def judge_mod(it, out, R):
    a, b = it["a"], it["b"]
    r, e = out
    ta, tb = tag(a), tag(b)
    cls = "%s_%s" % (ta, tb)
    det = {"law": "mod(a, b) == a - b*trunc(a/b)", "a": rp(a), "b": rp(b), "got": rp(r), "error": rp(e)}
    if any(type(v) is float and math.isinf(v) for v in (a, b)):
        R.skip("mod:infinite_operand")
        return
    if b == 0:
        if e is None:
            R.bad("mod:%s:zero_modulus_no_error" % cls, det)
        else:
            R.ok(("mod", cls, "zero_modulus"), True)
        return
    if ta != tb:
        i = a if ta == "integer" else b
        if abs(i) > 1 << 53 and float(i) != i:
            R.skip("mod:mixed_operands_integer_not_representable")
            return
    exp = trunc_rem(a, b)
    if e is not None:
        R.bad("mod:%s:unexpected_error" % cls, dict(det, expected=str(exp)))
        return
    want_type = int if (ta == "integer" and tb == "integer") else float
    if type(r) is not want_type or (type(r) is float and (math.isinf(r) or r != r)) or Fraction(r) != exp:
        R.bad("mod:%s:wrong_result" % cls, dict(det, expected=str(exp) if want_type is int else rp(float(exp))))
        return
    sign = "%s%s" % ("-" if a < 0 else "+", "-" if b < 0 else "+")
    mag = "zero" if exp == 0 else "a<b" if abs(Fraction(a)) < abs(Fraction(b)) else "a>=b"
    huge = "/huge_ratio" if b != 0 and a != 0 and abs(Fraction(a) / Fraction(b)) > 1 << 64 else ""
    R.ok(("mod", cls, sign, mag + huge), exp != 0 or a < 0 or b < 0)


def i_class(i):
    a = abs(i)
    return ("zero" if i == 0 else "small" if a < 1 << 31 else "<=2^53" if a <= 1 << 53 else
            "i64_edge" if i in (I64_MIN, I64_MAX) else ">2^53") + ("/neg" if i < 0 else "")


def judge_conv_int(it, out, R):
    i = it["i"]
    si, (a0, e0), (a1, e1), (a2, e2), (a3, e3), (a4, e4), a5, (a6, e6) = out
    ic = i_class(i)
    base = {"i": i, "to_string(i)": rp(si)}

    def check(law, cond, got, err, nontrivial=True):
        if err is not None or not cond:
            R.bad("conv:%s:%s" % (law, "error" if err is not None else "mismatch"),
                  dict(base, law=law, got=rp(got), error=rp(err)))
        else:
            R.ok(("conv." + law, ic), nontrivial)
    check("parse_int(to_string(i))==i", type(a0) is int and a0 == i, a0, e0)
    check("parse_int(to_string(i),base:10)==i", type(a6) is int and a6 == i, a6, e6)
    check("to_int(to_string(i))==i", type(a1) is int and a1 == i, a1, e1)
    big = abs(i) > 1 << 53
    check("to_float(i)==nearest_double", type(a2) is float and a2 == float(i), a2, e2, big)
    check("to_float(to_string(i))==to_float(i)", type(a3) is float and type(a2) is float and a3 == a2, a3, e3, big)
    check("parse_float(to_string(i))==to_float(i)", type(a4) is float and type(a2) is float and a4 == a2, a4, e4, big)
    if abs(i) <= 1 << 53:
        check("to_int(to_float(i))==i", type(a5) is int and a5 == i, a5, None)
    else:
        R.skip("conv:to_int(to_float(i)):|i|>2^53")


def judge_conv_float(it, out, R):
    f = it["f"]
    sf, (b0, g0), (b1, g1), (b2, g2), b3 = out
    if math.isinf(f):
        R.skip("conv:infinite_float")
        return
    fc = x_class(f) + ("/neg" if math.copysign(1, f) < 0 else "") + ("/integral" if f == math.floor(f) else "")
    base = {"f": rp(f), "to_string(f)": rp(sf) if len(sf) < 80 else rp(sf[:40]) + "...(%d bytes)" % len(sf)}

    def check(law, cond, got, err, nontrivial=True):
        if err is not None or not cond:
            R.bad("conv:%s:%s" % (law, "error" if err is not None else "mismatch"),
                  dict(base, law=law, got=rp(got), error=rp(err)))
        else:
            R.ok(("conv." + law, fc), nontrivial)
    check("parse_float(to_string(f))==f", type(b0) is float and b0 == f, b0, g0)
    check("to_float(to_string(f))==f", type(b1) is float and b1 == f, b1, g1)
    if abs(f) < 9223372036854775808.0:
        check("|to_int(f)-f|<1", type(b2) is int and abs(Fraction(b2) - Fraction(f)) < 1, b2, g2, f != math.floor(f))
        if f == math.floor(f):
            check("to_float(to_int(f))==f", type(b3) is float and b3 == f, b3, None, abs(f) > 1 << 53)
    else:
        R.skip("conv:to_int(f):|f|>=2^63")


JUDGES = {"round": judge_round, "round0": lambda it, out, R: judge_round(it, out, R, True),
          "abs": judge_abs, "mod": judge_mod, "conv_int": judge_conv_int, "conv_float": judge_conv_float}


def area_of(g, it):
    if g == "abs":
        return "abs:i64_min" if it["a"] == I64_MIN else "abs:" + tag(it["a"])
    if g == "mod":
        if it["a"] == I64_MIN and it["b"] == -1:
            return "mod:i64_min_by_minus_one"
        return "mod:%s_%s" % (tag(it["a"]), tag(it["b"]))
    if g in ("round", "round0"):
        return "round_family:" + (p_class(it["p"]) if "p" in it else "precision=default")
    return g


def evaluate(ctx, g, items):
    resp = ctx.call({"op": "run", "src": SRC[g], "probe": False,
                     "events": [{"e": {"o": {k: enc(v) for k, v in it.items()}}} for it in items]})
    if not resp.get("compiled"):
        return None
    out = []
    for it, run in zip(items, resp["runs"]):
        R = Res()
        out.append(R)
        inp = {k: rp(v) for k, v in it.items()}
        if "panic" in run:
            R.bad("%s:panic@%s" % (area_of(g, it), panic_file(run["panic"])),
                  {"panic": run["panic"], "program": SRC[g], "input": inp})
            continue
        o = run.get("out", {})
        if "ok" not in o:
            R.bad("%s:program_failed" % g, {"out": o, "program": SRC[g], "input": inp})
            continue
        JUDGES[g](it, dec(o["ok"]), R)
    return out


def run_case(ctx, case):
    g = case["g"]
    items = [{k: dec(v) for k, v in it.items()} for it in case["items"]]
    results = evaluate(ctx, g, items)
    if results is None:
        ctx.skip("harness:program_rejected:" + g)
        return
    for it, R in zip(items, results):
        for why in R.skips:
            ctx.skip(why)
        for key, nontrivial, sample in R.oks:
            ctx.ok(key, nontrivial, sample)
        for sig, detail in R.viol:
            ctx.violation(sig, dict(detail, program=SRC[g]),
                          case={"g": g, "items": [{k: enc(v) for k, v in it.items()}]})


def on_death(ctx, case, e):
    g = (case or {}).get("g", "?")
    if e.kind in ("cpu_timeout", "wall_timeout"):
        ctx.skip("timeout:" + g)
    elif e.kind in ("oom", "stack_overflow"):
        ctx.skip("resource_exhaustion:%s:%s" % (e.kind, g))
    else:
        ctx.skip("worker_died:%s:%s" % (e.kind, g))
