"""C30 — Datadog search queries round-trip through their text form.

Monitor: query texts (grammar-directed + mutated repository test queries) are parsed by the real
parser, rendered with `to_lucene`, and parsed again (worker op `dd`).  Oracle: accepted =>
the second tree equals the first (floats by value).  A failing query is minimised (delta
debugging on the text, every candidate re-judged by the real parser) and the difference between
the two trees is classified into a `node-type:feature` signature.
"""
import math
import re

from ..gen import queries as gq
from ..model import ddtree

ID = "C30"
LEVEL = "exploration"
BUDGET = {"quick": 20, "thorough": 240}
FLOOR = {"quick": 60, "thorough": 150}
RULE = ("query texts derived from grammar.pest (terms, phrases, @attributes, tags, default field, "
        "prefix/glob wildcards, [..]/{..} ranges with * bounds, comparisons, NOT/-/+, AND/OR/&&/||/"
        "implicit AND, grouping and field-scoped groups, every special character escaped, numeric "
        "terms incl. negative/float/exponent) + mutations of the repository's own test queries. "
        "Judged = accepted by the parser. Non-trivial: more than a single plain term. Distinct by "
        "(set of node types in the tree, set of escape classes used in the text).")
ASSUMPTIONS = ["tree equality is `QueryNode: PartialEq` as computed by the worker; two trees whose "
               "`{:?}` renderings are identical are also taken as equal (NaN bounds)",
               "the minimised witness is found by deleting characters only; its signature is "
               "derived from the first structural difference between the two trees"]

BATCH = 96
DEFAULT = "_default_"
WS = " \t\r\n"
# characters that cannot appear raw inside a TERM (anywhere) / only not at its start
BAD_ANYWHERE = set(' \t\r\n"()[]{}!:~^?*\\<>')
BAD_AT_START = set("+-=")
KW = ("AND", "OR", "NOT", "&&", "||")
NUMERIC_RE = re.compile(r"[+-]?(\d+(\.\d+)?|\.\d+)([eE][+-]?\d+)?\Z")


# ---------------------------------------------------------------------------------------------
# classification

def has_ws(s):
    return any(c in WS for c in s)


def raw_unsafe(s, allow=""):
    if not s:
        return False
    if s[0] in BAD_AT_START:
        return True
    return any(c in BAD_ANYWHERE and c not in allow for c in s)


def is_kw(s):
    """Text that cannot start a TERM although all of its characters are ordinary."""
    return s.startswith(KW) or s.startswith("UNICODE3000")


def attr_feature(leaf, strong_only=False):
    attr = leaf.get("attr")
    if attr is None:
        return None
    if attr == "":
        return "attr-empty"
    if has_ws(attr) or raw_unsafe(attr) or is_kw(attr):
        return "attr-needs-escaping"
    if strong_only:
        return None
    if attr in ("_exists_", "_missing_") and leaf["_"] in ("AttributeTerm", "QuotedAttribute"):
        return "attr-is-reserved-keyword"
    return None


def text_feature(name, s, leaf, strong_only=False):
    """Feature of a term-like string field (value / prefix / wildcard). 'Strong' features are
    those that can make the rendering unparseable; the others only change its meaning."""
    if name == "wildcard":
        if has_ws(s) or raw_unsafe(s, allow="*?"):
            return "wildcard-needs-escaping"
        if is_kw(s):
            return "wildcard-is-keyword"
        if strong_only:
            return None
        if leaf.get("attr") == DEFAULT and s == "*":
            return "default-field-bare-star"
        if leaf.get("attr") == DEFAULT and "?" in s:
            return "default-wildcard-with-questionmark"
        return None
    if has_ws(s):
        if name == "value" and leaf.get("attr") == DEFAULT and re.fullmatch(r"[^ \t\r\n]+( [^ \t\r\n]+)+", s):
            if any(is_kw(w) for w in s.split(" ")):
                return "value-contains-keyword"
            return None if strong_only else "default-multiterm-in-compound"
        return name + "-contains-space"
    if is_kw(s):
        return name + ("-contains-keyword" if name == "value" else "-is-keyword")
    return None


def cmp_feature(kind, v, strong_only=False):
    if v[0] == "Float" and not strong_only:
        f = v[1]
        if math.isinf(f) or f != f:
            return "float-value-nonfinite" if kind == "value" else None
        if f == int(f):
            return "float-%s-integral" % kind
        return None
    if v[0] == "String":
        s = v[1]
        if s == "":
            return "string-%s-empty" % kind
        if has_ws(s):
            return "string-%s-contains-space" % kind
        if kind == "value" and is_kw(s):
            return "string-value-is-keyword"
        if strong_only:
            return None
        if len(s) >= 2 and s[0] == '"' and s[-1] == '"':
            return "string-%s-quoted" % kind
        if kind == "value" and NUMERIC_RE.match(s):
            return "string-value-looks-numeric"
    return None


STR_FIELDS = {"AttributeTerm": "value", "AttributePrefix": "prefix", "AttributeWildcard": "wildcard",
              "QuotedAttribute": "phrase"}


def leaf_feature(leaf, strong_only=False):
    """Suspicious content of a leaf node, or None."""
    f = attr_feature(leaf, strong_only)
    if f:
        return f
    typ = leaf["_"]
    if typ in ("AttributeTerm", "AttributePrefix", "AttributeWildcard"):
        name = STR_FIELDS[typ]
        return text_feature(name, leaf[name], leaf, strong_only)
    if typ == "AttributeComparison":
        return cmp_feature("value", leaf["value"], strong_only)
    if typ == "AttributeRange":
        return cmp_feature("bound", leaf["lower"], strong_only) or cmp_feature("bound", leaf["upper"], strong_only)
    if typ == "MatchNoDocs":
        return "nested-in-compound"
    return None


def is_leaf(t):
    return "nodes" not in t and "node" not in t


def sig(typ, feature):
    # the attribute name is written by every node that carries a field; one signature for those,
    # separate ones for the two node types that have nothing but the attribute name
    if feature == "attr-needs-escaping" and typ not in ("AttributeExists", "AttributeMissing"):
        typ = "FieldedNode"
    return "%s:%s" % (typ, feature)


def first_suspicious_leaf(t1, strong_only=False):
    for strong in ((True,) if strong_only else (True, False)):
        for leaf in ddtree.leaves(t1):
            f = leaf_feature(leaf, strong)
            if f:
                return sig(leaf["_"], f)
    return None


def classify(t1, t2, parent=None):
    """-> 'NodeType:feature' for the first structural difference between t1 and t2 (t2 may be
    None when the rendering did not parse at all)."""
    typ = t1["_"]
    if t2 is None:
        return first_suspicious_leaf(t1, strong_only=True) or "%s:rendering-unparseable" % typ
    if typ == t2["_"]:
        if typ == "Boolean":
            if t1["oper"] != t2["oper"]:
                return "Boolean:operator-changed"
            for c1, c2 in zip(t1["nodes"], t2["nodes"]):
                if c1 != c2:
                    return classify(c1, c2, t1)
            return "Boolean:child-count-changed"
        if typ == "NegatedNode":
            return classify(t1["node"], t2["node"], t1)
        # same leaf type: first differing field
        if t1.get("attr") != t2.get("attr"):
            return sig(typ, attr_feature(t1) or "attr-other")
        for k in t1:
            if k == "_" or t1[k] == t2.get(k):
                continue
            v = t1[k]
            if isinstance(v, tuple):
                kind = "value" if typ == "AttributeComparison" else "bound"
                return sig(typ, cmp_feature(kind, v) or "%s-other" % kind)
            if isinstance(v, str):
                return sig(typ, text_feature(k, v, t1) or "%s-other" % k)
            return sig(typ, "%s-changed" % k)
        return sig(typ, "unknown-difference")
    # node types differ
    if is_leaf(t1):
        return sig(typ, leaf_feature(t1) or "becomes-" + t2["_"])
    if typ == "NegatedNode" and parent is not None and parent["_"] == "NegatedNode":
        return "NegatedNode:double-negation-in-boolean"
    return first_suspicious_leaf(t1) or "%s:becomes-%s" % (typ, t2["_"])


# ---------------------------------------------------------------------------------------------
# judging / shrinking

def status(out):
    """'rejected' | 'panic' | 'ok' | 'fail'"""
    if "panic" in out:
        return "panic"
    if out.get("rejected"):
        return "rejected"
    if out.get("equal"):
        return "ok"
    if "tree2" in out and out["tree2"] == out["tree"]:
        return "ok"
    return "fail"


def dd(ctx, queries):
    return ctx.call({"op": "dd", "queries": queries})["outs"]


def out_sig(out):
    t1 = ddtree.parse(out["tree"])
    t2 = ddtree.parse(out["tree2"]) if "tree2" in out else None
    return classify(t1, t2)


def is_generic(sig):
    f = sig.split(":", 1)[1]
    return (f.startswith("becomes-") or f.endswith("-other") or f.endswith("-changed")
            or f in ("rendering-unparseable", "unknown-difference"))


def shrink(ctx, q, out, want, keep=None):
    """Delete characters while the query keeps status `want` (and, if given, the signature
    `keep`). Returns (query, out)."""
    chunk = max(1, len(q) // 2)
    rounds = 0
    while chunk >= 1 and rounds < 400:
        rounds += 1
        cands = []
        seen = set()
        for i in range(0, len(q) - chunk + 1):
            c = q[:i] + q[i + chunk:]
            if c and c not in seen:
                seen.add(c)
                cands.append(c)
        hit = None
        if cands:
            for c, o in zip(cands, dd(ctx, cands)):
                if status(o) == want and (keep is None or out_sig(o) == keep):
                    hit = (c, o)
                    break
        if hit:
            q, out = hit
            chunk = min(chunk, max(1, len(q) // 2))
        else:
            chunk = chunk // 2 if chunk > 3 else chunk - 1
    # final passes: every substring deletion (longest first) of the now short text
    for _ in range(20):
        if len(q) > 60:
            break
        cands = []
        seen = set()
        for ln in range(min(len(q) - 1, 24), 1, -1):
            for i in range(0, len(q) - ln + 1):
                c = q[:i] + q[i + ln:]
                if c not in seen:
                    seen.add(c)
                    cands.append(c)
        hit = None
        if cands:
            for c, o in zip(cands, dd(ctx, cands)):
                if status(o) == want and (keep is None or out_sig(o) == keep):
                    hit = (c, o)
                    break
        if not hit:
            break
        q, out = hit
    return q, out


def esc_class(ch):
    if ch in " \t\r\n":
        return "space"
    if ch.isalnum():
        return "alnum"
    if ch in "()":
        return "paren"
    if ch in "[]{}":
        return "bracket"
    if ch in "*?":
        return "wild"
    if ch in "+-=<>!":
        return "op"
    if ch == ":":
        return "colon"
    if ch == '"':
        return "quote"
    if ch == "\\":
        return "backslash"
    return "other"


def escape_classes(q):
    out = set()
    i = 0
    while i < len(q) - 1:
        if q[i] == "\\":
            out.add(esc_class(q[i + 1]))
            i += 2
        else:
            i += 1
    return sorted(out)


def panic_sig(p):
    loc = p.get("loc", "?").rsplit(":", 1)[0]
    if loc.startswith("/repo/"):
        loc = loc[len("/repo/"):]
    return "dd:panic@" + loc


def gen_case(ctx, rng):
    return {"queries": [gq.gen_any(rng) for _ in range(BATCH)]}


def run_case(ctx, case):
    queries = case["queries"]
    outs = dd(ctx, queries)
    for q, out in zip(queries, outs):
        st = status(out)
        if st == "rejected":
            ctx.skip("rejected_by_parser")
            continue
        if st == "panic":
            mq, mo = shrink(ctx, q, out, "panic")
            ctx.violation(panic_sig(mo["panic"]), {"query": mq, "original": q, "panic": mo["panic"]},
                          case={"queries": [mq]})
            continue
        if st == "ok":
            t1 = ddtree.parse(out["tree"])
            types = ddtree.node_types(t1)
            tkey = sorted(set(types))
            ecl = escape_classes(q)
            nontrivial = len(types) > 1 or bool(ecl) or types[0] not in ("AttributeTerm", "MatchAllDocs")
            ctx.ok((tkey, ecl), nontrivial, sample={"query": q, "lucene": out["lucene"], "tree": out["tree"][:300]})
            continue
        # keep the defect class of the original while minimising, so that a rarer defect is not
        # turned into a more common one by the deletions; unspecific classes are minimised freely
        sig0 = out_sig(out)
        mq, mo = shrink(ctx, q, out, "fail", None if is_generic(sig0) else sig0)
        sig = out_sig(mo)
        if is_generic(sig) and not is_generic(sig0):
            sig = sig0
        fine = sig
        if ":" in sig and "panic@" not in sig:
            # <node type>:<feature> -> <feature>: the renderer has one escaping routine per feature
            sig = "render:" + sig.split(":", 1)[1]
        ctx.violation(sig, {"fine_signature": fine, "query": mq, "tree": mo["tree"], "rendered": mo["lucene"],
                            "reparsed": mo.get("tree2"), "reparse_error": mo.get("reparse_error"),
                            "original_query": q}, case={"queries": [mq]})
