"""C31 — `match_datadog_query` follows the Datadog search semantics.

Monitor: one VRL program per query set, `[match_datadog_query(., "q1"), ...]` (queries are
literals), run over a batch of events.  Oracle A: every composite query's result equals the
boolean formula over the results of its operands on the same event (NOT, AND in three spellings,
OR in two, grouping, De Morgan pairs, double negation, a range against its two one-sided
comparisons).  Oracle B (`model/ddquery.py`): leaf results against a reference evaluator for
the leaf kinds that the search-syntax documentation fixes (attribute/tag existence, exact term
on attributes/tags/reserved fields, numeric comparison and numeric range on numeric attributes,
prefix, `*` glob, default-field word match on lowercase word text); everything else is judged
by A only.
"""
from ..wire import enc, dec
from ..gen.lit import str_lit
from ..model import ddquery as ref

ID = "C31"
LEVEL = "exploration"
BUDGET = {"quick": 20, "thorough": 240}
FLOOR = {"quick": 60, "thorough": 120}
RULE = ("query sets = 5 leaf queries (exists/missing, term, phrase, prefix, glob, comparison, range, "
        "default-field word, match-all) over fields {@a, @b.c, @n, tags env/k/team, host/service/"
        "status/source, default} + ~30 composites built from them; events = objects whose attributes, "
        "tags, reserved fields and message come from a small vocabulary (strings incl. spaces/newline/"
        "non-ASCII, ints, floats, arrays, null, absent). One evaluation = one (query, event) pair "
        "judged. Non-trivial: at least one addressed field is present in the event. Distinct by "
        "(composite label or leaf kind, field kinds, event value kinds, result).")
ASSUMPTIONS = ["queries are validated with the real parser first (op dd); a set containing a rejected "
               "query is skipped",
               "implicit AND between two bare default-field words is not judged (the parser joins them "
               "into one multi-word term by design)",
               "null attribute values, `?` wildcards, string-bounded comparisons, arrays, and the "
               "value of tag comparisons are judged by oracle A only"]

NEVENTS = 32
STR_VOCAB = [b"x", b"y", b"foo", b"foobar", b"bar", b"Foo", b"x y", b"x\ny", b"", b"5", b"10", b"web-1",
             "é".encode(), b"foo bar", b"barfoo", b"xzy"]
INT_VOCAB = [-5, 0, 1, 5, 7, 10, 100]
FLOAT_VOCAB = [0.5, 1.5, 5.0, 7.25, -2.5, 100.0]
TAG_KEYS = ["env", "k", "team"]
TAG_VALS = ["x", "y", "foo", "foobar", "bar", "5", "10", "web-1", "a", "z"]
RESERVED = ["host", "service", "status", "source"]
MSG_WORDS = ["foo", "bar", "error", "this", "that", "x"]
ATTRS = [["a"], ["b", "c"], ["n"]]


# ---------------------------------------------------------------------------------------------
# events

def gen_attr_value(rng, numeric_bias=False):
    r = rng.random()
    if numeric_bias:
        r = r * 0.6 + 0.3
    if r < 0.40:
        return rng.choice(STR_VOCAB)
    if r < 0.62:
        return rng.choice(INT_VOCAB)
    if r < 0.80:
        return rng.choice(FLOAT_VOCAB)
    if r < 0.88:
        return rng.choice([[b"x", b"y"], [1, 7], [], [b"foo"]])
    if r < 0.94:
        return None
    return rng.choice([True, {"z": 1}])


def gen_event(rng):
    ev = {}
    if rng.random() < 0.75:
        ev["a"] = gen_attr_value(rng)
    if rng.random() < 0.6:
        ev["b"] = {"c": gen_attr_value(rng)} if rng.random() < 0.85 else rng.choice([b"x", {}, 5])
    if rng.random() < 0.75:
        ev["n"] = gen_attr_value(rng, numeric_bias=True)
    if rng.random() < 0.8:
        tags = []
        for _ in range(rng.randint(0, 3)):
            k = rng.choice(TAG_KEYS)
            tags.append((k if rng.random() < 0.1 else "%s:%s" % (k, rng.choice(TAG_VALS))).encode())
        ev["tags"] = tags
    for f in RESERVED:
        if rng.random() < 0.4:
            ev[f] = rng.choice(STR_VOCAB)
    if rng.random() < 0.7:
        ev["message"] = " ".join(rng.choice(MSG_WORDS) for _ in range(rng.randint(0, 4))).encode()
    if rng.random() < 0.15:
        ev["custom"] = {"title": " ".join(rng.choice(MSG_WORDS) for _ in range(rng.randint(1, 2))).encode()}
    return ev


# ---------------------------------------------------------------------------------------------
# leaf queries

def field_text(f):
    if f[0] == "attr":
        return "@" + ".".join(f[1])
    return f[1]


def gen_field(rng):
    r = rng.random()
    if r < 0.55:
        return ["attr", rng.choice(ATTRS)]
    if r < 0.85:
        return ["tag", rng.choice(TAG_KEYS)]
    return ["res", rng.choice(RESERVED)]


def term_text(rng, f):
    if f[0] == "tag":
        return rng.choice(TAG_VALS)
    r = rng.random()
    if r < 0.6:
        return rng.choice(["x", "y", "foo", "foobar", "bar", "Foo", "web-1", "é", "barfoo"])
    return rng.choice(["5", "10", "0", "7", "100", "-5"]).replace("-", "\\-")


def num_text(rng):
    r = rng.random()
    if r < 0.5:
        n = rng.choice(INT_VOCAB + [3, 6, 50])
        return str(n), n
    if r < 0.85:
        n = rng.choice(FLOAT_VOCAB + [4.5, 6.0, 0.25])
        return repr(n), n
    t, n = rng.choice([("1E1", 10.0), ("5E-1", 0.5), ("1.5E2", 150.0), ("1E0", 1.0)])
    return t, n


def gen_leaf(rng):
    """-> {"q": text, "d": descriptor or None, "kind": label, "fk": field kind, "f": FIELD or None}"""
    r = rng.random()
    if r < 0.12:
        f = gen_field(rng)
        k = rng.choice(["exists", "missing"])
        return {"q": "_%s_:%s" % (k, field_text(f)), "d": {"k": k, "f": f}, "kind": k, "f": f}
    if r < 0.32:
        f = gen_field(rng)
        t = term_text(rng, f)
        return {"q": "%s:%s" % (field_text(f), t), "d": {"k": "term", "f": f, "v": t.replace("\\", "")},
                "kind": "term", "f": f}
    if r < 0.40:
        f = gen_field(rng)
        t = rng.choice(["x y", "foo bar", "x", "foo", "web-1"])
        return {"q": '%s:"%s"' % (field_text(f), t), "d": {"k": "phrase", "f": f, "v": t}, "kind": "phrase", "f": f}
    if r < 0.48:
        f = gen_field(rng)
        t = rng.choice(["foo", "x", "ba", "web", "f", "é"])
        return {"q": "%s:%s*" % (field_text(f), t), "d": {"k": "prefix", "f": f, "v": t}, "kind": "prefix", "f": f}
    if r < 0.58:
        f = gen_field(rng)
        t = rng.choice(["f*r", "*bar", "x*y", "*o*", "f*o*r", "*", "x?y", "fo?", "?", "*b?r"])
        return {"q": "%s:%s" % (field_text(f), t), "d": {"k": "wildcard", "f": f, "v": t},
                "kind": "wildcard_q" if "?" in t else "wildcard", "f": f}
    if r < 0.72:
        f = gen_field(rng) if rng.random() < 0.5 else ["attr", ["n"]]
        op = rng.choice([">", ">=", "<", "<="])
        if rng.random() < 0.8:
            t, n = num_text(rng)
            t = t.replace("-", "\\-") if rng.random() < 0.3 else t
        else:
            t, n = rng.choice(["foo", "a", "x", "m"]), None
        return {"q": "%s:%s%s" % (field_text(f), op, t), "d": {"k": "cmp", "op": op, "f": f, "n": n},
                "kind": "cmp" if n is not None else "cmp_str", "f": f}
    if r < 0.80:
        w = rng.choice(MSG_WORDS + ["nothing"])
        return {"q": w, "d": {"k": "default_term", "v": w}, "kind": "default_term", "f": None}
    if r < 0.86:
        q = rng.choice(['"foo bar"', "fo*", "*ar", '"this"', "message:foo", "err*r"])
        return {"q": q, "d": None, "kind": "default_other", "f": None}
    if r < 0.90:
        return {"q": rng.choice(["*:*", "*"]), "d": {"k": "all"}, "kind": "all", "f": None}
    return None   # range: generated as a triple by gen_range


def gen_range(rng):
    """-> (range leaf, lower-bound leaf or None, upper-bound leaf or None, label)"""
    f = gen_field(rng) if rng.random() < 0.4 else ["attr", ["n"]]
    ft = field_text(f)
    numeric = rng.random() < 0.8
    if numeric:
        (lt, ln), (ut, un) = num_text(rng), num_text(rng)
    else:
        (lt, ln), (ut, un) = (rng.choice(["a", "bar", "foo"]), None), (rng.choice(["foo", "y", "z"]), None)
    shape = rng.choice(["closed", "closed", "open_lower", "open_upper", "both_open"])
    incl = rng.random() < 0.5
    lb, ub = ("[", "]") if incl else ("{", "}")
    lo_t = "*" if shape in ("open_lower", "both_open") else lt
    hi_t = "*" if shape in ("open_upper", "both_open") else ut
    d = None
    if numeric:
        d = {"k": "range", "f": f, "li": incl, "ui": incl,
             "lo": None if lo_t == "*" else ln, "hi": None if hi_t == "*" else un}
    rng_leaf = {"q": "%s:%s%s TO %s%s" % (ft, lb, lo_t, hi_t, ub), "d": d, "kind": "range", "f": f}
    lo_leaf = hi_leaf = None
    if lo_t != "*":
        op = ">=" if incl else ">"
        lo_leaf = {"q": "%s:%s%s" % (ft, op, lt), "kind": "cmp" if numeric else "cmp_str", "f": f,
                   "d": {"k": "cmp", "op": op, "f": f, "n": ln}}
    if hi_t != "*":
        op = "<=" if incl else "<"
        hi_leaf = {"q": "%s:%s%s" % (ft, op, ut), "kind": "cmp" if numeric else "cmp_str", "f": f,
                   "d": {"k": "cmp", "op": op, "f": f, "n": un}}
    label = "range_vs_bounds:%s%s" % ("inclusive" if incl else "exclusive", "" if shape == "closed" else ":" + shape)
    return rng_leaf, lo_leaf, hi_leaf, label


def is_bare_word(leaf):
    return leaf["kind"] == "default_term"


# ---------------------------------------------------------------------------------------------
# case construction: queries = [{"q", "f": formula, "label", "d"?, "leaves": [leaf idx...]}]
# formula: int (index of another query's result) | ["not", F] | ["and", F...] | ["or", F...] | None (leaf)

def gen_case(ctx, rng):
    qs = []

    def add_leaf(leaf):
        qs.append({"q": leaf["q"], "f": None, "label": "leaf:" + leaf["kind"], "d": leaf["d"],
                   "fld": leaf["f"], "leaves": [len(qs)]})
        return len(qs) - 1

    def add(q, formula, label, parts):
        leaves = sorted(set(x for p in parts for x in qs[p]["leaves"]))
        qs.append({"q": q, "f": formula, "label": "compose:" + label, "d": None, "fld": None, "leaves": leaves})
        return len(qs) - 1

    base = []
    while len(base) < 4:
        leaf = gen_leaf(rng)
        if leaf is not None:
            base.append(add_leaf(leaf))
    # ranges against their bounds
    for _ in range(2):
        r, lo, hi, label = gen_range(rng)
        ri = add_leaf(r)
        parts = [add_leaf(x) for x in (lo, hi) if x is not None]
        if parts:
            qs.append({"q": r["q"], "f": ["and"] + parts, "label": "compose:" + label, "d": None, "fld": None,
                       "leaves": [ri] + parts, "same_as": ri})
        base.append(ri)
    t = lambda i: qs[i]["q"]
    # negations
    for i in rng.sample(base, 3):
        form = rng.choice(["NOT %s", "-%s", "NOT (%s)", "-(%s)"])
        add(form % t(i), ["not", i], "NOT" if form.startswith("NOT") else "NOT:dash", [i])
    # binary
    for _ in range(6):
        i, j = rng.sample(base, 2)
        kind = rng.choice(["AND", "AND:&&", "AND:implicit", "OR", "OR:||", "AND:grouped", "OR:grouped"])
        if kind == "AND:implicit" and is_bare_word_q(qs, i) and is_bare_word_q(qs, j):
            kind = "AND"
        text = {"AND": "%s AND %s", "AND:&&": "%s && %s", "AND:implicit": "%s %s", "OR": "%s OR %s",
                "OR:||": "%s || %s", "AND:grouped": "(%s) AND (%s)", "OR:grouped": "(%s) OR (%s)"}[kind]
        add(text % (t(i), t(j)), ["and" if kind.startswith("AND") else "or", i, j], kind, [i, j])
    # De Morgan pairs, double negation, mixed nesting
    for _ in range(2):
        i, j = rng.sample(base, 2)
        add("NOT (%s AND %s)" % (t(i), t(j)), ["not", ["and", i, j]], "demorgan:not_and", [i, j])
        add("(NOT %s) OR (NOT %s)" % (t(i), t(j)), ["or", ["not", i], ["not", j]], "demorgan:or_of_nots", [i, j])
        add("-(%s OR %s)" % (t(i), t(j)), ["not", ["or", i, j]], "demorgan:not_or", [i, j])
        add("-%s AND -%s" % (t(i), t(j)), ["and", ["not", i], ["not", j]], "demorgan:and_of_nots", [i, j])
    i = rng.choice(base)
    add("NOT (NOT %s)" % t(i), i, "double_negation", [i])
    i = rng.choice(base)
    add("-(-%s)" % t(i), i, "double_negation", [i])
    for _ in range(3):
        i, j, k = rng.sample(base, 3)
        shape = rng.choice(["a_and_(b_or_c)", "(a_or_b)_and_not_c", "a_or_(b_and_c)", "and3", "or3", "not_in_or"])
        if shape == "a_and_(b_or_c)":
            add("%s AND (%s OR %s)" % (t(i), t(j), t(k)), ["and", i, ["or", j, k]], "nested:" + shape, [i, j, k])
        elif shape == "(a_or_b)_and_not_c":
            add("(%s OR %s) AND NOT %s" % (t(i), t(j), t(k)), ["and", ["or", i, j], ["not", k]], "nested:" + shape, [i, j, k])
        elif shape == "a_or_(b_and_c)":
            add("%s OR (%s AND %s)" % (t(i), t(j), t(k)), ["or", i, ["and", j, k]], "nested:" + shape, [i, j, k])
        elif shape == "and3":
            add("%s AND %s AND %s" % (t(i), t(j), t(k)), ["and", i, j, k], "nested:" + shape, [i, j, k])
        elif shape == "or3":
            add("%s OR %s OR %s" % (t(i), t(j), t(k)), ["or", i, j, k], "nested:" + shape, [i, j, k])
        else:
            add("%s OR -(%s AND %s)" % (t(i), t(j), t(k)), ["or", i, ["not", ["and", j, k]]], "nested:" + shape, [i, j, k])
    events = [enc(gen_event(rng)) for _ in range(NEVENTS)]
    return {"queries": qs, "events": events}


def is_bare_word_q(qs, i):
    return qs[i]["label"] == "leaf:default_term"


# ---------------------------------------------------------------------------------------------
# judging

def ev_formula(f, res):
    if isinstance(f, int):
        return res[f]
    op = f[0]
    if op == "not":
        return not ev_formula(f[1], res)
    if op == "and":
        return all(ev_formula(x, res) for x in f[1:])
    return any(ev_formula(x, res) for x in f[1:])


def formula_refs(f, out):
    if isinstance(f, int):
        out.add(f)
    elif isinstance(f, list):
        for x in f[1:]:
            formula_refs(x, out)
    return out


def remap(f, m):
    if isinstance(f, int):
        return m[f]
    return [f[0]] + [remap(x, m) for x in f[1:]]


def sub_case(case, qi, event):
    """Minimal case: query qi, the queries its formula refers to, one event."""
    qs = case["queries"]
    need = sorted(formula_refs(qs[qi]["f"], set()) | {qi} | ({qs[qi]["same_as"]} if "same_as" in qs[qi] else set()))
    m = {old: new for new, old in enumerate(need)}
    out = []
    for old in need:
        q = dict(qs[old])
        if q["f"] is not None:
            q["f"] = remap(q["f"], m)
        q["leaves"] = [m[x] for x in q["leaves"] if x in m]
        if "same_as" in q:
            q["same_as"] = m[q["same_as"]]
        out.append(q)
    return {"queries": out, "events": [event]}


def value_class(desc, ev):
    if desc is None:
        return "?"
    if desc["k"] == "default_term" or desc["k"] == "all":
        return ref.vkind(ref.lookup(ev, ["message"]))
    return ref.field_kind(ev, desc["f"])


def run_case(ctx, case):
    qs = case["queries"]
    texts = []
    seen = {}
    slot = []
    for q in qs:            # identical texts are evaluated once
        if q["q"] not in seen:
            seen[q["q"]] = len(texts)
            texts.append(q["q"])
        slot.append(seen[q["q"]])
    outs = ctx.call({"op": "dd", "queries": texts})["outs"]
    if any("panic" in o or o.get("rejected") for o in outs):
        for o in outs:
            if "panic" in o:
                ctx.violation("ddq:panic@" + o["panic"]["loc"].rsplit(":", 1)[0].replace("/repo/", ""),
                              {"panic": o["panic"]})
                return
        ctx.skip("query_rejected_by_parser")
        return
    src = "[" + ",\n ".join("match_datadog_query(., %s)" % str_lit(t.encode()) for t in texts) + "]"
    resp = ctx.call({"op": "run", "src": src, "probe": False, "events": [{"e": e} for e in case["events"]]})
    if "panic" in resp:
        ctx.violation("ddq:panic@" + resp["panic"]["loc"].rsplit(":", 1)[0].replace("/repo/", ""),
                      {"panic": resp["panic"], "src": src})
        return
    if not resp.get("compiled"):
        ctx.skip("program_rejected")
        ctx.note("rejected_program", (src[:300], str(resp.get("diags"))[:300]))
        return
    for enc_ev, run in zip(case["events"], resp["runs"]):
        ev = dec(enc_ev)
        if "panic" in run:
            ctx.violation("ddq:panic@" + run["panic"]["loc"].rsplit(":", 1)[0].replace("/repo/", ""),
                          {"panic": run["panic"], "event": repr(ev), "src": src},
                          case={"queries": qs, "events": [enc_ev]})
            continue
        if "ok" not in run.get("out", {}):
            ctx.violation("ddq:call_failed", {"out": run.get("out"), "event": repr(ev)},
                          case={"queries": qs, "events": [enc_ev]})
            continue
        flat = dec(run["out"]["ok"])
        res = [flat[s] for s in slot]
        # kinds of the event values addressed by each leaf
        vks = {}
        for i, q in enumerate(qs):
            if q["f"] is None:
                vks[i] = value_class(q["d"], ev)
        for i, q in enumerate(qs):
            got = res[i]
            if q["f"] is None:
                d = q["d"]
                exp = ref.evaluate(d, ev) if d is not None else None
                if exp is None:
                    ctx.count("leaf_not_judged_by_B")
                    continue
                vk = vks[i]
                fk = d["f"][0] if "f" in d else "default"
                if got is not exp:
                    kind = {"attr": "attribute", "tag": "tag", "res": "reserved", "default": "default"}[fk]
                    if d["k"] == "wildcard" and vk == "str_nl":
                        # whether `*` crosses a line break is not defined by the search syntax
                        # documentation: not judged (oracle B only covers unambiguous cases)
                        ctx.count("leaf_not_judged_by_B")
                        ctx.skip("wildcard_vs_newline_not_defined")
                        continue
                    elif fk == "tag" and d["k"] in ("cmp", "range") and vk == "absent":
                        sig = "leaf:tag_comparison:key_ignored"
                    else:
                        sig = "leaf:%s_%s:%s" % (kind, d["k"], vk)
                    ctx.violation(sig, {"query": q["q"], "event": repr(ev), "expected": exp, "got": got,
                                        "addressed_value": repr(None if "f" not in d else _show(ref.field_value(ev, d["f"])))},
                                  case=sub_case(case, i, enc_ev))
                    continue
                ctx.ok("%s|%s|%s|%s" % (q["label"], fk, vk, got), vk != "absent",
                       sample={"query": q["q"], "event": repr(ev), "result": got})
                continue
            exp = ev_formula(q["f"], res)
            if got is not exp:
                refs = sorted(formula_refs(q["f"], set()))
                ctx.violation(q["label"], {"query": q["q"], "event": repr(ev), "got": got, "expected": exp,
                                           "operands": {qs[r]["q"]: res[r] for r in refs}},
                              case=sub_case(case, i, enc_ev))
                continue
            lv = q["leaves"]
            fks = sorted(set(_fk(qs[x]) for x in lv))
            vals = sorted(set(VK_CLASS.get(vks.get(x, "?"), "other") for x in lv))
            ctx.ok("%s|%s|%s|%s" % (q["label"], ",".join(fks), ",".join(vals), got),
                   any(v != "absent" for v in vals),
                   sample={"query": q["q"], "event": repr(ev), "result": got})


VK_CLASS = {"absent": "absent", "str": "str", "str_nl": "str", "int": "num", "float": "num", "tags": "tags"}


def _fk(q):
    return q["fld"][0] if q.get("fld") else "default"


def _show(v):
    return "<absent>" if v is ref.ABSENT else v
