"""C32 — grok rules match and capture faithfully (through `parse_groks`).

Monitor: rules are assembled from literal text (regex metacharacters escaped with a backslash),
a few portable raw-regex fragments and `%{matcher[:field[:filter]]}` patterns, optionally through
aliases; `model/grokref.py` builds the corresponding anchored pattern from its own matcher table
and evaluates it with Python `re`.  Judged: parse_groks matches iff the reference matches;
a literal-only rule matches exactly its own text; every captured field equals the reference's
group text after the declared filter; alias cycles reachable from the rule are rejected
(no hang, no crash), diamonds are accepted.
"""
from ..wire import enc, dec, veq
from ..gen.lit import str_lit
from ..model import grokref as gr

ID = "C32"
LEVEL = "exploration"
BUDGET = {"quick": 20, "thorough": 240}
FLOOR = {"quick": 40, "thorough": 100}
RULE = ("rules of 1-6 elements over {escaped literal text, raw regex fragments, word, notSpace, integer, "
        "number, data, greedyData, quotedString, doubleQuotedString, singleQuotedString, uuid, ipv4, "
        "regex(\"...\")} x filters {lowercase, uppercase, integer, number, scale, nullIf, boolean}, "
        "sometimes through aliases (nesting, diamonds) or as 2-rule lists; alias-cycle shapes self/2/3/"
        "via-used-alias. Inputs per rule: instantiations, single-character mutations, prefix/suffix "
        "extensions, newlines, non-ASCII. One evaluation = one (rule, input) pair judged. Non-trivial: "
        "the rule has a matcher or an escaped metacharacter. Distinct by (matcher set, filter set, "
        "metacharacter class, match/no-match).")
ASSUMPTIONS = ["Python `re` (DOTALL, \\A..\\Z) is the reference regex engine; constructs whose meaning differs "
               "between engines (unicode classes, possessive/atomic groups, ^ $) are not generated",
               "matcher meanings come from the Datadog parsing documentation; where it is silent the "
               "matcher has several variants and an input is judged only if all variants agree",
               "empty captures, filters applied to already-typed values, case mapping of non-ASCII text and "
               "numeric filters on non-numeric text are not judged"]

NINPUTS = 14
LIT_PLAIN = list("abcXYZ019") + [" ", " ", ",", ";", "=", "-", "_", "/", ":", '"', "'", "<", ">", "@", "!", "&",
                                   "~", "#", "%", "é", "日"]
LIT_META = list("\\.[](){}*+?|^$")
RAW = [(" +", [" ", "   "]), ("[ ]?", ["", " "]), ("(?:ab|cd)", ["ab", "cd"]), ("x*", ["", "xxx"]),
       ("[0-9]+", ["7", "123"]), (".", ["q", "\n"]), (".{2}", ["ab", "a\n"]), ("[^,]*", ["", "ab c"]),
       ("(?:-|_)", ["-", "_"]), ("a?", ["", "a"])]
REGEX_ARGS = [("[a-z]+", ["abc", "q"]), ("[0-9]{2,4}", ["12", "1234"]), ("[A-Za-z0-9_-]+", ["a-b_1", "Z"]),
              ("(?:a|bc)", ["a", "bc"]), ("[^,]*", ["", "x y"]), ("x?y", ["y", "xy"]), (".+?", ["a", "ab"]),
              ("[.]", ["."]), ("(?:ab)+", ["abab", "ab"]), (".*", ["", "any\nthing"]),
              # top-level alternation: the matcher must stay one atom inside the rule
              ("a|bc", ["a", "bc"]), ("GET|POST", ["GET", "POST"]), ("x|", ["x", ""]), ("[0-9]+|-", ["42", "-"])]
INSTANCES = {
    "word": ["foo", "Bar_1", "x", "123abc", "_", "a1"],
    "notSpace": ["a/b", "x=1", "日本", "foo", "-", "[x]", "é1"],
    "integer": ["0", "42", "-7", "007", "+3", "9223372036854775807", "9223372036854775808", "12"],
    "number": ["1", "1.5", "-0.25", "3.", ".5", "+2.0", "10.00", "0"],
    "data": ["", "any thing", "x\ny", "a b", "q"],
    "greedyData": ["", "any thing", "x\ny", "tail, with; punct."],
    "doubleQuotedString": ['"hello"', '"a b"', '""', '"a\\"b"', '"it\'s"'],
    "singleQuotedString": ["'hello'", "'a b'", "''", "'a\\'b'"],
    "quotedString": ['"hello"', "'a b'", '""', "''", '"a\\"b"', '"x\ny"'],
    "uuid": ["123e4567-e89b-12d3-a456-426614174000", "ABCDEF01-2345-6789-abcd-ef0123456789",
             "123e4567-e89b-12d3-a456-42661417400"],
    "ipv4": ["1.2.3.4", "255.255.255.255", "256.1.1.1", "01.2.3.4", "192.168.0.1", "10.0.0", "1.2.3.04"],
}
MATCHER_NAMES = list(INSTANCES)
FILTER_INST = {"integer": ["42", "-7", "007", "abc", "+5"], "number": ["1.5", "3", "-0.25", "1e3", "x"],
               "boolean": ["true", "FALSE", "True", "no", "false"], "scale": ["2", "1.5", "-3", "abc", "0"],
               "lowercase": ["FooBar", "ABC", "x1"], "uppercase": ["FooBar", "abc", "x1"]}
MUT_ALPHA = list(" \n\t.:-+_/\\\"'a1Z,") + ["é", "0", "x", "]", "("]


# ---------------------------------------------------------------------------------------------
# generation

def gen_literal(rng, meta_p=0.35):
    n = rng.choice([1, 1, 2, 2, 3])
    return {"t": "lit", "s": "".join(rng.choice(LIT_META) if rng.random() < meta_p else rng.choice(LIT_PLAIN)
                                      for _ in range(n))}


def gen_filter(rng, matcher):
    if rng.random() < 0.5:
        return None
    if matcher in ("integer", "number"):
        return ["scale", rng.choice([10, 1000, 0.5, 0.001, 3])]
    r = rng.choice(["lowercase", "uppercase", "integer", "number", "scale", "nullIf", "boolean"])
    if r == "scale":
        return ["scale", rng.choice([10, 1000, 0.5, 2])]
    if r == "nullIf":
        return ["nullIf", rng.choice(["-", "null", "x", "N/A", "a b"])]
    return [r]


def gen_matcher(rng, fieldno):
    r = rng.random()
    if r < 0.18:
        src, _ = rng.choice(REGEX_ARGS)
        el = {"t": "m", "m": "regex", "arg": src, "field": None, "filter": None}
    else:
        el = {"t": "m", "m": rng.choice(MATCHER_NAMES), "arg": None, "field": None, "filter": None}
    if rng.random() < 0.7:
        el["field"] = rng.choice(["f%d", "f%d", "f%d", "o.k%d", "http.status%d"]) % fieldno[0]
        fieldno[0] += 1
        el["filter"] = gen_filter(rng, el["m"])
        if el["filter"] and el["filter"][0] in ("integer", "number", "scale", "boolean") and rng.random() < 0.6 \
                and el["m"] not in ("integer", "number"):
            el["m"], el["arg"] = rng.choice([("notSpace", None), ("word", None), ("regex", "[^,]*"), ("data", None)])
    return el


def gen_elements(rng, fieldno, alias_names=(), n=None):
    n = n or rng.choice([1, 2, 2, 3, 3, 4, 5, 6])
    els = []
    prev_matcher = False
    for _ in range(n):
        r = rng.random()
        if prev_matcher and r < 0.85:
            els.append(gen_literal(rng))
            prev_matcher = False
        elif r < 0.30:
            els.append(gen_literal(rng))
            prev_matcher = False
        elif r < 0.38:
            src, _ = rng.choice(RAW)
            els.append({"t": "raw", "s": src})
            prev_matcher = False
        elif r < 0.48 and alias_names:
            el = {"t": "alias", "name": rng.choice(alias_names), "field": None}
            if rng.random() < 0.3:
                el["field"] = "f%d" % fieldno[0]
                fieldno[0] += 1
            els.append(el)
            prev_matcher = True
        else:
            els.append(gen_matcher(rng, fieldno))
            prev_matcher = True
    return els


def instance(rng, el, aliases):
    t = el["t"]
    if t == "lit":
        return el["s"]
    if t == "raw":
        return rng.choice(dict(RAW)[el["s"]])
    if t == "alias":
        return "".join(instance(rng, e, aliases) for e in aliases[el["name"]])
    flt = el.get("filter")
    if flt and rng.random() < 0.7:
        if flt[0] == "nullIf":
            return rng.choice([flt[1], flt[1], "other", flt[1] + "x"])
        return rng.choice(FILTER_INST[flt[0]])
    if el["m"] == "regex":
        return rng.choice(dict(REGEX_ARGS)[el["arg"]])
    return rng.choice(INSTANCES[el["m"]])


def mutate_input(rng, s):
    r = rng.random()
    i = rng.randrange(len(s) + 1)
    if r < 0.25 and s:
        i = min(i, len(s) - 1)
        return s[:i] + s[i + 1:]
    if r < 0.50:
        return s[:i] + rng.choice(MUT_ALPHA) + s[i:]
    if r < 0.70 and s:
        i = min(i, len(s) - 1)
        return s[:i] + rng.choice(MUT_ALPHA) + s[i + 1:]
    if r < 0.80:
        return rng.choice(["x", " ", "\n", "0", "é"]) + s
    if r < 0.90:
        return s + rng.choice(["x", " ", "\n", "0", "é", "\r\n"])
    return s[:i] + "\n" + s[i:]


def gen_inputs(rng, patterns, aliases):
    out = []
    for k in range(NINPUTS):
        els = rng.choice(patterns)
        s = "".join(instance(rng, e, aliases) for e in els)
        if k % 3 == 1:
            s = mutate_input(rng, s)
        elif k % 3 == 2 and rng.random() < 0.5:
            s = mutate_input(rng, mutate_input(rng, s))
        out.append(s)
    if rng.random() < 0.3:
        out.append(rng.choice(["", " ", "\n", "x", "日本語"]))
    return out


def gen_aliases(rng, fieldno):
    """Acyclic alias set (later names may only refer to earlier ones)."""
    names = []
    aliases = {}
    for k in range(rng.randint(1, 3)):
        name = rng.choice(["al%d", "my_alias%d", "common.part%d"]) % k
        aliases[name] = gen_elements(rng, fieldno, tuple(names), n=rng.choice([1, 2, 3]))
        names.append(name)
    return names, aliases


CYCLE_SHAPES = ["self", "two", "three", "via_used_alias", "self_captured", "cycle_and_diamond"]


def gen_cycle(rng):
    shape = rng.choice(CYCLE_SHAPES)
    lit = lambda: gen_literal(rng, 0.0)
    m = lambda: {"t": "m", "m": rng.choice(["word", "integer", "notSpace"]), "arg": None, "field": None, "filter": None}
    ref = lambda n, f=None: {"t": "alias", "name": n, "field": f}
    if shape == "self":
        aliases = {"a": [m(), lit(), ref("a")]}
        rule = [lit(), ref("a")]
    elif shape == "self_captured":
        aliases = {"a": [m(), ref("a", "inner")]}
        rule = [ref("a", "f0"), lit()]
    elif shape == "two":
        aliases = {"a": [lit(), ref("b")], "b": [m(), ref("a")]}
        rule = [ref(rng.choice(["a", "b"]))]
    elif shape == "three":
        aliases = {"a": [ref("b"), lit()], "b": [lit(), ref("c")], "c": [m(), ref("a")]}
        rule = [m(), lit(), ref(rng.choice(["a", "b", "c"]))]
    elif shape == "via_used_alias":
        aliases = {"x": [lit(), ref("a")], "a": [m(), ref("b")], "b": [ref("a"), lit()], "ok": [m()]}
        rule = [ref("ok"), lit(), ref("x")]
    else:
        aliases = {"top": [ref("l"), lit(), ref("r")], "l": [ref("d")], "r": [ref("d")], "d": [m(), ref("top")]}
        rule = [ref("top")]
    return {"kind": "cycle", "shape": shape, "patterns": [rule], "aliases": aliases,
            "inputs": ["foo 1", "x", ""]}


def gen_diamond(rng):
    fieldno = [0]
    d = [gen_matcher(rng, [100])]
    d[0]["field"] = None
    d[0]["filter"] = None
    sep = gen_literal(rng, 0.2)
    aliases = {"d": d, "l": [{"t": "alias", "name": "d", "field": None}],
               "r": [sep, {"t": "alias", "name": "d", "field": None}],
               "top": [{"t": "alias", "name": "l", "field": None}, {"t": "alias", "name": "r", "field": None}]}
    shape = rng.choice(["diamond", "twice", "two_depths"])
    if shape == "diamond":
        rule = [{"t": "alias", "name": "top", "field": rng.choice([None, "f0"])}]
    elif shape == "twice":
        rule = [{"t": "alias", "name": "d", "field": "f0"}, gen_literal(rng, 0.2), {"t": "alias", "name": "d", "field": "f1"}]
    else:
        rule = [{"t": "alias", "name": "l", "field": None}, gen_literal(rng, 0.2), {"t": "alias", "name": "d", "field": "f0"}]
    used = {"d", "l", "r", "top"}
    case = {"kind": "diamond", "shape": shape, "patterns": [rule], "aliases": {k: aliases[k] for k in used}}
    case["inputs"] = gen_inputs(rng, case["patterns"], case["aliases"])
    return case


def gen_case(ctx, rng):
    r = rng.random()
    if r < 0.06:
        return gen_cycle(rng)
    if r < 0.12:
        return gen_diamond(rng)
    fieldno = [0]
    aliases = {}
    names = ()
    if r < 0.30:
        names, aliases = gen_aliases(rng, fieldno)
        names = tuple(names)
    if r > 0.88:
        # literal-only rule
        patterns = [[gen_literal(rng, 0.5) for _ in range(rng.randint(1, 3))]]
    else:
        patterns = [gen_elements(rng, fieldno, names)]
        if rng.random() < 0.12:
            patterns.append(gen_elements(rng, fieldno, names))
    used = set()
    collect_aliases(patterns, aliases, used)
    aliases = {k: v for k, v in aliases.items() if k in used}
    return {"kind": "match", "patterns": patterns, "aliases": aliases,
            "inputs": gen_inputs(rng, patterns, aliases)}


def collect_aliases(patterns, aliases, used):
    for els in patterns:
        for el in els:
            if el["t"] == "alias" and el["name"] not in used:
                used.add(el["name"])
                collect_aliases([aliases[el["name"]]], aliases, used)


# ---------------------------------------------------------------------------------------------
# execution / judging

def program(case):
    pats = ", ".join(str_lit(gr.rule_text(els).encode()) for els in case["patterns"])
    src = "r, e = parse_groks(.v, patterns: [%s]" % pats
    if case["aliases"]:
        src += ", aliases: {%s}" % ", ".join("%s: %s" % (str_lit(k.encode()), str_lit(gr.rule_text(v).encode()))
                                               for k, v in case["aliases"].items())
    return src + ")\n[r, e]"


def panic_sig(p):
    return "grok:panic@" + p.get("loc", "?").rsplit(":", 1)[0].replace("/repo/", "")


def get_path(obj, path):
    cur = obj
    for seg in path.split("."):
        if not isinstance(cur, dict) or seg not in cur:
            return False, None
        cur = cur[seg]
    return True, cur


def rule_features(case):
    """(matcher names, filter names, escaped metacharacters) reachable from the rules."""
    ms, fs, meta = set(), set(), set()

    def walk(els, depth=0):
        for el in els:
            if el["t"] == "lit":
                meta.update(c for c in el["s"] if c in gr.META)
            elif el["t"] == "raw":
                ms.add("rawregex")
            elif el["t"] == "alias":
                if depth < 6 and el["name"] in case["aliases"]:
                    walk(case["aliases"][el["name"]], depth + 1)
            else:
                ms.add(el["m"])
                if el.get("filter"):
                    fs.add(el["filter"][0])
    for els in case["patterns"]:
        walk(els)
    return ms, fs, meta


class Rejected(Exception):
    def __init__(self, resp):
        self.resp = resp


def evaluate(ctx, case, raws=None):
    """Run the rule (list) over case['inputs'] and judge every input against the reference.
    -> list of ("ok", matched) | ("skip", reason) | ("viol", kind, detail).  If `raws` is a list it
    receives per input ("match", obj) | ("nomatch",) | None (not usable)."""
    refs = [gr.Ref(els, case["aliases"]) for els in case["patterns"]]
    resp = ctx.call({"op": "run", "src": program(case), "probe": False,
                     "events": [{"e": enc({"v": s.encode()})} for s in case["inputs"]]}, cpu_limit=15.0)
    if "panic" in resp:
        return [("viol", ("panic", panic_sig(resp["panic"])), {"panic": resp["panic"]})] * max(1, len(case["inputs"]))
    if not resp.get("compiled"):
        raise Rejected(resp)
    out = []
    for s, run in zip(case["inputs"], resp["runs"]):
        if "panic" in run:
            out.append(("viol", ("panic", panic_sig(run["panic"])), {"panic": run["panic"], "input": s}))
            continue
        o = run.get("out", {})
        if "ok" not in o:
            out.append(("skip", "program_failed"))
            continue
        obj, err = dec(o["ok"])
        if err is not None and b"does not match any rule" not in err:
            out.append(("skip", "regex_engine_error"))
            continue
        got_match = err is None
        if raws is not None:
            while len(raws) < len(out):
                raws.append(None)
            raws.append(("match", obj) if got_match else ("nomatch",))
        exp = None
        for ref in refs:
            r = ref.match(s)
            if r is None:
                exp = "ambiguous"
                break
            if r[0]:
                exp = (ref, r[1])
                break
        if exp == "ambiguous":
            out.append(("skip", "reference_variants_disagree"))
            continue
        if exp is None:
            if got_match:
                out.append(("viol", ("expected_no_match",), {"input": s, "got": repr(obj)}))
            else:
                out.append(("ok", False))
            continue
        if not got_match:
            out.append(("viol", ("expected_match",), {"input": s, "reference_groups": exp[1]}))
            continue
        ref, groups = exp
        bad = None
        known = set()
        paths = [f[1] for f in ref.fields]
        for g, path, matcher, flt in ref.fields:
            known.add(path.split(".")[0])
            if paths.count(path) > 1:
                continue          # the same destination twice: values are merged into an array, not judged
            text = groups.get(g)
            want = gr.expected_value(matcher if matcher != "alias" else "data", flt, text)
            if want[0] == "nojudge":
                continue
            present, value = get_path(obj, path)
            if not gr.holds(want, present, value):
                bad = (("capture", matcher, flt[0] if flt else "none"),
                       {"input": s, "field": path, "captured_text": text, "expected": repr(want),
                        "got": repr(value) if present else "<absent>", "object": repr(obj)})
                break
        if bad is None and isinstance(obj, dict):
            extra = [k for k in obj if k not in known]
            if extra:
                bad = (("unexpected_field",), {"input": s, "extra": extra, "object": repr(obj)})
        if bad:
            out.append(("viol", bad[0], bad[1]))
        else:
            out.append(("ok", True))
    return out


def deletions(s, limit=160):
    out, seen = [], {s}
    for ln in range(len(s), 0, -1):
        for i in range(0, len(s) - ln + 1):
            c = s[:i] + s[i + ln:]
            if c not in seen:
                seen.add(c)
                out.append(c)
                if len(out) >= limit:
                    return out
    return out


def prune(case):
    used = set()
    collect_aliases(case["patterns"], case["aliases"], used)
    case["aliases"] = {k: v for k, v in case["aliases"].items() if k in used}
    return case


def first_same(ctx, cand, vkind):
    try:
        verdicts = evaluate(ctx, cand)
    except (Rejected, gr.Unsupported):
        return None
    for s, v in zip(cand["inputs"], verdicts):
        if v[0] == "viol" and v[1] == vkind:
            return s, v
    return None


def shrink(ctx, case, inp, verdict):
    """Remove rule elements / input characters while the same kind of violation persists."""
    vkind = verdict[1]
    cur = prune({"kind": "match", "patterns": [list(p) for p in case["patterns"]],
                 "aliases": dict(case["aliases"]), "inputs": [inp]})
    budget = 40
    progress = True
    while progress and budget > 0:
        progress = False
        # drop a whole rule, then single elements
        cands = []
        if len(cur["patterns"]) > 1:
            for pi in range(len(cur["patterns"])):
                cands.append([p for k, p in enumerate(cur["patterns"]) if k != pi])
        for pi, p in enumerate(cur["patterns"]):
            for i in range(len(p)):
                if len(p) > 1:
                    cands.append([q if k != pi else p[:i] + p[i + 1:] for k, q in enumerate(cur["patterns"])])
        # inline an alias reference without field
        for pi, p in enumerate(cur["patterns"]):
            for i, el in enumerate(p):
                if el["t"] == "alias" and not el.get("field"):
                    cands.append([q if k != pi else p[:i] + cur["aliases"][el["name"]] + p[i + 1:]
                                  for k, q in enumerate(cur["patterns"])])
        for pats in cands:
            if budget <= 0:
                break
            budget -= 1
            cand = prune({"kind": "match", "patterns": pats, "aliases": dict(cur["aliases"]),
                          "inputs": [cur["inputs"][0]] + deletions(cur["inputs"][0])})
            hit = first_same(ctx, cand, vkind)
            if hit:
                cand["inputs"] = [hit[0]]
                cur, verdict, progress = cand, hit[1], True
                break
        if not progress and budget > 0:
            budget -= 1
            cand = dict(cur, inputs=deletions(cur["inputs"][0]))
            hit = first_same(ctx, cand, vkind)
            if hit and len(hit[0]) < len(cur["inputs"][0]):
                cur = dict(cur, inputs=[hit[0]])
                verdict, progress = hit[1], True
    return cur, verdict


def blame(ctx, case):
    """Which library matcher is responsible?  Each matcher of the minimised rule (or of an alias it
    uses) is replaced in turn by `regex("<reference definition>")` - the same text, but passed
    through vrl's own regex matcher; the first replacement after which vrl and the reference
    agree on the input names the culprit."""
    places = [("p", 0, i) for i in range(len(case["patterns"][0]))]
    places += [("a", name, i) for name, els in case["aliases"].items() for i in range(len(els))]
    for where, key, i in places:
        els = case["patterns"][0] if where == "p" else case["aliases"][key]
        el = els[i]
        if el["t"] != "m" or el["m"] == "regex":
            continue
        for src in gr.MATCHERS[el["m"]]:
            sub = dict(el, m="regex", arg=src.replace("(?a:", "(?:"), filter=None)
            new_els = els[:i] + [sub] + els[i + 1:]
            cand = {"kind": "match", "patterns": [new_els] if where == "p" else case["patterns"],
                    "aliases": dict(case["aliases"], **({key: new_els} if where == "a" else {})),
                    "inputs": list(case["inputs"])}
            try:
                verdicts = evaluate(ctx, cand)
            except (Rejected, gr.Unsupported):
                continue
            if verdicts and verdicts[0][0] == "ok":
                return el["m"]
    return None


def signature(ctx, case, verdict):
    vkind = verdict[1]
    if vkind[0] == "panic":
        return vkind[1]
    culprit = blame(ctx, case) if len(case["patterns"]) == 1 else None
    if culprit:
        return "grok:matcher_semantics:%s" % culprit
    if vkind[0] == "capture":
        return "grok:capture:%s:%s" % (vkind[1], vkind[2])
    ms, fs, meta = rule_features(case)
    return "grok:%s:%s" % (vkind[0], "+".join(sorted(ms)) if ms else "literal")


def cov_key(case, matched):
    """(first two matchers in rule order, first filter, metacharacter class, matched)"""
    ms, fs, meta = rule_features(case)
    order = []
    flt = []

    def walk(els, depth=0):
        for el in els:
            if el["t"] == "m":
                order.append(el["m"])
                if el.get("filter"):
                    flt.append(el["filter"][0])
            elif el["t"] == "raw":
                order.append("rawregex")
            elif el["t"] == "alias" and depth < 6:
                walk(case["aliases"].get(el["name"], []), depth + 1)
    for p in case["patterns"]:
        walk(p)
    if not order:
        return "literal|%s|%s" % ("".join(sorted(meta)), matched)
    return "%s|%s|%s|%d|%s" % (order[0], order[1] if len(order) > 1 else "-", flt[0] if flt else "-",
                                 min(len(meta), 1), matched)


def run_cycle(ctx, case):
    resp = ctx.call({"op": "run", "src": program(case), "probe": False,
                     "events": [{"e": enc({"v": s.encode()})} for s in case["inputs"]]}, cpu_limit=10.0)
    if "panic" in resp:
        ctx.violation(panic_sig(resp["panic"]), {"panic": resp["panic"], "program": program(case)})
        return
    if not resp.get("compiled"):
        if "ircular" not in str(resp.get("diags")):
            ctx.skip("cycle_case_rejected_for_another_reason")
            ctx.note("cycle_other_rejection", str(resp.get("diags"))[:300])
            return
        ctx.ok("cycle|%s|rejected_at_compile" % case["shape"], True,
               sample={"program": program(case), "diag": str(resp.get("diags"))[:300]})
        return
    accepted = []
    for s, run in zip(case["inputs"], resp["runs"]):
        if "panic" in run:
            ctx.violation(panic_sig(run["panic"]), {"panic": run["panic"], "program": program(case)})
            return
        o = run.get("out", {})
        if "ok" in o:
            obj, err = dec(o["ok"])
            if err is None or b"ircular" not in err:
                accepted.append((s, repr(obj), repr(err)))
    if accepted:
        ctx.violation("grok:alias_cycle:accepted:%s" % case["shape"],
                      {"program": program(case), "runs": accepted[:3]})
    else:
        ctx.ok("cycle|%s|call_errors" % case["shape"], True)


def run_list(ctx, case):
    """A list of rules: every rule is judged on its own against the reference; the list itself is
    judged compositionally - its result must be the result of the first rule that (according to
    vrl itself) matches."""
    per_rule = []
    for p in case["patterns"]:
        single = prune(dict(case, patterns=[p], aliases=dict(case["aliases"])))
        raws = []
        run_single(ctx, single, raws)
        per_rule.append(raws)
    resp = ctx.call({"op": "run", "src": program(case), "probe": False,
                     "events": [{"e": enc({"v": s.encode()})} for s in case["inputs"]]}, cpu_limit=15.0)
    if "panic" in resp:
        ctx.violation(panic_sig(resp["panic"]), {"panic": resp["panic"], "program": program(case)})
        return
    if not resp.get("compiled"):
        if all(r for r in per_rule):
            ctx.violation("grok:rule_list:rejected_although_each_rule_accepted",
                          {"program": program(case), "diags": resp.get("diags")})
        return
    for k, (s, run) in enumerate(zip(case["inputs"], resp["runs"])):
        if "panic" in run:
            ctx.violation(panic_sig(run["panic"]), {"panic": run["panic"], "input": s, "program": program(case)})
            continue
        o = run.get("out", {})
        singles = [r[k] if k < len(r) else None for r in per_rule]
        if "ok" not in o or any(x is None for x in singles):
            ctx.skip("rule_list_not_judged")
            continue
        obj, err = dec(o["ok"])
        if err is not None and b"does not match any rule" not in err:
            ctx.skip("regex_engine_error")
            continue
        exp = next((x for x in singles if x[0] == "match"), ("nomatch",))
        got = ("match", obj) if err is None else ("nomatch",)
        if exp[0] != got[0] or (exp[0] == "match" and not veq(exp[1], got[1])):
            ctx.violation("grok:rule_list:not_first_matching_rule",
                          {"rules": [gr.rule_text(p) for p in case["patterns"]], "input": s,
                           "list_result": repr(got), "single_rule_results": repr(singles)},
                          case=dict(case, inputs=[s]))
        else:
            first = next((i for i, x in enumerate(singles) if x[0] == "match"), -1)
            ctx.ok("rule_list|first_match=%d" % first, True)


def run_case(ctx, case):
    if case["kind"] == "cycle":
        run_cycle(ctx, case)
        return
    if len(case["patterns"]) > 1:
        run_list(ctx, case)
        return
    run_single(ctx, case)


def run_single(ctx, case, raws=None):
    try:
        verdicts = evaluate(ctx, case, raws)
    except gr.Unsupported:
        ctx.skip("reference_unsupported")
        return
    except Rejected as e:
        diags = e.resp.get("diags")
        if case["kind"] == "diamond":
            ctx.violation("grok:alias_diamond:rejected", {"program": program(case), "diags": diags})
        else:
            ms, fs, meta = rule_features(case)
            ctx.violation("grok:valid_rule_rejected:%s" % ("+".join(sorted(ms)) or "literal"),
                          {"program": program(case), "diags": diags})
        return
    ms, fs, meta = rule_features(case)
    nontrivial = bool(ms) or bool(meta)
    done = set()
    for s, v in zip(case["inputs"], verdicts):
        if v[0] == "skip":
            ctx.skip(v[1])
        elif v[0] == "ok":
            ctx.ok(cov_key(case, v[1]), nontrivial,
                   sample={"rule": [gr.rule_text(p) for p in case["patterns"]], "input": s, "matched": v[1]})
        else:
            if v[1] in done:       # one minimisation per violation kind and rule
                ctx.count("further_violations_same_rule")
                continue
            done.add(v[1])
            small, sv = shrink(ctx, case, s, v)
            detail = dict(sv[2])
            detail["rules"] = [gr.rule_text(p) for p in small["patterns"]]
            detail["aliases"] = {k: gr.rule_text(x) for k, x in small["aliases"].items()}
            detail["original_rules"] = [gr.rule_text(p) for p in case["patterns"]]
            ctx.violation(signature(ctx, small, sv), detail, case=small)


def on_death(ctx, case, e):
    if case and case.get("kind") == "cycle" and e.kind in ("cpu_timeout", "wall_timeout", "stack_overflow", "signal"):
        ctx.violation("grok:alias_cycle:hang_or_crash",
                      {"death": e.kind, "detail": e.detail, "program": program(case), "stderr": e.stderr_tail[-400:]})
    elif e.kind in ("oom", "stack_overflow"):
        ctx.skip("resource_exhaustion:" + e.kind)
    else:
        ctx.skip("worker_died:" + e.kind)
