"""C33 — diagnostics are always renderable and point into the source.

Monitor: for any source text the worker returns every diagnostic (errors on rejection, warnings
on acceptance) with each label's span and whether its ends are UTF-8 character boundaries of the
source, and renders the diagnostics (plain and colored) under `catch_unwind`. Oracle:
start <= end <= len(source), both ends on character boundaries, rendering returns without panic or
fmt::Error.
"""
from ..wire import enc
from ..gen import sources as gs
from . import c04

ID = "C33"
LEVEL = "exploration"
BUDGET = {"quick": 30, "thorough": 360}
FLOOR = {"quick": 25, "thorough": 50}
RULE = ("source fuzz over the repository corpus (function examples, lib/tests .vrl) and generated programs, "
        "weighted to mutants that still reach semantic analysis, with multi-byte characters injected next "
        "to the reported constructs (exotic whitespace, combining marks, 4-byte characters). Non-trivial: "
        "at least one diagnostic with a non-default label span; distinct by (diagnostic code, label index, "
        "multi-byte character inside/adjacent to the span or not).")
ASSUMPTIONS = ["labels with the conventional default span 0..0 satisfy the property trivially"]


def setup(ctx):
    ctx.corpus = gs.load_corpus(ctx.stdlib())


def gen_case(ctx, rng):
    r = rng.random()
    base = rng.choice(ctx.corpus) if r < 0.75 else gs.gen_program_source(rng)
    src = base
    # semantic-error inducing edits that keep the program parseable
    k = rng.random()
    if k < 0.25:
        src = src + rng.choice(["\n.a.b = 1\n.a = \"x\"\n.a.b.c = 2", "\nx = 1\nx.y.z = 2", "\n.zz = upcase(.q)",
                                "\nfoo = 1", "\n5 / 0 ?? 1", "\nok, err = 1 + 1", "\n. = 1", "\n%x.y = to_int(.s)\n"])
    elif k < 0.45:
        src = gs.mutate(rng, src, n=1)
    # inject multi-byte characters at whitespace positions
    for _ in range(rng.choice([0, 1, 2, 3])):
        ws = [i for i, c in enumerate(src) if c in " \n"]
        if not ws:
            break
        i = rng.choice(ws)
        src = src[:i] + rng.choice(gs.UNI_INJECT[:8] + [" é ", " 😀"]) + src[i + (1 if rng.random() < 0.6 else 0):]
    if rng.random() < 0.3:
        src = gs.mutate(rng, src, n=1)
    return {"src": src[:2048]}


def run_case(ctx, case):
    src = case["src"]
    resp = ctx.call({"op": "run", "src": src, "render": True, "probe": False, "events": []})
    if "panic" in resp:
        ctx.skip("compile_panic(C04)")
        return
    if "bad_request" in resp:
        ctx.skip("harness:bad_request")
        return
    n = len(src.encode("utf-8"))
    for which in ("plain", "colored"):
        r = resp.get("render", {}).get(which, {})
        if "panic" in r:
            ctx.violation("render_panic@%s" % c04.short_loc(r["panic"]["loc"]), {"src": src, "panic": r["panic"], "which": which})
            return
        if r and not r.get("ok", True):
            ctx.violation("render_fmt_error", {"src": src, "which": which})
            return
    diags = resp.get("diags", [])
    if not diags:
        ctx.ok(("no_diagnostics",), False)
        return
    for d in diags:
        for li, l in enumerate(d["labels"]):
            s, e = l["start"], l["end"]
            problem = None
            if s > e:
                problem = "start_after_end"
            elif e > n:
                problem = "beyond_source_end"
            elif not l["start_boundary"] or not l["end_boundary"]:
                problem = "not_on_char_boundary"
            if problem:
                family = "lexer_error" if 200 <= d["code"] < 300 else "E%d" % d["code"]
                ctx.violation("span:%s:%s" % (family, problem),
                              {"src": src, "diagnostic": d["msg"], "label": l, "source_len": n})
                return
    for d in diags:
        for li, l in enumerate(d["labels"]):
            s, e = l["start"], l["end"]
            raw = src.encode("utf-8")
            near = raw[max(0, s - 4):min(n, e + 4)]
            multibyte = any(b >= 0x80 for b in near)
            ctx.ok((d["code"], li, multibyte), not (s == 0 and e == 0),
                   sample={"src": src[:200], "code": d["code"], "label": [s, e], "msg": d["msg"]})
