"""C34 — unused-expression warnings only flag removable code.

Monitor (differential): for every warning "unused literal / object / result for function call ..."
(as opposed to "unused variable") the flagged span is replaced by `null` (P') and both programs
run on the same events. A third compile wraps the flagged text in `probe(...)`, which the compiler
only accepts for infallible expressions: flagged expression infallible => P and P' agree on
success/failure and on final event and metadata; fallible => whenever P succeeds, P' yields the
same final event and metadata.
"""
from ..wire import enc, dec
from ..gen import values as gv

ID = "C34"
LEVEL = "exploration"
BUDGET = {"quick": 30, "thorough": 360}
FLOOR = {"quick": 40, "thorough": 80}
RULE = ("template-generated programs whose expression statements nest side-effecting sub-expressions (del, "
        "assignments in groups/blocks, abort in branches) inside pure contexts (function arguments, array / "
        "object literals, operators, blocks, branches, closures) at root, block, branch and closure level; "
        "3 events. Non-trivial: an unused-result warning was produced and P' compiled; distinct by "
        "(warning kind, template of the flagged expression, position).")
ASSUMPTIONS = ["replacing the flagged span by `null` is 'deleting the expression' (keeps separators valid)"]

SIDE = ["del(.w)", "del(.obj.k1)", "del(.x, compact: true)", "(.mk = 1)", "{ .mk2 = 2; \"x\" }", "(.n2 = .a)",
        "{ if .f == true { .mk3 = 3 }; 5 }", "(v = del(.y))", "{ %m = 1; true }"]
LEAF = ["1", "\"foo\"", ".a", ".s", "true", "null", "[1, 2]", "{\"k\": 1}", "x0"]


def expr(rng, d):
    if d <= 0 or rng.random() < 0.3:
        return rng.choice(SIDE) if rng.random() < 0.5 else rng.choice(LEAF)
    e = expr(rng, d - 1)
    t = rng.choice([
        "upcase(to_string(%s) ?? \"d\")", "[%s, 1]", "{\"k\": %s}", "length([%s])", "(to_string(%s) ?? \"d\")",
        "(%s == 1)", "is_null(%s)", "if is_null(%s) { 1 } else { 2 }", "(%s)", "{ %s }", "push([1], %s)",
        "[%s][0]", "merge({}, {\"a\": %s})", "to_string(is_string(%s))", "contains(\"abc\", to_string(%s) ?? \"a\")",
        "(true && is_null(%s))", "(false || is_null(%s))", "encode_json(%s)", "string(%s) ?? \"z\"",
        "for_each([1]) -> |_i, _v| { %s }", "map_values([1]) -> |_v| { %s }", "exists(.q) || is_null(%s)",
    ])
    return t % e


def gen_case(ctx, rng):
    lines = ["x0 = 7", ".keep = x0"]
    n = rng.randint(1, 3)
    for _ in range(n):
        e = expr(rng, rng.randint(1, 3))
        pos = rng.random()
        if pos < 0.45:
            lines.append(e)
        elif pos < 0.65:
            lines.append("if .f == true {\n  %s\n  .b1 = 1\n} else {\n  .b2 = 2\n}" % e)
        elif pos < 0.8:
            lines.append(".blk = {\n  %s\n  3\n}" % e)
        else:
            lines.append("for_each([1, 2]) -> |_i, _v| {\n  %s\n  .c1 = 1\n}" % e)
        if rng.random() < 0.5:
            lines.append(".z%d = %d" % (len(lines), len(lines)))
    lines.append(".done = true")
    events = []
    for _ in range(3):
        ev = {"a": rng.choice([0, 1, 5]), "s": rng.choice([b"foo", b""]), "f": rng.random() < 0.5,
              "obj": {"k1": 1, "k2": b"z"}}
        for k in ("w", "x", "y", "q"):
            if rng.random() < 0.7:
                ev[k] = gv.rand_value(rng, 1)
        events.append(enc(ev))
    return {"src": "\n".join(lines), "events": events}


def run(ctx, src, events):
    return ctx.call({"op": "run", "src": src, "probe": True, "events": [{"e": e} for e in events]})


def outcome(run):
    if "panic" in run:
        return "panic"
    return "ok" if "ok" in run["out"] else next(iter(run["out"]))


def run_case(ctx, case):
    src = case["src"]
    raw = src.encode("utf-8")
    p = run(ctx, src, case["events"])
    if "panic" in p:
        ctx.skip("compile_panic(C04)")
        return
    if not p.get("compiled"):
        ctx.skip("rejected")
        return
    warns = [d for d in p["diags"] if d["sev"] == "warning" and d["msg"].startswith("unused")
             and not d["msg"].startswith("unused variable")]
    if not warns:
        ctx.ok(("no_unused_warning",), False)
        return
    for w in warns[:3]:
        lab = w["labels"][0]
        s, e = lab["start"], lab["end"]
        if not (0 <= s < e <= len(raw)) or not lab["start_boundary"] or not lab["end_boundary"]:
            ctx.skip("span_unusable(C33)")
            continue
        flagged = raw[s:e].decode("utf-8")
        p2src = (raw[:s] + b"null" + raw[e:]).decode("utf-8")
        p2 = run(ctx, p2src, case["events"])
        if not p2.get("compiled"):
            ctx.skip("p_prime_rejected")
            continue
        p3 = ctx.call({"op": "run", "src": (raw[:s] + b"probe(\"u\", " + raw[s:e] + b")" + raw[e:]).decode("utf-8"),
                       "events": []})
        infallible = bool(p3.get("compiled"))
        kind = w["msg"].split("`")[0].strip()
        pos = "root"
        before = src[:src.find(flagged)] if flagged in src else ""
        if before.count("{") > before.count("}"):
            pos = "nested"
        template = "".join(c for c in flagged if not c.isalnum() and c not in " ._\"")[:12]
        bad = None
        for ev, r1, r2 in zip(case["events"], p["runs"], p2["runs"]):
            o1, o2 = outcome(r1), outcome(r2)
            if "panic" in (o1, o2):
                continue
            same_state = r1["event"] == r2["event"] and r1["meta"] == r2["meta"]
            if infallible:
                if o1 != o2:
                    bad = ("success_differs", ev, o1, o2, r1, r2)
                elif not same_state:
                    bad = ("state_differs", ev, o1, o2, r1, r2)
            else:
                if o1 == "ok" and not same_state:
                    bad = ("state_differs_fallible", ev, o1, o2, r1, r2)
            if bad:
                break
        if bad:
            what, ev, o1, o2, r1, r2 = bad
            after = raw[e:e + 6].decode("utf-8", "replace").lstrip()
            if after[:2] in ("||", "&&", "??"):
                side = "short_circuit_lhs"
            else:
                side = "nested_del" if "del(" in flagged else "nested_assignment" if any(sx in flagged for sx in SIDE) else "other"
            ctx.violation("unused_warning_not_removable:%s:%s:%s" % (what, kind.replace(" ", "_"), side),
                          {"src": src, "flagged": flagged, "warning": w["msg"], "p_prime": p2src, "event": repr(dec(ev))[:300],
                           "outcome_p": o1, "outcome_p_prime": o2, "event_p": str(r1["event"])[:300], "event_p_prime": str(r2["event"])[:300],
                           "flagged_infallible": infallible}, case={"src": src, "events": [ev]})
            return
        ctx.ok((kind, template, pos, infallible), True,
               sample={"src": src[:300], "flagged": flagged, "warning": w["msg"][:80], "infallible": infallible})
