"""C35 — embedder type conversions round-trip canonical text.

Monitor: `Conversion::parse(name, tz)` + `.convert::<Value>(bytes)` (worker op `conversion`) on the
canonical text rendering of generated values; the renderings are produced in Python (decimal text,
repr() of doubles, documented boolean spellings, RFC 3339 and hand-rendered strftime formats with
explicit offsets), the expected value is the value that was rendered.

  asis|bytes|string   any bytes -> the same bytes
  int|integer         decimal text of any i64 -> that integer
  float               repr() / 17-significant-digit / positional decimal text of any finite double -> that double
  bool|boolean        true,t,yes,y / false,f,no,n in any letter case; non-zero i64 text -> true; "0" -> false
  timestamp           RFC 3339 text, any offset, 0-9 fractional digits -> that instant, under every default tz
  timestamp|FMT       FMT rendered by hand (only directives whose rendering is fixed: %Y %m %d %e %j %b %B %a
                      %A %H %M %S %I %p %F %T %s %f %3f %6f %9f %.f %.3f %.6f %.9f %z %:z %+) -> the instant at
                      the format's precision; with a zone directive: the same instant under every default
                      tz; without: the wall clock is interpreted in the default tz (UTC, a fixed offset,
                      and three DST zones via zoneinfo, unambiguous wall times, years 1970-2037).
"""
import datetime
import math
import zoneinfo
from decimal import Decimal

from ..wire import enc, dec, veq, Ts, f2bits
from ..gen import values as gv
from ..model.c2x_util import panic_file

ID = "C35"
LEVEL = "exploration"
BUDGET = {"quick": 20, "thorough": 240}
FLOOR = {"quick": 400, "thorough": 600}
RULE = ("per case one conversion name and a batch of 32 values rendered to canonical text: i64 edges, finite "
        "doubles over all exponents in three renderings, every documented boolean spelling x letter-case "
        "pattern and integers, arbitrary bytes, instants over 1678-2262 (second boundaries, DST transition "
        "neighbourhoods, i64-nanosecond limits) rendered as RFC 3339 with offsets -23:59..+23:59 and 0-9 "
        "fraction digits, or through a format assembled from date style x time style/precision x zone style x "
        "order; every text is converted under each default timezone of {UTC, Etc/GMT-2, America/New_York, "
        "Europe/London, Australia/Lord_Howe}. All cases are non-trivial except zero/empty inputs; distinct by "
        "(conversion, format/value class, tz).")
ASSUMPTIONS = [
    "Python repr(float) is the shortest round-trip decimal text; '%.17e' identifies a double uniquely",
    "the system zoneinfo database and chrono-tz agree for New_York/London/Lord_Howe between 1970 and 2037; "
    "zone-less formats under DST zones are judged only there and only for unambiguous wall-clock times",
    "%.f is rendered as chrono documents it: empty for whole seconds, else 3, 6 or 9 digits",
    "the 'local' default timezone is not exercised",
]

BATCH = 32
TZS = ["UTC", "Etc/GMT-2", "America/New_York", "Europe/London", "Australia/Lord_Howe"]
FIXED = {"UTC": 0, "Etc/GMT-2": 7200}
EPOCH = datetime.datetime(1970, 1, 1)
MONTHS = ["January", "February", "March", "April", "May", "June", "July", "August", "September", "October",
          "November", "December"]
DAYS = ["Monday", "Tuesday", "Wednesday", "Thursday", "Friday", "Saturday", "Sunday"]
NS_MAX = 9223372036854775807

NAMES = {"bytes": ["asis", "bytes", "string"], "int": ["int", "integer"], "float": ["float"],
         "bool": ["bool", "boolean"], "ts_auto": ["timestamp"]}

DATE_STYLES = {"ymd": "%Y-%m-%d", "F": "%F", "dmy": "%d/%m/%Y", "mdy": "%m/%d/%Y", "compact": "%Y%m%d",
               "d_b_Y": "%d %b %Y", "long": "%A, %B %e, %Y", "a_e_b": "%a %e %b %Y", "yj": "%Y-%j", "dots": "%d.%m.%Y"}
# time style -> (format, precision in ns)
TIME_STYLES = {"HMS": ("%H:%M:%S", 10 ** 9), "T": ("%T", 10 ** 9), "compact": ("%H%M%S", 10 ** 9),
               "HM": ("%H:%M", 60 * 10 ** 9), "12h": ("%I:%M:%S %p", 10 ** 9),
               "dot_f": ("%H:%M:%S%.f", 1), "dot_3f": ("%H:%M:%S%.3f", 10 ** 6), "dot_6f": ("%H:%M:%S%.6f", 10 ** 3),
               "dot_9f": ("%H:%M:%S%.9f", 1), "f": ("%H:%M:%S.%f", 1), "3f": ("%H:%M:%S.%3f", 10 ** 6),
               "6f": ("%H:%M:%S,%6f", 10 ** 3), "9f": ("%T.%9f", 1)}
ZONE_STYLES = {"none": "", "z": " %z", "z_adjacent": "%z", "colon_z": "%:z", "sp_colon_z": " %:z",
               "hash_z": " %#z", "hash_z_adjacent": "%#z"}      # %#z: chrono's parse-only permissive offset
JOINERS = [" ", "T", " at ", "_", ""]

BOOL_TRUE = ["true", "t", "yes", "y"]
BOOL_FALSE = ["false", "f", "no", "n"]

# neighbourhoods of DST transitions (UTC seconds) for the three DST zones, 2020-2021
TRANSITIONS = [1583650800, 1604210400, 1585443600, 1603587600, 1585999800, 1601740800, 1615705200, 1636264800,
               1616893200, 1635642000]
TS_EDGE_SECS = [0, 1, -1, 59, 60, 86399, 86400, -86400, 951782399, 951782400, 1709164800, 1709251199, 2147483647,
                2147483648, -2147483649, 4102444800, -9223372036, 9223372036, 1600000000, -6857222400, 7258118400,
                978307199, 978307200]


# ----------------------------------------------------------------------------------------
# rendering

def fields(secs, offset):
    """Naive local datetime (whole seconds) of unix time `secs` at UTC offset `offset` seconds."""
    return EPOCH + datetime.timedelta(seconds=secs + offset)


def off_text(offset, colon):
    sign = "-" if offset < 0 else "+"
    a = abs(offset) // 60
    return "%s%02d%s%02d" % (sign, a // 60, ":" if colon else "", a % 60)


def dot_f(nanos):
    if nanos == 0:
        return ""
    if nanos % 10 ** 6 == 0:
        return ".%03d" % (nanos // 10 ** 6)
    if nanos % 10 ** 3 == 0:
        return ".%06d" % (nanos // 10 ** 3)
    return ".%09d" % nanos


def render(fmt, dt, nanos, offset, secs):
    out = []
    i = 0
    while i < len(fmt):
        c = fmt[i]
        if c != "%":
            out.append(c)
            i += 1
            continue
        for d in ("%.3f", "%.6f", "%.9f", "%.f", "%3f", "%6f", "%9f", "%:z", "%#z"):
            if fmt.startswith(d, i):
                break
        else:
            d = fmt[i:i + 2]
        i += len(d)
        if d == "%Y":
            out.append("%04d" % dt.year)
        elif d == "%m":
            out.append("%02d" % dt.month)
        elif d == "%d":
            out.append("%02d" % dt.day)
        elif d == "%e":
            out.append("%2d" % dt.day)
        elif d == "%j":
            out.append("%03d" % dt.timetuple().tm_yday)
        elif d == "%b":
            out.append(MONTHS[dt.month - 1][:3])
        elif d == "%B":
            out.append(MONTHS[dt.month - 1])
        elif d == "%a":
            out.append(DAYS[dt.weekday()][:3])
        elif d == "%A":
            out.append(DAYS[dt.weekday()])
        elif d == "%H":
            out.append("%02d" % dt.hour)
        elif d == "%M":
            out.append("%02d" % dt.minute)
        elif d == "%S":
            out.append("%02d" % dt.second)
        elif d == "%I":
            out.append("%02d" % ((dt.hour + 11) % 12 + 1))
        elif d == "%p":
            out.append("AM" if dt.hour < 12 else "PM")
        elif d == "%F":
            out.append("%04d-%02d-%02d" % (dt.year, dt.month, dt.day))
        elif d == "%T":
            out.append("%02d:%02d:%02d" % (dt.hour, dt.minute, dt.second))
        elif d == "%s":
            out.append(str(secs))
        elif d == "%f":
            out.append("%09d" % nanos)
        elif d == "%3f":
            out.append("%03d" % (nanos // 10 ** 6))
        elif d == "%6f":
            out.append("%06d" % (nanos // 10 ** 3))
        elif d == "%9f":
            out.append("%09d" % nanos)
        elif d == "%.f":
            out.append(dot_f(nanos))
        elif d == "%.3f":
            out.append(".%03d" % (nanos // 10 ** 6))
        elif d == "%.6f":
            out.append(".%06d" % (nanos // 10 ** 3))
        elif d == "%.9f":
            out.append(".%09d" % nanos)
        elif d == "%z":
            out.append(off_text(offset, False))
        elif d == "%:z":
            out.append(off_text(offset, True))
        elif d == "%#z":
            out.append(off_text(offset, bool(nanos & 1)))      # accepts +hhmm and +hh:mm alike
        elif d == "%+":
            out.append("%04d-%02d-%02dT%02d:%02d:%02d%s%s" % (dt.year, dt.month, dt.day, dt.hour, dt.minute, dt.second,
                                                             dot_f(nanos), off_text(offset, True)))
        elif d == "%%":
            out.append("%")
        else:
            raise ValueError("directive not under control: " + d)
    return "".join(out)


def rfc3339(secs, nanos, offset, digits, zulu):
    dt = fields(secs, offset)
    frac = ("." + ("%09d" % nanos)[:digits]) if digits else ""
    zone = "Z" if (zulu and offset == 0) else off_text(offset, True)
    return "%04d-%02d-%02dT%02d:%02d:%02d%s%s" % (dt.year, dt.month, dt.day, dt.hour, dt.minute, dt.second, frac, zone)


# ----------------------------------------------------------------------------------------
# generators

def rand_instant(rng, lo=-9223372036, hi=9223372036):
    r = rng.random()
    if r < 0.2:
        secs = rng.choice(TS_EDGE_SECS)
    elif r < 0.4:
        secs = rng.choice(TRANSITIONS) + rng.choice([0, -1, 1, -1800, 1800, -3600, 3600, rng.randint(-7200, 7200)])
    elif r < 0.7:
        secs = rng.randint(0, 2145916800)
    else:
        secs = rng.randint(lo, hi)
    secs = max(lo, min(hi, secs))
    nanos = rng.choice([0, 0, 1, 999999999, 500000000, 123000000, 123456000, 123456789, 1000, 1000000,
                        rng.randint(0, 999999999), rng.randint(0, 999) * 1000000, rng.randint(0, 999999) * 1000])
    if secs * 10 ** 9 + nanos > NS_MAX:
        nanos = 0
    return secs, nanos


def rand_offset(rng, wide):
    r = rng.random()
    if r < 0.25:
        return 0
    if r < 0.7:
        return rng.choice([3600, -3600, 19800, -28800, 34200, 50400, -43200, 37800, -12600, 20700, 45900, 7200, -18000])
    lim = 23 * 60 + 59 if wide else 14 * 60
    return rng.randint(-lim, lim) * 60


def case_mix(rng, word):
    mode = rng.choice(["lower", "upper", "title", "mixed"])
    if mode == "lower":
        return word, mode
    if mode == "upper":
        return word.upper(), mode
    if mode == "title":
        return word[:1].upper() + word[1:], mode if len(word) > 1 else "upper"
    w = "".join(c.upper() if rng.random() < 0.5 else c for c in word)
    if w == word:
        return w, "lower"
    if w == word.upper():
        return w, "upper"
    return w, "mixed"


def mag_class(f):
    if f == 0:
        return "zero"
    a = abs(f)
    if a < 2.2250738585072014e-308:
        return "subnormal"
    if a < 1e-5:
        return "tiny"
    if a < 1e16:
        return "mid"
    if a < 1e22:
        return "large"
    return "huge"


def rand_finite(rng):
    r = rng.random()
    if r < 0.4:
        e = rng.randint(0, 2046)
        return gv.bits2f((rng.getrandbits(1) << 63) | (e << 52) | rng.getrandbits(52))
    return gv.rand_float(rng, finite=True)


def int_class(i):
    a = abs(i)
    return ("zero" if i == 0 else "small" if a < 1 << 31 else "<=2^53" if a <= 1 << 53 else
            "i64_edge" if i in (gv.I64_MIN, gv.I64_MAX) else ">2^53") + ("/neg" if i < 0 else "")


def wall_expected(tz, secs, nanos, prec):
    """For a zone-less format under default tz: (local naive datetime, expected (secs, nanos)) or None if the
    wall-clock time is ambiguous / outside the judged window."""
    total = secs * 10 ** 9 + nanos
    if tz in FIXED:
        off = FIXED[tz]
        # truncate in local time (offset is a whole number of minutes)
        t = total - total % prec
        s, n = divmod(t, 10 ** 9)
        return fields(s, off), (s, n), off
    if not (0 <= secs <= 2145916800):
        return None
    z = zoneinfo.ZoneInfo(tz)
    aware = datetime.datetime.fromtimestamp(secs, z)
    off = int(aware.utcoffset().total_seconds())
    local_total = total + off * 10 ** 9
    local_total -= local_total % prec
    ls, n = divmod(local_total, 10 ** 9)
    wall = fields(ls, 0)
    o0 = wall.replace(tzinfo=z, fold=0).utcoffset()
    o1 = wall.replace(tzinfo=z, fold=1).utcoffset()
    if o0 != o1:
        return None
    o = int(o0.total_seconds())
    # the wall time must exist (not in a gap): converting back must give the same wall time
    s = ls - o
    back = datetime.datetime.fromtimestamp(s, z)
    if back.replace(tzinfo=None) != wall:
        return None
    return wall, (s, n), o


def in_overlap(tz, secs):
    """Is the wall-clock time of instant `secs` in `tz` ambiguous (DST fall-back overlap)?"""
    if tz in FIXED:
        return False
    z = zoneinfo.ZoneInfo(tz)
    wall = datetime.datetime.fromtimestamp(secs, z).replace(tzinfo=None)
    return wall.replace(tzinfo=z, fold=0).utcoffset() != wall.replace(tzinfo=z, fold=1).utcoffset()


def gen_fmt(rng):
    r = rng.random()
    if r < 0.06:
        return {"fmt": "%+", "cls": "iso/+", "zone": True, "prec": 1}
    if r < 0.12:
        return {"fmt": "%s", "cls": "unix/s", "zone": False, "prec": 10 ** 9, "abs": True}
    dk = rng.choice(list(DATE_STYLES))
    tk = rng.choice(list(TIME_STYLES))
    zk = rng.choice(list(ZONE_STYLES)) if rng.random() < 0.65 else "none"
    tf, prec = TIME_STYLES[tk]
    j = rng.choice(JOINERS)
    if j == "" and not (dk == "compact" and tk == "compact"):
        j = " "
    order = "date_first" if rng.random() < 0.8 else "time_first"
    if tk == "12h" and j in ("T", "_", ""):
        j = " "
    if order == "date_first":
        fmt = DATE_STYLES[dk] + j + tf
    else:
        if j == "":
            j = " "
        fmt = tf + j + DATE_STYLES[dk]
    fmt += ZONE_STYLES[zk]
    if rng.random() < 0.1:
        fmt = rng.choice(["[", "ts=", "%% ", "at "]) + fmt + rng.choice(["]", "", " %%", " UTC?"])
        if fmt.endswith(" UTC?"):
            fmt = fmt[:-5] + " end"
    return {"fmt": fmt, "cls": "%s/%s/%s/%s" % (dk, tk, zk, order), "zone": zk != "none", "prec": prec, "dk": dk,
            "tk": tk, "zk": zk}


def gen_case(ctx, rng):
    kind = rng.choices(["bytes", "int", "float", "bool", "ts_auto", "ts_fmt"], [1, 2, 3, 2, 4, 10])[0]
    padded = rng.random() < 0.08
    case = {"kind": kind, "padded": padded}
    if kind != "ts_fmt":
        name = rng.choice(NAMES[kind])
        case["name"] = (" %s " % name) if padded else name
    if kind == "bytes":
        items = []
        for _ in range(BATCH):
            b = gv.rand_bytes(rng, 16)
            items.append({"t": enc(b), "x": enc(b), "c": "empty" if not b else "utf8" if isinstance(enc(b), str) else "binary"})
        case["runs"] = [{"tz": rng.choice(TZS), "items": items}]
    elif kind == "int":
        items = []
        for _ in range(BATCH):
            i = gv.rand_int(rng)
            items.append({"t": str(i), "x": i, "c": int_class(i)})
        case["runs"] = [{"tz": rng.choice(TZS), "items": items}]
    elif kind == "float":
        items = []
        for _ in range(BATCH):
            f = rand_finite(rng)
            style = rng.choice(["repr", "repr", "17e", "positional"])
            if style == "repr":
                t = repr(f)
            elif style == "17e":
                t = "%.17e" % f
            else:
                t = format(Decimal(repr(f)), "f")
            items.append({"t": t, "x": enc(f), "c": "%s/%s%s" % (style, mag_class(f), "/neg" if math.copysign(1, f) < 0 else "")})
        case["runs"] = [{"tz": rng.choice(TZS), "items": items}]
    elif kind == "bool":
        items = []
        for _ in range(BATCH):
            r = rng.random()
            if r < 0.4:
                w = rng.choice(BOOL_TRUE)
                t, mode = case_mix(rng, w)
                items.append({"t": t, "x": True, "c": "%s/%s" % (w, mode)})
            elif r < 0.8:
                w = rng.choice(BOOL_FALSE)
                t, mode = case_mix(rng, w)
                items.append({"t": t, "x": False, "c": "%s/%s" % (w, mode)})
            elif r < 0.85:
                items.append({"t": "0", "x": False, "c": "zero"})
            else:
                i = gv.rand_int(rng) or 1
                items.append({"t": str(i), "x": True, "c": "nonzero_integer/" + int_class(i)})
        case["runs"] = [{"tz": rng.choice(TZS), "items": items}]
    elif kind == "ts_auto":
        texts = []
        for _ in range(BATCH):
            secs, nanos = rand_instant(rng)
            off = rand_offset(rng, True)
            digits = rng.randint(0, 9)
            zulu = rng.random() < 0.7
            n = int(("%09d" % nanos)[:digits] or "0") * 10 ** (9 - digits) if digits else 0
            oc = "Z" if (off == 0 and zulu) else "+00:00" if off == 0 else "whole_hour" if off % 3600 == 0 else "minutes"
            oc += "" if off == 0 else ("/east" if off > 0 else "/west")
            texts.append({"t": rfc3339(secs, nanos, off, digits, zulu), "x": enc(Ts(secs, n)),
                          "c": "%s/frac%d/%s" % (oc, digits, era(secs))})
        case["zone"] = True
        case["runs"] = [{"tz": tz, "items": texts} for tz in TZS]
    else:
        f = gen_fmt(rng)
        name = "timestamp|" + f["fmt"]
        case["name"] = ("timestamp | " + f["fmt"] + " ") if padded else name
        case["fmt"] = f["fmt"]
        case["cls"] = f["cls"]
        case["zone"] = f["zone"] or bool(f.get("abs"))
        instants = [rand_instant(rng) for _ in range(BATCH)]
        runs = []
        if f["zone"] or f.get("abs"):
            items = []
            for secs, nanos in instants:
                off = rand_offset(rng, False) if f["zone"] else 0
                total = secs * 10 ** 9 + nanos
                total -= total % f["prec"] if f["prec"] < 60 * 10 ** 9 else (total + off * 10 ** 9) % f["prec"]
                s, n = divmod(total, 10 ** 9)
                text = render(f["fmt"], fields(secs, off), nanos, off, secs)
                items.append({"t": text, "x": enc(Ts(s, n)), "c": era(secs) + ("/pre1970" if secs < 0 else "")})
            runs = [{"tz": tz, "items": items} for tz in TZS]
        else:
            for tz in TZS:
                items = []
                for secs, nanos in instants:
                    w = wall_expected(tz, secs, nanos, f["prec"])
                    if w is None:
                        continue
                    wall, (s, n), off = w
                    text = render(f["fmt"], wall, n if f["prec"] < 10 ** 9 else 0, off, s)
                    items.append({"t": text, "x": enc(Ts(s, n)), "c": era(secs)})
                runs.append({"tz": tz, "items": items, "dropped": len(instants) - len(items)})
        case["runs"] = runs
    return case


def era(secs):
    if secs < -6000000000:
        return "<1780"
    if secs < 0:
        return "1780-1970"
    if secs <= 2145916800:
        return "1970-2037"
    return ">2037"


# ----------------------------------------------------------------------------------------
# judging

DATE_GROUP = {"long": "names", "a_e_b": "names", "d_b_Y": "names", "yj": "ordinal", "compact": "compact"}


def cov_fmt_class(case):
    parts = case.get("cls", "").split("/")
    if len(parts) < 4:
        return case.get("cls", "")
    dk, tk, zk, order = parts
    return "%s/%s/%s" % (DATE_GROUP.get(dk, "numeric"), tk, zk)


def as_input(t):
    return t if isinstance(t, (str, dict)) else str(t)


def run_case(ctx, case):
    kind = case["kind"]
    name = case["name"]
    zoned = case.get("zone", False)
    fcls = case.get("cls", kind)
    results = []        # per run: list of decoded ok-values / None
    for run in case["runs"]:
        tz = run["tz"]
        if run.get("dropped"):
            ctx.skip("ts_fmt:wall_clock_ambiguous_or_outside_window", run["dropped"])
        if not run["items"]:
            results.append([])
            continue
        resp = ctx.call({"op": "conversion", "name": name, "tz": tz, "inputs": [as_input(it["t"]) for it in run["items"]]})
        one = lambda it: dict(case, runs=[{"tz": tz, "items": [it]}])
        if "unknown" in resp:
            ctx.violation("%s:name_rejected" % kind, {"name": name, "response": resp}, case=one(run["items"][0]))
            results.append([])
            continue
        vals = []
        for it, o in zip(run["items"], resp["outs"]):
            exp = dec(it["x"])
            det = {"conversion": name, "default_tz": tz, "variant": resp.get("variant"), "text": it["t"],
                   "expected": repr(exp), "class": it["c"]}
            if kind == "ts_fmt" and case.get("fmt") == "%s":
                sigcls = "unix_seconds:" + ("negative" if exp.secs < 0 else
                                            "dst_overlap_hour" if in_overlap(tz, exp.secs) else "other")
            elif kind == "ts_fmt":
                sigcls = "%s:%s" % ("zoned" if zoned else "zoneless:" + tz, fcls if fcls.count("/") < 3 else
                                    "date=%s:time=%s:zone=%s:%s" % tuple(fcls.split("/")))
            elif kind == "ts_auto":
                sigcls = it["c"].rsplit("/", 1)[0]
            elif kind == "float":
                sigcls = it["c"]
            else:
                sigcls = it["c"]
            if "panic" in o:
                ctx.violation("%s:panic@%s" % (kind, panic_file(o["panic"])), dict(det, panic=o["panic"]), case=one(it))
                vals.append(None)
                continue
            if "ok" not in o:
                ctx.violation("%s:%s:error" % (kind, sigcls), dict(det, got=o), case=one(it))
                vals.append(None)
                continue
            got = dec(o["ok"])
            vals.append(got)
            good = veq(got, exp)
            if good and type(exp) is float and exp != 0:
                good = f2bits(got) == f2bits(exp)
            if not good:
                what = "wrong_instant" if kind.startswith("ts") else "wrong_value"
                ctx.violation("%s:%s:%s" % (kind, sigcls, what), dict(det, got=repr(got)), case=one(it))
                continue
            nontrivial = it["c"] not in ("empty", "zero")
            conv = kind + ":" + name.strip().split("|")[0].strip()
            if case.get("padded"):
                ctx.count("padded_name_accepted:" + kind)
            if kind == "ts_fmt":
                key = (conv, cov_fmt_class(case), tz)
            elif kind == "ts_auto":
                key = (conv, it["c"].rsplit("/", 1)[0], tz)
            else:
                key = (conv, it["c"], "-")
            ctx.ok(key, nontrivial, {"conversion": name, "default_tz": tz, "text": it["t"], "got": repr(got)})
            if kind.startswith("ts"):
                ctx.count("era:" + it["c"].split("/")[-1 if kind == "ts_auto" else 0])
        results.append(vals)
    # explicit zone: the result must not depend on the default timezone
    if zoned and len(results) > 1 and all(len(r) == len(results[0]) for r in results):
        for k in range(len(results[0])):
            col = [r[k] for r in results]
            if any(v is None for v in col):
                continue
            if any(not veq(v, col[0]) for v in col[1:]):
                it = case["runs"][0]["items"][k]
                ctx.violation("%s:result_depends_on_default_tz" % kind,
                              {"conversion": name, "text": it["t"], "results": {run["tz"]: repr(v) for run, v in zip(case["runs"], col)}},
                              case=dict(case, runs=[{"tz": run["tz"], "items": [run["items"][k]]} for run in case["runs"]]))
            else:
                ctx.ok((kind, "tz_independent", cov_fmt_class(case) if kind == "ts_fmt" else "rfc3339"), True)


def on_death(ctx, case, e):
    k = (case or {}).get("kind", "?")
    if e.kind in ("cpu_timeout", "wall_timeout"):
        ctx.skip("timeout:conversion:" + k)
    elif e.kind in ("oom", "stack_overflow"):
        ctx.skip("resource_exhaustion:%s:%s" % (e.kind, k))
    else:
        ctx.skip("worker_died:%s:%s" % (e.kind, k))
