"""C36 — results are independent of the configured timezone where they should be.

Monitor (differential): the same program + event is run under 5 configured timezones (UTC, a fixed
offset, two DST zones, Local with TZ set for the worker). Results, events and metadata must be
identical unless the program contains a *zone-less wall-clock interpretation* from an explicit
table: `parse_timestamp` without `timezone:` on a format without a zone directive,
`parse_syslog` / `parse_common_log` / `parse_apache_log` / `parse_nginx_log` on inputs whose
timestamp has no zone, `get_timezone_name`. Everything else — `format_timestamp` (with or without
`timezone:`), `to_unix_timestamp`, `parse_timestamp` with `%z`/`%:z`/`%+`/`timezone:`, timestamp
literals, comparisons, `to_string`, `encode_json` — must be invariant. Evidence also records, as a
non-vacuity witness, that zone-less variants do differ for some pair.
"""
import datetime

from ..wire import enc, dec, Ts
from ..gen import ast as A
from ..gen import values as gv
from ..gen.lit import str_lit, ts_lit
from ..gen.program import Opts, core_event, CORE_SCHEMA
from ..gen import stdlib_args as sa
from . import full_common as fc

ID = "C36"
LEVEL = "exploration"
BUDGET = {"quick": 30, "thorough": 360}
FLOOR = {"quick": 10, "thorough": 20}
RULE = ("70% targeted time-function programs (templates x timestamps across 1970-2100 incl. DST transition "
        "instants x formats with/without zone directives x explicit timezone arguments), 30% generated "
        "programs with arbitrary deterministic stdlib calls; each under 5 timezones. Non-trivial: program "
        "uses a time function and is judged; distinct by (template / function set, zone-carrying or not).")
ASSUMPTIONS = ["the table of zone-less wall-clock interpretations above is the complete list of legitimately "
               "timezone-dependent operations", "`%s` formats are not judged (absolute, but chrono resolves them "
               "through the local zone)", "Local is exercised with TZ=America/Sao_Paulo for the worker process"]
WORKER_ENV = {"TZ": "Asia/Kathmandu"}
TZS = ["UTC", "+05:30", "America/New_York", "Europe/London", "local"]
ZONE_FMT = ["%Y-%m-%dT%H:%M:%S%z", "%Y-%m-%dT%H:%M:%S%:z", "%+", "%d/%b/%Y:%H:%M:%S %z", "%Y-%m-%d %H:%M:%S%.f %z",
            "%a, %d %b %Y %H:%M:%S %z", "%Y-%m-%d %H:%M:%S %#z", "%Y-%m-%dT%H:%M:%S%#z"]
NOZONE_FMT = ["%Y-%m-%d %H:%M:%S", "%Y-%m-%dT%H:%M:%S", "%d/%m/%Y %H:%M", "%Y%m%d%H%M%S", "%F %T%.f"]
TZ_ARGS = ["UTC", "Europe/Paris", "Asia/Tokyo", "America/Los_Angeles", "+02:00"]
EXEMPT_FNS = {"parse_syslog", "parse_common_log", "parse_apache_log", "parse_nginx_log", "get_timezone_name",
              "parse_timestamp", "now"} | set(sa.NONDETERMINISTIC) | {"encrypt", "decrypt", "encrypt_ip", "decrypt_ip"}


def setup(ctx):
    ctx.usable = [f for f in fc.usable_functions(ctx) if f["id"] not in EXEMPT_FNS]


def render(ts, fmt, off_minutes):
    dt = datetime.datetime(1970, 1, 1, tzinfo=datetime.timezone.utc) + datetime.timedelta(seconds=ts.secs)
    dt = dt.astimezone(datetime.timezone(datetime.timedelta(minutes=off_minutes)))
    sign = "+" if off_minutes >= 0 else "-"
    hh, mm = divmod(abs(off_minutes), 60)
    z, zc = "%s%02d%02d" % (sign, hh, mm), "%s%02d:%02d" % (sign, hh, mm)
    out = fmt
    rep = {"%+": dt.strftime("%Y-%m-%dT%H:%M:%S") + zc, "%:z": zc, "%z": z, "%#z": z, "%.f": ".%09d" % ts.nanos,
           "%F": dt.strftime("%Y-%m-%d"), "%T": dt.strftime("%H:%M:%S")}
    for k in ("%+", "%:z", "%#z", "%z", "%.f", "%F", "%T"):
        out = out.replace(k, rep[k])
    return dt.strftime(out)


def rand_ts(rng):
    if rng.random() < 0.4:
        # around DST transitions (US 2021-03-14 07:00Z, 2021-11-07 06:00Z; EU 2021-03-28 01:00Z, 2021-10-31 01:00Z)
        base = rng.choice([1615705200, 1636264800, 1616893200, 1635642000])
        return Ts(base + rng.randint(-7200, 7200), rng.choice([0, 0, 123456789]))
    return Ts(rng.randint(0, 4102444800), rng.choice([0, 0, 500000000, rng.randint(0, 999999999)]))


def gen_targeted(rng):
    ts = rand_ts(rng)
    off = rng.choice([0, 60, -300, 330, 765, -720, 840])
    c = rng.random()
    sensitive = False
    ev = {"t": ts}
    if c < 0.2:
        fmt = rng.choice(ZONE_FMT)
        ev["s"] = render(ts, fmt, off).encode()
        src = "parse_timestamp!(.s, %s)" % str_lit(fmt.encode())
        name = "parse_timestamp:zone_format"
    elif c < 0.3:
        fmt = rng.choice(NOZONE_FMT)
        ev["s"] = render(ts, fmt, 0).encode()
        src = "parse_timestamp!(.s, %s, timezone: %s)" % (str_lit(fmt.encode()), str_lit(rng.choice(TZ_ARGS).encode()))
        name = "parse_timestamp:timezone_arg"
    elif c < 0.4:
        fmt = rng.choice(NOZONE_FMT)
        ev["s"] = render(ts, fmt, 0).encode()
        src = "parse_timestamp!(.s, %s)" % str_lit(fmt.encode())
        name = "parse_timestamp:zoneless"
        sensitive = True
    elif c < 0.55:
        fmt = rng.choice(ZONE_FMT + NOZONE_FMT + ["%H:%M", "%Z", "%c"])
        if rng.random() < 0.5:
            src = "format_timestamp!(.t, %s)" % str_lit(fmt.encode())
            name = "format_timestamp:no_timezone_arg"
        else:
            src = "format_timestamp!(.t, %s, timezone: %s)" % (str_lit(fmt.encode()), str_lit(rng.choice(TZ_ARGS).encode()))
            name = "format_timestamp:timezone_arg"
    elif c < 0.62:
        src = "to_unix_timestamp(timestamp!(.t), unit: %s)" % str_lit(rng.choice(["seconds", "milliseconds", "nanoseconds"]).encode())
        name = "to_unix_timestamp"
    elif c < 0.70:
        src = rng.choice(["to_string(timestamp!(.t))", "encode_json(.t)", "to_int(timestamp!(.t))", "to_float(timestamp!(.t))",
                          "timestamp!(.t) < %s" % ts_lit(rand_ts(rng)), "[.t, %s]" % ts_lit(rand_ts(rng)),
                          "from_unix_timestamp!(to_unix_timestamp(timestamp!(.t)))", "format_int!(to_unix_timestamp(timestamp!(.t)), 16)"])
        name = "timestamp_misc"
    elif c < 0.78:
        ev["s"] = ("127.0.0.1 bob frank [%s] \"GET /x HTTP/1.0\" 200 2326" % render(ts, "%d/%b/%Y:%H:%M:%S %z", off)).encode()
        src = "parse_common_log!(.s)"
        name = "parse_common_log:zone_in_input"
    elif c < 0.86:
        ev["s"] = ("<13>1 %s host app 1 ID47 - msg" % render(ts, "%Y-%m-%dT%H:%M:%S%:z", off)).encode()
        src = "parse_syslog!(.s)"
        name = "parse_syslog:rfc5424_offset"
    elif c < 0.93:
        ev["s"] = ("<13>%s host app[1]: msg" % render(ts, "%b %d %H:%M:%S", 0)).encode()
        src = "parse_syslog!(.s)"
        name = "parse_syslog:rfc3164_zoneless"
        sensitive = True
    else:
        fmt = "%Y-%m-%dT%H:%M:%S%z"
        ev["s"] = render(ts, fmt, off).encode()
        src = "x = parse_timestamp!(.s, %s)\n.out = format_timestamp!(x, \"%%Y-%%m-%%d %%H:%%M:%%S\")\n.u = to_unix_timestamp(x)\n.out" % str_lit(fmt.encode())
        name = "parse_then_format"
    return {"kind": "targeted", "name": name, "src": src, "event": enc(ev), "sensitive": sensitive}


def gen_case(ctx, rng):
    if rng.random() < 0.7:
        return gen_targeted(rng)
    g = fc.gen_full_case(rng, Opts(abort=False, ret=True, bang=True, closures=True, stdlib=ctx.usable,
                                   stdlib_p=0.5, max_stmts=4, max_depth=2), 1)
    fns = sorted(k[5:] for k in A.node_kinds(g["stmts"]) if k.startswith("call:"))
    return {"kind": "generated", "name": "+".join(fns[:3]) or "core", "src": A.program_src(g["stmts"]),
            "event": g["events"][0], "sensitive": False, "typed": True}


def run_case(ctx, case):
    outs = []
    for tz in TZS:
        req = {"op": "run", "src": case["src"], "probe": False, "tz": tz, "events": [{"e": case["event"]}]}
        if case.get("typed"):
            req["ext"] = {"event": CORE_SCHEMA}
        r = ctx.call(req)
        if "panic" in r:
            ctx.skip("compile_panic(C04)")
            return
        if not r.get("compiled"):
            ctx.skip("rejected:" + (case["name"] if case["kind"] == "targeted" else "generated"))
            return
        run = r["runs"][0]
        if "panic" in run:
            ctx.skip("panic(C04)")
            return
        outs.append((run["out"], run["event"], run["meta"]))
    differ = any(o != outs[0] for o in outs[1:])
    if case["sensitive"]:
        ctx.count("zoneless_cases")
        if differ:
            ctx.count("zoneless_cases_that_differ(non-vacuity witness)")
        ctx.ok(("sensitive", case["name"], differ), False)
        return
    if differ:
        i = next(k for k in range(1, len(outs)) if outs[k] != outs[0])
        ctx.violation("timezone_dependent:%s" % case["name"],
                      {"src": case["src"], "event": repr(dec(case["event"]))[:300], "tz_a": TZS[0], "out_a": str(outs[0][0])[:300],
                       "tz_b": TZS[i], "out_b": str(outs[i][0])[:300]})
        return
    ctx.ok((case["kind"], case["name"], next(iter(outs[0][0]))), case["kind"] == "targeted" or "timestamp" in case["name"],
           sample={"src": case["src"][:300], "event": repr(dec(case["event"]))[:150], "out": str(outs[0][0])[:120]})
