"""Shared harness for the core-language properties (C06-C09, C13): generate a program in the
modelled subset, run it on the real runtime with probes, run the reference interpreter with
the same inputs, and compare chosen observables."""
import copy

from ..wire import enc, dec, tag
from ..gen import ast as A
from ..gen.program import Gen, Opts, CORE_SCHEMA, core_event
from ..model.interp import Interp, Unmodelled, NeedDefault, model_eq, ErrMsg

DEFAULT_VALUES = [b"", 0, 0.0, False, [], {}, None]


def collect_vars(stmts):
    names = set()

    def f(n, ctx):
        if n[0] in ("assign", "massign"):
            if n[1][0] == "tvar":
                names.add(n[1][1])
        elif n[0] == "assign2":
            for t in (n[1], n[2]):
                if t[0] == "tvar":
                    names.add(t[1])
        elif n[0] == "var":
            names.add(n[1])
        elif n[0] == "call" and n[4] is not None:
            for p in n[4][0]:
                if p != "_":
                    names.add(p)
    A.walk_program(stmts, f)
    return sorted(names)


def closure_params(stmts):
    names = set()

    def f(n, ctx):
        if n[0] == "call" and n[4] is not None:
            for p in n[4][0]:
                if p != "_":
                    names.add(p)
    A.walk_program(stmts, f)
    return names


def run_real(ctx, stmts, events, extra=None):
    src = A.program_src(stmts)
    req = {"op": "run", "src": src, "ext": {"event": CORE_SCHEMA}, "vars": collect_vars(stmts),
           "hits_max": 64, "events": [{"e": enc(e)} for e in events]}
    if extra:
        req.update(extra)
    return src, ctx.call(req)


def observed_defaults(run):
    """site -> default value observed at `ok, err = e` sites that failed in the real run."""
    hits = run.get("hits", {})
    out = {}
    for tagname, hs in hits.items():
        if not tagname.startswith("err@"):
            continue
        site = tagname[4:]
        oks = hits.get("ok@" + site, [])
        for i, h in enumerate(hs):
            if "v" in h and isinstance(h["v"], (str, dict)) and h["v"] is not None:
                ev = dec(h["v"])
                if type(ev) is bytes and i < len(oks) and "v" in oks[i]:
                    out.setdefault(site, dec(oks[i]["v"]))
    return out


def real_outcome(run):
    """('ok'|'ret'|'abort'|'error'|'panic'|'other', payload)"""
    if "panic" in run:
        return ("panic", run["panic"])
    o = run["out"]
    if "ok" in o:
        return ("ok", dec(o["ok"]))
    if "ret" in o:
        return ("ret", dec(o["ret"]))
    if "abort" in o:
        m = o["abort"]
        return ("abort", None if m is None else m.encode("utf-8"))
    if "error" in o:
        return ("error", o["error"])
    return ("other", o)


def model_run(stmts, event, defaults):
    it = Interp(copy.deepcopy(event), {}, defaults)
    outcome = it.run(stmts)
    return it, outcome


def compare(it, outcome, run, check_vars=True, only_vars=None, skip_vars=()):
    """Returns list of mismatch descriptions (empty = agreement)."""
    mism = []
    rk, rv = real_outcome(run)
    mk, mvv = outcome
    if rk == "panic":
        return [("panic", "real run panicked: %s" % (rv,))]
    if mk != rk:
        mism.append(("outcome", "model %s(%r) vs real %s(%r)" % (mk, mvv, rk, rv)))
    elif mk in ("ok", "ret"):
        if not model_eq(mvv, rv):
            mism.append(("value", "model %s(%r) vs real %s(%r)" % (mk, mvv, rk, rv)))
    elif mk == "abort":
        if mvv != rv:
            mism.append(("abort_message", "model %r vs real %r" % (mvv, rv)))
    ev = dec(run["event"])
    if not model_eq(it.event, ev):
        mism.append(("event", "model %r vs real %r" % (it.event, ev)))
    md = dec(run["meta"])
    if not model_eq(it.meta, md):
        mism.append(("meta", "model %r vs real %r" % (it.meta, md)))
    if check_vars and "vars" in run:
        for name, rj in run["vars"].items():
            if only_vars is not None and name not in only_vars:
                continue
            if name in skip_vars:
                continue
            real_has = rj is not None
            model_has = name in it.vars
            if real_has != model_has:
                mism.append(("var:" + name, "model %s vs real %s" % (
                    repr(it.vars.get(name)) if model_has else "<unset>",
                    repr(dec(rj["v"])) if real_has else "<unset>")))
            elif real_has and not model_eq(it.vars[name], dec(rj["v"])):
                mism.append(("var:" + name, "model %r vs real %r" % (it.vars[name], dec(rj["v"]))))
    return mism


def judge_event(ctx, stmts, event, run, **kw):
    """Run the model for one event and compare. Returns (status, info):
    'skip' reason | 'ok' (it, outcome) | 'mismatch' (list, it, outcome)"""
    defaults = observed_defaults(run)
    try:
        it, outcome = model_run(stmts, event, defaults)
    except Unmodelled as u:
        return ("skip", "unmodelled:" + str(u).split(" ")[0])
    except NeedDefault as nd:
        return ("mismatch", ([("assign2_site", "model: `ok, err =` at %s fails, real run recorded no failure there" % nd.site)], None, None))
    except RecursionError:
        return ("skip", "recursion")
    mism = compare(it, outcome, run, **kw)
    if mism:
        return ("mismatch", (mism, it, outcome))
    return ("ok", (it, outcome))


# ----------------------------------------------------------------------------------------
# shrinking

def _paths_to_stmt_lists(stmts, prefix=()):
    """Yield (container_list, index) for every statement slot, depth first."""
    for i, s in enumerate(stmts):
        yield (stmts, i)
        yield from _inner_lists(s)


def _inner_lists(n):
    if not isinstance(n, list) or not n or not isinstance(n[0], str):
        return
    t = n[0]
    if t == "block":
        yield from _paths_to_stmt_lists(n[1])
    elif t == "if":
        for pred, body in n[1]:
            for e in pred:
                yield from _inner_lists(e)
            yield from _paths_to_stmt_lists(body)
        if n[2] is not None:
            yield from _paths_to_stmt_lists(n[2])
    elif t == "call":
        for _, e in n[2]:
            yield from _inner_lists(e)
        if n[4] is not None:
            yield from _paths_to_stmt_lists(n[4][1])
    elif t in ("arr",):
        for e in n[1]:
            yield from _inner_lists(e)
    elif t == "obj":
        for _, e in n[1]:
            yield from _inner_lists(e)
    elif t == "op":
        yield from _inner_lists(n[2])
        yield from _inner_lists(n[3])
    elif t in ("not", "grp"):
        yield from _inner_lists(n[1])
    elif t in ("assign", "massign"):
        yield from _inner_lists(n[2])
    elif t == "assign2":
        yield from _inner_lists(n[3])
    elif t in ("return",):
        yield from _inner_lists(n[1])
    elif t == "abort":
        if n[1] is not None:
            yield from _inner_lists(n[1])
    elif t == "probe":
        yield from _inner_lists(n[2])


def shrink(stmts, still_fails, budget=60):
    """Greedy statement deletion at every block level. still_fails(stmts) -> bool."""
    best = copy.deepcopy(stmts)
    steps = 0
    changed = True
    while changed and steps < budget:
        changed = False
        slots = list(_paths_to_stmt_lists(best))
        for k in range(len(slots) - 1, -1, -1):
            if steps >= budget:
                break
            cand = copy.deepcopy(best)
            cslots = list(_paths_to_stmt_lists(cand))
            if k >= len(cslots):
                continue
            lst, i = cslots[k]
            if len(lst) <= 1:
                continue
            if lst[i][0] == "probe" and (lst[i][1].startswith("ok@") or lst[i][1].startswith("err@")):
                continue
            if lst[i][0] == "assign2":
                j = i + 1
                while j < len(lst) and lst[j][0] == "probe":
                    j += 1
                if j >= len(lst) and i == 0:
                    continue
                del lst[i:j]
            else:
                del lst[i]
            if not lst:
                continue
            steps += 1
            try:
                if still_fails(cand):
                    best = cand
                    changed = True
                    break
            except Exception:
                continue
    return best


def chain_of(stmts, node_type):
    """Context chain (enclosing constructs) of the first node of the given type."""
    found = []

    def f(n, ctx):
        if n[0] == node_type and not found:
            found.append(ctx)
    A.walk_program(stmts, f)
    if not found:
        return None
    # compress: drop plain blocks/branches, keep the informative constructs
    keep = [c for c in found[0] if c not in ("block", "branch", "grp")]
    return ">".join(keep) if keep else "top"


# ----------------------------------------------------------------------------------------
# generic case runner

def gen_core_case(rng, opts, nevents=6):
    g = Gen(rng, opts)
    stmts = g.program()
    events = [core_event(rng) for _ in range(nevents)]
    return {"stmts": stmts, "events": [enc(e) for e in events], "ctl": g.ctl_sites,
            "params": [list(p) for p in g.params_used]}


def run_core_case(ctx, case, area, classify, coverage, compare_kw=None, judge_filter=None,
                  extra_check=None):
    """classify(small_stmts, mismatches) -> signature ; coverage(stmts, it, outcome, case) ->
    (covkey, nontrivial) | None (not counted)."""
    stmts = case["stmts"]
    events = [dec(e) for e in case["events"]]
    compare_kw = compare_kw or {}
    src, resp = run_real(ctx, stmts, events)
    if "panic" in resp:
        ctx.violation("%s:compile_panic@%s" % (area, resp["panic"]["loc"].rsplit(":", 1)[0]),
                      {"src": src, "panic": resp["panic"]})
        return
    if "bad_request" in resp:
        ctx.skip("harness:bad_request")
        return
    if not resp.get("compiled"):
        codes = sorted(set(str(d["code"]) for d in resp.get("diags", []) if d["sev"] == "error"))
        ctx.skip("rejected:E" + "+".join(codes))
        return
    ctx.count("programs_accepted")
    if ctx.tier == "thorough" and len(ctx.recorded) < 6:
        ctx.record({"op": "run", "src": src, "ext": {"event": CORE_SCHEMA}, "probe": True,
                    "events": [{"e": enc(events[0])}]})
    for event, run in zip(events, resp["runs"]):
        if extra_check is not None:
            for sig, detail in extra_check(resp, run, stmts, event):
                detail = dict(detail)
                detail.update({"src": src, "event": repr(event)})
                ctx.violation(sig, detail, case={"stmts": stmts, "events": [enc(event)]})
        status, info = judge_event(ctx, stmts, event, run, **compare_kw)
        if status == "skip":
            ctx.skip(info)
            continue
        if status == "mismatch" and judge_filter is not None:
            if any(m[0] in ("outcome", "assign2_site", "panic") for m in info[0]):
                # the run diverged from the model before the end: the filtered observables are
                # not comparable; outcome equivalence is judged by C06-C09
                ctx.skip("outcome_diverged")
                continue
            mism = [m for m in info[0] if judge_filter(m)]
            if not mism:
                status, info = "ok", (info[1], info[2])
                if info[0] is None:
                    ctx.skip("model_stopped")
                    continue
            else:
                info = (mism, info[1], info[2])
        if status == "mismatch":
            mism = info[0]
            kinds0 = set(m[0].split(":")[0] for m in mism)

            def still(cand, event=event):
                _, r2 = run_real(ctx, cand, [event])
                if not r2.get("compiled") or "panic" in r2:
                    return False
                st, inf = judge_event(ctx, cand, event, r2["runs"][0], **compare_kw)
                if st != "mismatch":
                    return False
                mm = inf[0]
                if judge_filter is not None:
                    if any(m[0] in ("outcome", "assign2_site", "panic") for m in mm):
                        return False
                    mm = [m for m in mm if judge_filter(m)]
                if "assign2_site" not in kinds0 and any(m[0] == "assign2_site" for m in mm):
                    return False
                return bool(mm) and bool(kinds0 & set(m[0].split(":")[0] for m in mm))
            small = shrink(stmts, still)
            # recompute the mismatch on the minimal program
            _, r2 = run_real(ctx, small, [event])
            mm = mism
            if r2.get("compiled") and "runs" in r2:
                st, inf = judge_event(ctx, small, event, r2["runs"][0], **compare_kw)
                if st == "mismatch":
                    mm = inf[0]
                    if judge_filter is not None:
                        mm = [m for m in mm if judge_filter(m)] or mism
            ctx.violation(classify(small, mm),
                          {"src": A.program_src(small), "event": repr(event),
                           "mismatch": [list(m) for m in mm][:4]},
                          case={"stmts": small, "events": [enc(event)]})
            continue
        it, outcome = info
        cov = coverage(stmts, it, outcome, case)
        if cov is None:
            ctx.ok(None, False)
        else:
            key, nontrivial = cov
            ctx.ok(key, nontrivial, sample={"src": src, "event": repr(event), "outcome": repr(outcome)})


# ----------------------------------------------------------------------------------------
# expression-level shrinking

def _expr_slots(n, out):
    """Collect (container, key) pairs such that container[key] is an expression/statement node."""
    if not isinstance(n, list) or not n or not isinstance(n[0], str):
        return
    t = n[0]
    if t == "arr":
        for i, e in enumerate(n[1]):
            out.append((n[1], i))
            _expr_slots(e, out)
    elif t == "obj":
        for kv in n[1]:
            out.append((kv, 1))
            _expr_slots(kv[1], out)
    elif t == "op":
        for i in (2, 3):
            out.append((n, i))
            _expr_slots(n[i], out)
    elif t in ("not", "grp"):
        out.append((n, 1))
        _expr_slots(n[1], out)
    elif t == "block":
        for i, e in enumerate(n[1]):
            out.append((n[1], i))
            _expr_slots(e, out)
    elif t == "if":
        for pred, body in n[1]:
            for i, e in enumerate(pred):
                out.append((pred, i))
                _expr_slots(e, out)
            for i, e in enumerate(body):
                out.append((body, i))
                _expr_slots(e, out)
        if n[2] is not None:
            for i, e in enumerate(n[2]):
                out.append((n[2], i))
                _expr_slots(e, out)
    elif t in ("assign", "massign"):
        out.append((n, 2))
        _expr_slots(n[2], out)
    elif t == "assign2":
        out.append((n, 3))
        _expr_slots(n[3], out)
    elif t == "return":
        out.append((n, 1))
        _expr_slots(n[1], out)
    elif t == "abort":
        if n[1] is not None:
            out.append((n, 1))
            _expr_slots(n[1], out)
    elif t == "probe":
        out.append((n, 2))
        _expr_slots(n[2], out)
    elif t == "call":
        for a in n[2]:
            out.append((a, 1))
            _expr_slots(a[1], out)
        if n[4] is not None:
            for i, e in enumerate(n[4][1]):
                out.append((n[4][1], i))
                _expr_slots(e, out)


def _child_exprs(n):
    t = n[0]
    if t == "op":
        return [n[2], n[3]]
    if t in ("not", "grp"):
        return [n[1]]
    if t == "block":
        return [n[1][-1]] if n[1] else []
    if t == "if":
        out = []
        for pred, body in n[1]:
            if body:
                out.append(["block", body] if len(body) > 1 else body[-1])
        if n[2]:
            out.append(["block", n[2]] if len(n[2]) > 1 else n[2][-1])
        return out
    if t == "arr":
        return list(n[1])[:2]
    if t == "obj":
        return [e for _, e in n[1]][:2]
    if t == "call":
        return [a[1] for a in n[2]][:2]
    if t in ("assign", "massign"):
        return [n[2]]
    return []


SIMPLE_LITS = [["lit", None], ["lit", 1], ["lit", "a"], ["lit", True], ["lit", {"o": {}}], ["lit", []]]


def shrink_exprs(stmts, still_fails, budget=120):
    best = copy.deepcopy(stmts)
    steps = 0
    changed = True
    while changed and steps < budget:
        changed = False
        top = ["block", best]
        slots = []
        _expr_slots(top, slots)
        for k in range(len(slots)):
            if steps >= budget:
                break
            cont, key = slots[k]
            node = cont[key]
            if not isinstance(node, list) or node[0] in ("lit", "var", "probe"):
                continue
            if node[0] == "path" and len(node[2]) <= 1:
                continue
            cands = _child_exprs(node) + SIMPLE_LITS
            for c in cands:
                if steps >= budget:
                    break
                if c == node:
                    continue
                cand = copy.deepcopy(best)
                ctop = ["block", cand]
                cslots = []
                _expr_slots(ctop, cslots)
                if k >= len(cslots):
                    break
                ccont, ckey = cslots[k]
                ccont[ckey] = copy.deepcopy(c)
                steps += 1
                try:
                    if still_fails(cand):
                        best = cand
                        changed = True
                        break
                except Exception:
                    continue
            if changed:
                break
    return best


def shrink_full(stmts, still_fails, budget=200):
    a = shrink(stmts, still_fails, budget=budget // 3)
    b = shrink_exprs(a, still_fails, budget=budget // 2)
    return shrink(b, still_fails, budget=budget // 4)
