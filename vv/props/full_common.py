"""Shared harness for the whole-program typing properties (C01, C02, C12): generated programs with
statement / wrapper probes, run on schema-conforming events."""
from ..wire import enc, dec, tag
from ..gen import ast as A
from ..gen.program import Gen, Opts, CORE_SCHEMA, core_event
from ..gen import stdlib_args as sa
from . import core_common as cc

# stdlib functions usable in generated programs (deterministic, no closures, no special syntax)
def usable_functions(ctx):
    out = []
    for f in ctx.stdlib():
        if f["id"] in sa.SKIP_SIGNATURE or f["id"] in sa.NONDETERMINISTIC or f["closure"]:
            continue
        if f["id"] in ("del", "exists", "assert", "assert_eq", "log", "encode_proto", "parse_proto",
                       "format_number", "zip", "encode_zstd"):
            continue
        out.append(f)
    return out


INTERESTING = ("call:", "if", "assign2", "op??", "op||", "op&&", "massign", "return", "abort")


def interesting_kinds(stmts):
    ks = A.node_kinds(stmts)
    out = set()
    for k in ks:
        if k.startswith("call:"):
            name = k[5:]
            if name != "probe":
                out.add(name)
        elif k in INTERESTING:
            out.add(k)

    def f(n, ctx):
        if n[0] == "call" and n[4] is not None:
            out.add("closure")
        if n[0] in ("assign", "massign") and n[1][0] == "tvar" and n[1][2]:
            out.add("var_path_assign")
        if n[0] == "call" and n[1] == "del":
            q = n[2][0][1]
            if q[0] == "path" and q[1] not in (".", "%"):
                out.add("del_var_path")
    A.walk_program(stmts, f)
    return sorted(out)


def gen_full_case(rng, opts, nevents=4):
    g = Gen(rng, opts)
    stmts = g.program()
    events = [core_event(rng) for _ in range(nevents)]
    return {"stmts": stmts, "events": [enc(e) for e in events], "probe_info": g.probe_info}


def run_full(ctx, stmts, events, snapshot=False, hits_max=8):
    return cc.run_real(ctx, stmts, events, extra={"snapshot": snapshot, "hits_max": hits_max})


CLOSURE_FNS = ("closure", "map_keys", "map_values", "filter", "for_each")
CONSTRUCTS = ("return", "abort", "assign2", "massign", "op??", "op||", "op&&", "if", "var_path_assign", "del_var_path",
              "del", "exists", "closure") + CLOSURE_FNS


# type assertions / coercions: they pass their argument through, never the root cause of a type hole
COERCIONS = ("int", "float", "bool", "string", "array", "object", "timestamp", "to_string", "to_int", "to_float", "to_bool")


def side_effect_contexts(stmts):
    """Set of enclosing-construct labels under which an assignment / del occurs."""
    out = set()

    def f(n, ctx):
        if n[0] in ("assign", "massign", "assign2") or (n[0] == "call" and n[1] == "del"):
            for c in ctx:
                if c in ("object", "array"):
                    out.add("literal")
                elif c.startswith("arg:") and c not in ("arg:del", "arg:probe"):
                    out.add("argument")
                elif c.startswith("closure:"):
                    out.add("closure")
    A.walk_program(stmts, f)
    return out


def cause(small):
    """Root-cause family of a minimal failing program (coarse on purpose: one family = one known
    upstream design issue; see DESIGN.md section 10.2)."""
    kinds = interesting_kinds(small)
    nk = A.node_kinds(small)
    if any(k in kinds for k in CLOSURE_FNS):
        return "closure"
    ctxs = side_effect_contexts(small)
    if "argument" in ctxs:
        return "argument_side_effect"
    if "literal" in ctxs:
        return "literal_evaluation_order"
    if "del_var_path" in kinds or "var_path_assign" in kinds:
        return "path_on_local_variable"
    if "op|" in nk or "massign" in kinds:
        return "object_merge"
    fns = [k for k in kinds if k not in CONSTRUCTS and not k.startswith("op") and k not in COERCIONS]
    if fns:
        return "fn:" + fns[0]
    if "assign2" in kinds or "op??" in kinds:
        return "error_path"
    for c in ("return", "op||", "op&&", "if"):
        if c in kinds:
            return c
    return "plain"
