"""Shared workload for the stdlib-wide properties (C03 typing, C04 panics, C05 termination):
signature-directed calls of every stdlib function, with typed and untyped argument delivery."""
from ..wire import enc, dec, tag
from ..gen import stdlib_args as sa
from ..gen.lit import NotLiteral

NEVENTS = 12
FALLIBLE_CODES = {100, 103, 110, 630, 631}


def functions(ctx):
    return [f for f in ctx.stdlib() if f["id"] not in sa.SKIP_SIGNATURE]


def gen_call_case(ctx, rng, wrong_kind_p=0.0, nevents=NEVENTS, only=None, literal_p=0.25):
    fs = functions(ctx)
    if only:
        fs = [f for f in fs if f["id"] in only]
    f = rng.choice(fs)
    typed = rng.random() < 0.7 and wrong_kind_p == 0.0
    call = sa.choose_call(rng, f, wrong_kind_p=wrong_kind_p, literal_p=literal_p)
    rows = [sa.choose_values(rng, call) for _ in range(nevents)]
    # literal-form params take the first row's value in every event
    for r in rows[1:]:
        for i, (_, _, form) in enumerate(call.used):
            if form == "lit":
                r[i] = rows[0][i]
    tight = typed and rng.random() < 0.5
    if tight:
        # homogeneous collections (half of the tight slots): keep only the elements of one value kind in
        # every row, so that the declared element kind is narrow and whatever else the function puts
        # into its result (appended / pushed / merged items, defaults) falls outside it unless typed
        for i, (_, kind, form) in enumerate(call.used):
            if form != "event" or kind not in ("array", "object") or rng.random() < 0.4:
                continue
            tags = sorted({tag(e) for r in rows if tag(r[i]) == kind
                           for e in (r[i] if kind == "array" else r[i].values())})
            if not tags:
                continue
            keep = rng.choice(tags)
            for r in rows:
                if tag(r[i]) != kind:
                    continue
                if kind == "array":
                    r[i] = [e for e in r[i] if tag(e) == keep]
                else:
                    r[i] = {k: e for k, e in r[i].items() if tag(e) == keep}
    return {"fn": f["id"], "used": [[p["keyword"], kind, form] for p, kind, form in call.used],
            "closure": call.closure, "typed": typed, "tight": tight,
            "rows": [[enc(v) for v in r] for r in rows]}


def rebuild_call(ctx, case):
    f = next(x for x in ctx.stdlib() if x["id"] == case["fn"])
    used = []
    for kw, kind, form in case["used"]:
        p = next(q for q in f["params"] if q["keyword"] == kw)
        used.append((p, kind, form))
    return sa.Call(f, used, case["closure"])


def exec_call_case(ctx, case, cpu_limit=20.0, extra=None):
    """Returns None (skipped; reason recorded) or dict(src, bang, resp, rows, call)."""
    call = rebuild_call(ctx, case)
    rows = [[dec(v) for v in r] for r in case["rows"]]
    try:
        src0 = call.render(False, rows[0])
        src1 = call.render(True, rows[0])
    except NotLiteral:
        ctx.skip("not_literal")
        return None
    events = []
    for r in rows:
        ev = {}
        for i, (_, _, form) in enumerate(call.used):
            if form == "event":
                ev["a%d" % i] = r[i]
        events.append({"e": enc(ev)})
    base = {"op": "run", "probe": False, "ext": {"event": call.schema(case["typed"], rows if case.get("tight") else None)}, "events": events}
    if extra:
        base.update(extra)
    req = dict(base)
    req["src"] = src0
    resp = ctx.call(req, cpu_limit=cpu_limit)
    bang = False
    if not resp.get("compiled") and "panic" not in resp:
        codes = set(d["code"] for d in resp.get("diags", []) if d["sev"] == "error")
        if codes & FALLIBLE_CODES:
            req = dict(base)
            req["src"] = src1
            resp2 = ctx.call(req, cpu_limit=cpu_limit)
            if resp2.get("compiled") or "panic" in resp2:
                resp, bang = resp2, True
    return {"src": src1 if bang else src0, "bang": bang, "resp": resp, "rows": rows, "call": call}


def reject_reason(resp):
    codes = sorted(set(str(d["code"]) for d in resp.get("diags", []) if d["sev"] == "error"))
    return "rejected:E" + "+".join(codes)


def arg_class(v):
    """Coarse class of an argument value for coverage keys / signatures."""
    t = tag(v)
    if t == "integer":
        if v == 0:
            return "int0"
        if abs(v) < 64:
            return "int_small" if v > 0 else "int_neg_small"
        if v in (sa.gv.I64_MAX, sa.gv.I64_MIN):
            return "int_extreme"
        return "int_big" if v > 0 else "int_neg_big"
    if t == "float":
        if v != v or v in (float("inf"), float("-inf")):
            return "float_nonfinite"
        if v == 0:
            return "float0"
        return "float_huge" if abs(v) > 1e18 else "float_tiny" if abs(v) < 1e-9 else "float"
    if t == "bytes":
        if not v:
            return "str_empty"
        try:
            v.decode("utf-8")
        except UnicodeDecodeError:
            return "str_invalid_utf8"
        return "str_long" if len(v) > 40 else "str"
    if t in ("array", "object"):
        return t + ("_empty" if not v else "")
    return t
