"""Sanitizer tiers: the worker's `--replay-file` mode executes a recorded request workload without
Python in the loop, under Miri (undefined behaviour / data races in pure-Rust code, notably the
unsafe recursive iterator of src/value/value/iter.rs) or under ThreadSanitizer (-Zbuild-std).
Outcomes are three-valued: clean / report (violation) / inconclusive (build or tool failure)."""
import fcntl
import json
import os
import re
import subprocess
import time

from .pool import ROOT

BUILD = os.path.join(ROOT, ".build")
WORKER_DIR = os.path.join(ROOT, "worker")


def _env(extra):
    env = dict(os.environ)
    env["CARGO_NET_OFFLINE"] = "true"
    env.setdefault("TZ", "UTC")
    env.pop("RUSTFLAGS", None)
    env.update(extra)
    return env


def _write(requests, name):
    os.makedirs(os.path.join(BUILD, "rec"), exist_ok=True)
    path = os.path.join(BUILD, "rec", name + ".jsonl")
    with open(path, "w") as f:
        for r in requests:
            f.write(json.dumps(r, separators=(",", ":")) + "\n")
    return path


def _tail(s, n=1500):
    return s[-n:] if len(s) > n else s


def miri_replay(requests, name, many_seeds=None, timeout=3600):
    """Returns dict(status='clean'|'report'|'inconclusive', ...)."""
    path = _write(requests, "miri-" + name)
    flags = "-Zmiri-disable-isolation"
    if many_seeds:
        flags += " -Zmiri-many-seeds=0..%d" % many_seeds
    t0 = time.time()
    lock = open(os.path.join(BUILD, "miri.lock"), "w")
    fcntl.flock(lock, fcntl.LOCK_EX)
    try:
        p = subprocess.run(["cargo", "+nightly", "miri", "run", "--offline", "--", "--replay-file", path],
                           cwd=WORKER_DIR, env=_env({"CARGO_TARGET_DIR": os.path.join(BUILD, "miri"), "MIRIFLAGS": flags}),
                           stdout=subprocess.PIPE, stderr=subprocess.PIPE, timeout=timeout)
    except subprocess.TimeoutExpired:
        return {"status": "inconclusive", "reason": "miri_timeout", "wall_s": round(time.time() - t0, 1)}
    finally:
        fcntl.flock(lock, fcntl.LOCK_UN)
        lock.close()
    out, err = p.stdout.decode("utf-8", "replace"), p.stderr.decode("utf-8", "replace")
    res = {"wall_s": round(time.time() - t0, 1), "requests": len(requests)}
    m = re.search(r"error: (Undefined Behavior|.*[Dd]ata race).*", err)
    if m:
        first = m.group(0)[:200]
        loc = re.search(r"--> (\S+?):\d+", err[m.start():])
        res.update(status="report", kind=first, location=loc.group(1) if loc else "?", stderr=_tail(err))
        return res
    if "error: unsupported operation" in err or "could not compile" in err or p.returncode not in (0,):
        summary = [l for l in out.splitlines() if '"replayed"' in l]
        if summary and p.returncode == 0:
            pass
        else:
            res.update(status="inconclusive", reason="miri_failed(rc=%s)" % p.returncode, stderr=_tail(err))
            return res
    summary = [l for l in out.splitlines() if '"replayed"' in l]
    if not summary:
        res.update(status="inconclusive", reason="no_replay_summary", stderr=_tail(err))
        return res
    res.update(status="clean", summary=json.loads(summary[-1]))
    return res


def tsan_replay(requests, name, timeout=3600):
    path = _write(requests, "tsan-" + name)
    t0 = time.time()
    lock = open(os.path.join(BUILD, "tsan.lock"), "w")
    fcntl.flock(lock, fcntl.LOCK_EX)
    try:
        env = _env({"CARGO_TARGET_DIR": os.path.join(BUILD, "tsan"),
                    "RUSTFLAGS": "-Zsanitizer=thread -Cunsafe-allow-abi-mismatch=sanitizer"})
        b = subprocess.run(["cargo", "+nightly", "build", "--offline", "-Zbuild-std", "--target",
                            "x86_64-unknown-linux-gnu", "--profile", "verif"],
                           cwd=WORKER_DIR, env=env, stdout=subprocess.PIPE, stderr=subprocess.STDOUT, timeout=timeout)
        if b.returncode != 0:
            return {"status": "inconclusive", "reason": "tsan_build_failed", "output": _tail(b.stdout.decode("utf-8", "replace")),
                    "wall_s": round(time.time() - t0, 1)}
        binary = os.path.join(BUILD, "tsan", "x86_64-unknown-linux-gnu", "verif", "vv-worker")
        renv = _env({"TSAN_OPTIONS": "halt_on_error=0 exitcode=66"})
        p = subprocess.run([binary, "--replay-file", path], env=renv, stdout=subprocess.PIPE, stderr=subprocess.PIPE,
                           timeout=timeout)
    except subprocess.TimeoutExpired:
        return {"status": "inconclusive", "reason": "tsan_timeout", "wall_s": round(time.time() - t0, 1)}
    finally:
        fcntl.flock(lock, fcntl.LOCK_UN)
        lock.close()
    out, err = p.stdout.decode("utf-8", "replace"), p.stderr.decode("utf-8", "replace")
    res = {"wall_s": round(time.time() - t0, 1), "requests": len(requests)}
    nrep = err.count("WARNING: ThreadSanitizer")
    if nrep or p.returncode == 66:
        m = re.search(r"WARNING: ThreadSanitizer: ([^\n]*)", err)
        frames = re.findall(r"#\d+ (\S+) .*?(/repo/\S+?):\d+", err)
        res.update(status="report", kind=m.group(1) if m else "report", reports=nrep,
                   location=frames[0][1].replace("/repo/", "") if frames else "?", stderr=_tail(err, 3000))
        return res
    summary = [l for l in out.splitlines() if '"replayed"' in l]
    if p.returncode != 0 or not summary:
        res.update(status="inconclusive", reason="tsan_run_failed(rc=%s)" % p.returncode, stderr=_tail(err))
        return res
    res.update(status="clean", summary=json.loads(summary[-1]))
    return res


def memcheck_replay(requests, name, timeout=2400):
    """valgrind memcheck over the plain verif build of the worker (no rebuild needed; ~25x). Unlike
    Miri it follows the C code of the FFI dependencies (zstd). Leak checking is off: the worker keeps
    caches alive on purpose."""
    from .pool import WORKER_BIN
    path = _write(requests, "memcheck-" + name)
    t0 = time.time()
    log = os.path.join(BUILD, "rec", "memcheck-%s.log" % name)
    try:
        p = subprocess.run(["valgrind", "--tool=memcheck", "--error-exitcode=99", "--leak-check=no",
                            "--num-callers=30", "--log-file=" + log, WORKER_BIN, "--replay-file", path],
                           env=_env({}), stdout=subprocess.PIPE, stderr=subprocess.PIPE, timeout=timeout)
    except subprocess.TimeoutExpired:
        return {"status": "inconclusive", "reason": "memcheck_timeout", "wall_s": round(time.time() - t0, 1)}
    except OSError as e:
        return {"status": "inconclusive", "reason": "valgrind_unavailable: %s" % e}
    out = p.stdout.decode("utf-8", "replace")
    try:
        err = open(log, errors="replace").read()
    except OSError:
        err = ""
    res = {"wall_s": round(time.time() - t0, 1), "requests": len(requests)}
    kinds = re.findall(r"==\d+== (Invalid (?:read|write|free)[^\n]*|Conditional jump or move depends on uninitialised[^\n]*|"
                       r"Use of uninitialised value[^\n]*|Mismatched free[^\n]*|Source and destination overlap[^\n]*|"
                       r"Syscall param [^\n]*uninitialised[^\n]*)", err)
    m = re.search(r"ERROR SUMMARY: (\d+) errors", err)
    nerr = int(m.group(1)) if m else None
    if kinds or p.returncode == 99:
        frames = re.findall(r"(?:at|by) 0x[0-9A-F]+: (\S+) \(([^)]*)\)", err)
        loc = next((f[0] for f in frames if not f[0].startswith(("malloc", "free", "realloc", "calloc", "mem"))), "?")
        res.update(status="report", kind=kinds[0] if kinds else "memcheck error", reports=nerr or len(kinds),
                   location=loc, stderr=_tail(err, 4000))
        return res
    summary = [l for l in out.splitlines() if '"replayed"' in l]
    if p.returncode != 0 or not summary or nerr is None:
        res.update(status="inconclusive", reason="memcheck_run_failed(rc=%s)" % p.returncode, stderr=_tail(err))
        return res
    res.update(status="clean", summary=json.loads(summary[-1]), error_summary=nerr)
    return res
