"""Lossless VRL value <-> JSON wire format (mirror of worker/src/wire.rs).

Python-side value model:
  None, bool, int (i64), float (never NaN), bytes, list, dict[str, value], Ts(secs, nanos), Rx(src)
VRL strings are bytes; all text is carried as Python `bytes`.
"""
import struct


class Ts(tuple):
    """Timestamp: (unix seconds, nanoseconds)."""
    __slots__ = ()

    def __new__(cls, secs, nanos=0):
        return tuple.__new__(cls, (int(secs), int(nanos)))

    @property
    def secs(self):
        return self[0]

    @property
    def nanos(self):
        return self[1]

    def ns(self):
        return self[0] * 1_000_000_000 + self[1]

    def __repr__(self):
        return "Ts(%d,%d)" % (self[0], self[1])


class Rx(str):
    """Regex value (its source)."""
    __slots__ = ()

    def __repr__(self):
        return "Rx(%s)" % str.__repr__(self)


def f2bits(f):
    return struct.unpack("<Q", struct.pack("<d", f))[0]


def bits2f(b):
    return struct.unpack("<d", struct.pack("<Q", b))[0]


def enc(v):
    if v is None or v is True or v is False:
        return v
    t = type(v)
    if t is int:
        return v
    if t is float:
        return {"f": f2bits(v)}
    if t is bytes or t is bytearray:
        try:
            return v.decode("utf-8")
        except UnicodeDecodeError:
            return {"b": v.hex()}
    if t is str:  # convenience: treat str as UTF-8 bytes
        return v
    if t is list or t is tuple:
        return [enc(x) for x in v]
    if t is dict:
        return {"o": {k: enc(x) for k, x in v.items()}}
    if t is Ts:
        return {"t": [v[0], v[1]]}
    if t is Rx:
        return {"r": str(v)}
    raise TypeError("cannot encode %r" % (v,))


def dec(j):
    if j is None or j is True or j is False:
        return j
    t = type(j)
    if t is int:
        return j
    if t is str:
        return j.encode("utf-8")
    if t is list:
        return [dec(x) for x in j]
    if t is dict:
        (k, v), = j.items()
        if k == "o":
            return {kk: dec(x) for kk, x in sorted(v.items(), key=lambda kv: kv[0].encode("utf-8"))}
        if k == "f":
            return bits2f(v)
        if k == "b":
            return bytes.fromhex(v)
        if k == "t":
            return Ts(v[0], v[1])
        if k == "r":
            return Rx(v)
    raise TypeError("cannot decode %r" % (j,))


def opt(j):
    """Decode an optional {"v":..} / null."""
    if j is None:
        return (False, None)
    return (True, dec(j["v"]))


def tag(v):
    """VRL kind name of a value."""
    if v is None:
        return "null"
    t = type(v)
    if t is bool:
        return "boolean"
    if t is int:
        return "integer"
    if t is float:
        return "float"
    if t is bytes:
        return "bytes"
    if t is list:
        return "array"
    if t is dict:
        return "object"
    if t is Ts:
        return "timestamp"
    if t is Rx:
        return "regex"
    raise TypeError(repr(v))


def veq(a, b, float_bits=False):
    """Strict structural equality (bool != int, int != float). Floats compare by value
    (0.0 == -0.0, as vrl's Value does) unless float_bits."""
    ta, tb = type(a), type(b)
    if ta is not tb:
        return False
    if ta is list:
        return len(a) == len(b) and all(veq(x, y, float_bits) for x, y in zip(a, b))
    if ta is dict:
        if a.keys() != b.keys():
            return False
        return all(veq(a[k], b[k], float_bits) for k in a)
    if ta is float and float_bits:
        return f2bits(a) == f2bits(b)
    return a == b


def show(v, limit=300):
    s = repr(v)
    return s if len(s) <= limit else s[:limit] + "..."
