//! Kind export (through public accessors only) and Kind construction from a JSON spec.
//!
//! KIND = {"never":true}
//!      | {"p":[prim..], "a":COLL?, "o":COLL?}
//! COLL = {"k":{key:KIND}, "u":KIND | {"inf":[prim-or-container flags]}}
//! Build spec additionally accepts "any" / "json" as a KIND, and {"inf":"any"|"json"} as "u".

use std::collections::BTreeMap;

use serde_json::{Map, Value as J, json};
use vrl::value::Kind;
use vrl::value::kind::{Collection, Field, Index};

fn flags(k: &Kind, with_containers: bool) -> Vec<J> {
    let mut p = Vec::new();
    if k.is_never() {
        return p;
    }
    if k.contains_bytes() {
        p.push(json!("bytes"));
    }
    if k.contains_integer() {
        p.push(json!("integer"));
    }
    if k.contains_float() {
        p.push(json!("float"));
    }
    if k.contains_boolean() {
        p.push(json!("boolean"));
    }
    if k.contains_timestamp() {
        p.push(json!("timestamp"));
    }
    if k.contains_regex() {
        p.push(json!("regex"));
    }
    if k.contains_null() {
        p.push(json!("null"));
    }
    if k.contains_undefined() {
        p.push(json!("undefined"));
    }
    if with_containers {
        if k.contains_array() {
            p.push(json!("array"));
        }
        if k.contains_object() {
            p.push(json!("object"));
        }
    }
    p
}

fn export_unknown(unknown_kind: Kind, exact: bool, depth: usize) -> J {
    if exact {
        export_depth(&unknown_kind, depth + 1)
    } else {
        json!({"inf": flags(&unknown_kind, true)})
    }
}

fn export_depth(k: &Kind, depth: usize) -> J {
    if k.is_never() {
        return json!({"never": true});
    }
    if depth > 64 {
        return json!({"toodeep": true});
    }
    let mut m = Map::new();
    m.insert("p".into(), J::Array(flags(k, false)));
    if let Some(a) = k.as_array() {
        let mut known = Map::new();
        for (i, kk) in a.known() {
            known.insert(i.to_usize().to_string(), export_depth(kk, depth + 1));
        }
        m.insert(
            "a".into(),
            json!({"k": J::Object(known), "u": export_unknown(a.unknown_kind(), a.is_unknown_exact(), depth)}),
        );
    }
    if let Some(o) = k.as_object() {
        let mut known = Map::new();
        for (f, kk) in o.known() {
            known.insert(f.as_str().to_string(), export_depth(kk, depth + 1));
        }
        m.insert(
            "o".into(),
            json!({"k": J::Object(known), "u": export_unknown(o.unknown_kind(), o.is_unknown_exact(), depth)}),
        );
    }
    J::Object(m)
}

pub fn export(k: &Kind) -> J {
    export_depth(k, 0)
}

fn build_unknown(j: &J) -> Result<Kind, String> {
    if let Some(inf) = j.get("inf") {
        return match inf.as_str() {
            Some("any") => Ok(Kind::any()),
            Some("json") => Ok(Kind::json()),
            _ => {
                // a flag list: only any/json are constructible through the public API
                let fl: Vec<&str> = inf
                    .as_array()
                    .ok_or("inf: bad")?
                    .iter()
                    .filter_map(J::as_str)
                    .collect();
                if fl.contains(&"timestamp") || fl.contains(&"regex") {
                    Ok(Kind::any())
                } else {
                    Ok(Kind::json())
                }
            }
        };
    }
    build(j)
}

pub fn build(j: &J) -> Result<Kind, String> {
    if let Some(s) = j.as_str() {
        return match s {
            "any" => Ok(Kind::any()),
            "json" => Ok(Kind::json()),
            "never" => Ok(Kind::never()),
            "any_object" => Ok(Kind::object(Collection::any())),
            _ => Err(format!("unknown kind name {s}")),
        };
    }
    if j.get("never").is_some() {
        return Ok(Kind::never());
    }
    let mut k = Kind::never();
    if let Some(p) = j.get("p").and_then(J::as_array) {
        for f in p {
            match f.as_str().unwrap_or("") {
                "bytes" => {
                    k.add_bytes();
                }
                "integer" => {
                    k.add_integer();
                }
                "float" => {
                    k.add_float();
                }
                "boolean" => {
                    k.add_boolean();
                }
                "timestamp" => {
                    k.add_timestamp();
                }
                "regex" => {
                    k.add_regex();
                }
                "null" => {
                    k.add_null();
                }
                "undefined" => {
                    k.add_undefined();
                }
                other => return Err(format!("unknown prim {other}")),
            }
        }
    }
    if let Some(a) = j.get("a") {
        let mut known: BTreeMap<Index, Kind> = BTreeMap::new();
        if let Some(kn) = a.get("k").and_then(J::as_object) {
            for (i, kk) in kn {
                let idx: usize = i.parse().map_err(|_| "bad index")?;
                known.insert(Index::from(idx), build(kk)?);
            }
        }
        let unknown = match a.get("u") {
            Some(u) => build_unknown(u)?,
            None => Kind::undefined(),
        };
        k.add_array(Collection::from_parts(known, unknown));
    }
    if let Some(o) = j.get("o") {
        let mut known: BTreeMap<Field, Kind> = BTreeMap::new();
        if let Some(kn) = o.get("k").and_then(J::as_object) {
            for (f, kk) in kn {
                known.insert(Field::from(f.as_str()), build(kk)?);
            }
        }
        let unknown = match o.get("u") {
            Some(u) => build_unknown(u)?,
            None => Kind::undefined(),
        };
        k.add_object(Collection::from_parts(known, unknown));
    }
    Ok(k)
}
