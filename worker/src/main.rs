//! vv-worker: JSON-lines server exposing the real vrl compiler/runtime/stdlib to the
//! Python monitors. One request per line on stdin, one response per line on stdout.

mod kinds;
mod ops;
mod probe;
mod run;
mod targets;
mod wire;

use std::cell::RefCell;
use std::io::{BufRead, Write};
use std::panic::{AssertUnwindSafe, catch_unwind};

use serde_json::{Value as J, json};

thread_local! {
    pub static LAST_PANIC: RefCell<Option<(String, String)>> = const { RefCell::new(None) };
}

pub fn take_panic() -> J {
    LAST_PANIC.with(|p| match p.borrow_mut().take() {
        Some((msg, loc)) => json!({"msg": msg, "loc": loc}),
        None => json!({"msg": "unknown panic", "loc": "?"}),
    })
}

/// Run f under catch_unwind; Err carries {"msg","loc"}.
pub fn guarded<T>(f: impl FnOnce() -> T) -> Result<T, J> {
    match catch_unwind(AssertUnwindSafe(f)) {
        Ok(v) => Ok(v),
        Err(_) => Err(take_panic()),
    }
}

fn install_hook() {
    std::panic::set_hook(Box::new(|info| {
        let msg = if let Some(s) = info.payload().downcast_ref::<&str>() {
            (*s).to_string()
        } else if let Some(s) = info.payload().downcast_ref::<String>() {
            s.clone()
        } else {
            "non-string panic".to_string()
        };
        let loc = info
            .location()
            .map(|l| format!("{}:{}", l.file(), l.line()))
            .unwrap_or_else(|| "?".into());
        LAST_PANIC.with(|p| *p.borrow_mut() = Some((msg, loc)));
    }));
}

fn handle(req: &J) -> J {
    let op = req.get("op").and_then(J::as_str).unwrap_or("");
    let r = guarded(|| match op {
        "ping" => json!({"pong": true}),
        "echo" => match wire::from_json(&req["v"]) {
            Ok(v) => json!({"v": wire::to_json(&v)}),
            Err(e) => json!({"bad_request": e}),
        },
        "run" => run::run(req),
        "stdlib" => ops::describe_stdlib(),
        "value_ops" => ops::value_ops(req),
        "kind_ops" => ops::kind_ops(req),
        "path_ops" => ops::path_ops(req),
        "path_exhaustive" => ops::path_exhaustive(req),
        "conversion" => ops::conversion(req),
        "dd" => ops::dd(req),
        "serde" => ops::serde_roundtrip(req),
        "threads" => run::threads(req),
        "reuse" => run::reuse(req),
        // Deliberate read of uninitialised heap memory: used only by tools/sanitizer_selftest.py to
        // show that the Miri / memcheck tiers do report when there is something to report.
        "selftest_uninit" => {
            let v: Vec<u8> = Vec::with_capacity(64);
            #[allow(unsafe_code)]
            let b = unsafe { std::ptr::read_volatile(v.as_ptr().add(3)) };
            json!({"selftest": if b == 7 { "seven" } else { "other" }})
        }
        _ => json!({"bad_request": format!("unknown op {op}")}),
    });
    match r {
        Ok(j) => j,
        Err(p) => json!({"panic": p, "where": "request"}),
    }
}

fn main() {
    install_hook();
    let args: Vec<String> = std::env::args().collect();
    let stdin = std::io::stdin();
    let stdout = std::io::stdout();
    let mut out = std::io::BufWriter::new(stdout.lock());
    if args.len() >= 3 && args[1] == "--replay-file" {
        // Execute a recorded workload without Python in the loop (sanitizer tiers).
        let f = std::fs::File::open(&args[2]).expect("open replay file");
        let mut n = 0usize;
        let mut panics = 0usize;
        let mut mismatches = 0usize;
        for line in std::io::BufReader::new(f).lines() {
            let line = line.expect("read");
            if line.trim().is_empty() {
                continue;
            }
            let req: J = serde_json::from_str(&line).expect("json");
            let resp = handle(&req);
            n += 1;
            let s = resp.to_string();
            if s.contains("\"panic\":{") {
                panics += 1;
                writeln!(out, "{s}").unwrap();
            } else if s.contains("\"mismatches\":[{") {
                mismatches += 1;
                writeln!(out, "{s}").unwrap();
            }
        }
        writeln!(out, "{}", json!({"replayed": n, "panics": panics, "mismatches": mismatches})).unwrap();
        out.flush().unwrap();
        return;
    }
    for line in stdin.lock().lines() {
        let Ok(line) = line else { break };
        if line.trim().is_empty() {
            continue;
        }
        let resp = match serde_json::from_str::<J>(&line) {
            Ok(req) => handle(&req),
            Err(e) => json!({"bad_request": e.to_string()}),
        };
        if writeln!(out, "{resp}").is_err() {
            break;
        }
        if out.flush().is_err() {
            break;
        }
    }
}
