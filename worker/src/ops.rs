//! Non-program requests: stdlib metadata, value / kind / path operations, conversions,
//! Datadog search round-trip, serde round-trip.

use std::str::FromStr;

use serde_json::{Map, Value as J, json};
use vrl::compiler::TimeZone;
use vrl::compiler::conversion::Conversion;
use vrl::path::{
    OwnedSegment, OwnedTargetPath, OwnedValuePath, PathPrefix, parse_target_path,
    parse_value_path,
};
use vrl::value::kind::merge::{CollisionStrategy, Strategy};
use vrl::value::{Kind, Value};

use crate::{guarded, kinds, wire};

pub fn describe_stdlib() -> J {
    let mut out = Vec::new();
    for f in vrl::stdlib::all() {
        let params: Vec<J> = f
            .parameters()
            .iter()
            .map(|p| {
                json!({
                    "keyword": p.keyword,
                    "kind": p.kind,
                    "required": p.required,
                    "default": p.default.map(|d| json!({"v": wire::to_json(d)})),
                    "enum": p.enum_variants.map(|vs| vs.iter().map(|v| v.value).collect::<Vec<_>>()),
                })
            })
            .collect();
        let examples: Vec<J> = f
            .examples()
            .iter()
            .map(|e| {
                json!({
                    "source": e.source,
                    "input": e.input,
                    "result": match e.result { Ok(s) => json!({"ok": s}), Err(s) => json!({"err": s}) },
                    "deterministic": e.deterministic,
                    "skip": e.skip,
                })
            })
            .collect();
        out.push(json!({
            "id": f.identifier(),
            "params": params,
            "return_kind": f.return_kind(),
            "closure": f.closure().is_some(),
            "pure": f.pure(),
            "category": f.category(),
            "examples": examples,
        }));
    }
    json!({"functions": out})
}

pub fn parse_segments(j: &J) -> Result<Vec<OwnedSegment>, String> {
    let mut segs = Vec::new();
    for s in j.as_array().ok_or("path: not array")? {
        if let Some(f) = s.get("f").and_then(J::as_str) {
            segs.push(OwnedSegment::field(f));
        } else if let Some(i) = s.get("i").and_then(J::as_i64) {
            segs.push(OwnedSegment::index(i as isize));
        } else {
            return Err("bad segment".into());
        }
    }
    Ok(segs)
}

pub fn segments_json(p: &OwnedValuePath) -> J {
    J::Array(
        p.segments
            .iter()
            .map(|s| match s {
                OwnedSegment::Field(f) => json!({"f": f.as_str()}),
                OwnedSegment::Index(i) => json!({"i": *i as i64}),
            })
            .collect(),
    )
}

fn opt(v: Option<&Value>) -> J {
    match v {
        Some(v) => json!({"v": wire::to_json(v)}),
        None => J::Null,
    }
}

fn value_ops_inner(v: &Value, path: &OwnedValuePath, x: Option<&Value>) -> Map<String, J> {
    let mut out = Map::new();
    out.insert("get".into(), opt(v.get(path)));
    if let Some(x) = x {
        let mut w = v.clone();
        let old = w.insert(path, x.clone());
        out.insert(
            "ins".into(),
            json!({"val": wire::to_json(&w), "old": opt(old.as_ref()), "get": opt(w.get(path))}),
        );
    }
    for (name, prune) in [("rem0", false), ("rem1", true)] {
        let mut w = v.clone();
        let ret = w.remove(path, prune);
        out.insert(
            name.into(),
            json!({"val": wire::to_json(&w), "ret": opt(ret.as_ref())}),
        );
    }
    out
}

/// {"v":V,"path":[..],"x":V?}
pub fn value_ops(req: &J) -> J {
    let v = match wire::from_json(&req["v"]) {
        Ok(v) => v,
        Err(e) => return json!({"bad_request": e}),
    };
    let segs = match parse_segments(&req["path"]) {
        Ok(s) => s,
        Err(e) => return json!({"bad_request": e}),
    };
    let path = OwnedValuePath::from(segs);
    let x = match req.get("x") {
        Some(x) => match wire::from_json(x) {
            Ok(x) => Some(x),
            Err(e) => return json!({"bad_request": e}),
        },
        None => None,
    };
    J::Object(value_ops_inner(&v, &path, x.as_ref()))
}

/// {"k":KIND,"k2":KIND?,"xk":KIND?,"path":[..],"v":V?,"x":V?,"w":V?}
pub fn kind_ops(req: &J) -> J {
    let k = match kinds::build(&req["k"]) {
        Ok(k) => k,
        Err(e) => return json!({"bad_request": e}),
    };
    let segs = match parse_segments(&req["path"]) {
        Ok(s) => s,
        Err(e) => return json!({"bad_request": e}),
    };
    let path = OwnedValuePath::from(segs);
    let mut out = Map::new();
    out.insert("k".into(), kinds::export(&k));
    let r = guarded(|| kinds::export(&k.at_path(&path)));
    out.insert("at".into(), r.unwrap_or_else(|p| json!({"panic": p})));
    let r = guarded(|| kinds::export(&k.get(&path)));
    out.insert("get".into(), r.unwrap_or_else(|p| json!({"panic": p})));
    if let Some(xk) = req.get("xk") {
        match kinds::build(xk) {
            Ok(xk) => {
                out.insert("xk".into(), kinds::export(&xk));
                if !path.is_root() {
                    let r = guarded(|| {
                        let mut kk = k.clone();
                        kk.insert(&path, xk.clone());
                        kinds::export(&kk)
                    });
                    out.insert("ins".into(), r.unwrap_or_else(|p| json!({"panic": p})));
                }
            }
            Err(e) => return json!({"bad_request": e}),
        }
    }
    for (name, prune) in [("rem0", false), ("rem1", true)] {
        let r = guarded(|| {
            let mut kk = k.clone();
            let ret = kk.remove(&path, prune);
            json!({"kind": kinds::export(&kk), "ret": kinds::export(&ret)})
        });
        out.insert(name.into(), r.unwrap_or_else(|p| json!({"panic": p})));
    }
    if let Some(k2) = req.get("k2") {
        match kinds::build(k2) {
            Ok(k2) => {
                out.insert("k2".into(), kinds::export(&k2));
                out.insert("union".into(), kinds::export(&k.union(k2.clone())));
                out.insert("union_rev".into(), kinds::export(&k2.union(k.clone())));
                let mut a = k.clone();
                a.merge(
                    k2.clone(),
                    Strategy {
                        collisions: CollisionStrategy::Overwrite,
                    },
                );
                out.insert("merge_overwrite".into(), kinds::export(&a));
                let mut a = k.clone();
                a.merge(
                    k2.clone(),
                    Strategy {
                        collisions: CollisionStrategy::Union,
                    },
                );
                out.insert("merge_union".into(), kinds::export(&a));
                out.insert("sup".into(), json!(k.is_superset(&k2).is_ok()));
                out.insert("sup_rev".into(), json!(k2.is_superset(&k).is_ok()));
                out.insert("intersects".into(), json!(k.intersects(&k2)));
            }
            Err(e) => return json!({"bad_request": e}),
        }
    }
    if let Some(v) = req.get("v") {
        match wire::from_json(v) {
            Ok(v) => {
                let kv = Kind::from(v.clone());
                out.insert("from_v".into(), kinds::export(&kv));
                out.insert("sup_v".into(), json!(k.is_superset(&kv).is_ok()));
                let x = req.get("x").and_then(|x| wire::from_json(x).ok());
                out.insert(
                    "vops".into(),
                    J::Object(value_ops_inner(&v, &path, x.as_ref())),
                );
            }
            Err(e) => return json!({"bad_request": e}),
        }
    }
    if let Some(w) = req.get("w") {
        if let Ok(w) = wire::from_json(w) {
            let kw = Kind::from(w);
            out.insert("from_w".into(), kinds::export(&kw));
            out.insert("sup_w".into(), json!(k.is_superset(&kw).is_ok()));
        }
    }
    J::Object(out)
}

fn first_query_path(text: &str) -> J {
    use vrl::parser::ast::{Expr, QueryTarget, RootExpr};
    let Ok(prog) = vrl::parser::parse(text) else {
        return json!({"rejected": true});
    };
    let roots: Vec<_> = prog.0.iter().collect();
    if roots.len() != 1 {
        return json!({"not_single": roots.len()});
    }
    let RootExpr::Expr(node) = roots[0].inner() else {
        return json!({"not_expr": true});
    };
    let Expr::Query(q) = node.inner() else {
        return json!({"not_query": true});
    };
    let q = q.inner();
    let prefix = match q.target.inner() {
        QueryTarget::External(PathPrefix::Event) => ".",
        QueryTarget::External(PathPrefix::Metadata) => "%",
        _ => return json!({"not_external": true}),
    };
    json!({"prefix": prefix, "segs": segments_json(q.path.inner())})
}

fn jit_target_path(text: &str) -> J {
    match parse_target_path(text) {
        Ok(p) => json!({
            "prefix": match p.prefix { PathPrefix::Event => ".", PathPrefix::Metadata => "%" },
            "segs": segments_json(&p.path),
        }),
        Err(_) => json!({"rejected": true}),
    }
}

/// {"segs":[..], "prefix":"."|"%"|null, "text":str?}
pub fn path_ops(req: &J) -> J {
    let mut out = Map::new();
    if let Some(sj) = req.get("segs") {
        let segs = match parse_segments(sj) {
            Ok(s) => s,
            Err(e) => return json!({"bad_request": e}),
        };
        let vp = OwnedValuePath::from(segs);
        let text = String::from(&vp);
        out.insert("vp_text".into(), json!(text));
        out.insert(
            "vp_reparsed".into(),
            match parse_value_path(&text) {
                Ok(p) => json!({"segs": segments_json(&p), "equal": p == vp}),
                Err(_) => json!({"rejected": true}),
            },
        );
        out.insert(
            "vp_fromstr".into(),
            match OwnedValuePath::from_str(&text) {
                Ok(p) => json!({"equal": p == vp}),
                Err(_) => json!({"rejected": true}),
            },
        );
        for (name, prefix) in [("tp_event", PathPrefix::Event), ("tp_meta", PathPrefix::Metadata)] {
            let tp = OwnedTargetPath {
                prefix,
                path: vp.clone(),
            };
            let text = tp.to_string();
            let reparsed = match parse_target_path(&text) {
                Ok(p) => json!({"segs": segments_json(&p.path), "equal": p == tp}),
                Err(_) => json!({"rejected": true}),
            };
            out.insert(
                name.into(),
                json!({"text": text, "reparsed": reparsed, "vrl": first_query_path(&text)}),
            );
        }
    }
    if let Some(text) = req.get("text").and_then(J::as_str) {
        out.insert("vrl".into(), first_query_path(text));
        out.insert("jit".into(), jit_target_path(text));
    }
    J::Object(out)
}

/// Exhaustive agreement check of the two path parsers over all texts of length <= n over an
/// alphabet, each starting with '.' or '%'. Runs entirely in the worker for speed.
/// {"alphabet":[str..], "maxlen":n, "shard":i, "shards":m}
pub fn path_exhaustive(req: &J) -> J {
    let alphabet: Vec<String> = req["alphabet"]
        .as_array()
        .map(|a| {
            a.iter()
                .filter_map(|x| x.as_str().map(ToString::to_string))
                .collect()
        })
        .unwrap_or_default();
    let maxlen = req["maxlen"].as_u64().unwrap_or(3) as usize;
    let shard = req["shard"].as_u64().unwrap_or(0) as usize;
    let shards = req["shards"].as_u64().unwrap_or(1).max(1) as usize;
    let mut total = 0u64;
    let mut both = 0u64;
    let mut vrl_only = 0u64;
    let mut jit_only = 0u64;
    let mut neither = 0u64;
    let mut disagreements: Vec<J> = Vec::new();
    let mut panics: Vec<J> = Vec::new();
    let mut shapes: std::collections::BTreeSet<String> = std::collections::BTreeSet::new();
    let mut samples: Vec<J> = Vec::new();
    let n = alphabet.len();
    // enumerate all texts as base-n numerals of each length
    for len in 0..=maxlen {
        let count = (n as u64).pow(len as u32);
        for c in 0..count {
            if (c as usize) % shards != shard {
                continue;
            }
            let mut digits = Vec::with_capacity(len);
            let mut cc = c;
            for _ in 0..len {
                digits.push((cc % n as u64) as usize);
                cc /= n as u64;
            }
            for prefix in [".", "%"] {
                let mut text = String::from(prefix);
                for &i in &digits {
                    text.push_str(&alphabet[i]);
                }
                total += 1;
                let r = guarded(|| (first_query_path(&text), jit_target_path(&text)));
                match r {
                    Err(p) => {
                        if panics.len() < 5 {
                            panics.push(json!({"text": text, "panic": p}));
                        }
                    }
                    Ok((v, j)) => {
                        let v_ok = v.get("segs").is_some();
                        let j_ok = j.get("segs").is_some();
                        match (v_ok, j_ok) {
                            (true, true) => {
                                both += 1;
                                let shape: String = v["segs"]
                                    .as_array()
                                    .unwrap()
                                    .iter()
                                    .map(|s| if s.get("f").is_some() { 'f' } else { 'i' })
                                    .collect::<String>()
                                    + if text.contains('"') { "q" } else { "" };
                                if shapes.insert(shape) && samples.len() < 12 {
                                    samples.push(json!({"text": text, "path": v}));
                                }
                                if v != j && disagreements.len() < 10 {
                                    disagreements.push(json!({"text": text, "vrl": v, "jit": j}));
                                }
                            }
                            (true, false) => vrl_only += 1,
                            (false, true) => jit_only += 1,
                            (false, false) => neither += 1,
                        }
                    }
                }
            }
        }
    }
    json!({
        "total": total, "both": both, "vrl_only": vrl_only, "jit_only": jit_only,
        "neither": neither, "disagreements": disagreements, "panics": panics,
        "shapes": shapes.len(), "samples": samples,
    })
}

/// {"name":str,"tz":str,"inputs":[hex-or-str..]}
pub fn conversion(req: &J) -> J {
    let name = req["name"].as_str().unwrap_or("");
    let tz = req["tz"]
        .as_str()
        .and_then(TimeZone::parse)
        .unwrap_or_default();
    let conv = match Conversion::parse(name, tz) {
        Ok(c) => c,
        Err(e) => return json!({"unknown": e.to_string()}),
    };
    let mut outs = Vec::new();
    if let Some(inputs) = req["inputs"].as_array() {
        for i in inputs {
            let bytes: bytes::Bytes = match i {
                J::String(s) => s.clone().into(),
                other => match other.get("b").and_then(J::as_str).map(wire::unhex) {
                    Some(Ok(b)) => b.into(),
                    _ => {
                        outs.push(json!({"bad_request": "input"}));
                        continue;
                    }
                },
            };
            let r = guarded(|| conv.convert::<Value>(bytes));
            outs.push(match r {
                Ok(Ok(v)) => json!({"ok": wire::to_json(&v)}),
                Ok(Err(e)) => json!({"err": e.to_string()}),
                Err(p) => json!({"panic": p}),
            });
        }
    }
    json!({"variant": format!("{conv:?}"), "outs": outs})
}

/// {"queries":[str..]}
pub fn dd(req: &J) -> J {
    use vrl::datadog_search_syntax::QueryNode;
    let mut outs = Vec::new();
    if let Some(qs) = req["queries"].as_array() {
        for q in qs {
            let q = q.as_str().unwrap_or("");
            let r = guarded(|| -> J {
                let Ok(n1) = QueryNode::from_str(q) else {
                    return json!({"rejected": true});
                };
                let text = n1.to_lucene();
                match QueryNode::from_str(&text) {
                    Ok(n2) => json!({
                        "tree": format!("{n1:?}"), "lucene": text,
                        "tree2": format!("{n2:?}"), "equal": n1 == n2,
                    }),
                    Err(e) => json!({
                        "tree": format!("{n1:?}"), "lucene": text,
                        "reparse_error": e.to_string(), "equal": false,
                    }),
                }
            });
            outs.push(r.unwrap_or_else(|p| json!({"panic": p})));
        }
    }
    json!({"outs": outs})
}

/// {"values":[V..]}: serde_json::to_string(&Value) then from_str::<Value>.
pub fn serde_roundtrip(req: &J) -> J {
    let mut outs = Vec::new();
    if let Some(vs) = req["values"].as_array() {
        for v in vs {
            let v = match wire::from_json(v) {
                Ok(v) => v,
                Err(e) => {
                    outs.push(json!({"bad_request": e}));
                    continue;
                }
            };
            let r = guarded(|| -> J {
                let text = match serde_json::to_string(&v) {
                    Ok(t) => t,
                    Err(e) => return json!({"ser_error": e.to_string()}),
                };
                match serde_json::from_str::<Value>(&text) {
                    Ok(back) => json!({"text": text, "back": wire::to_json(&back)}),
                    Err(e) => json!({"text": text, "de_error": e.to_string()}),
                }
            });
            outs.push(r.unwrap_or_else(|p| json!({"panic": p})));
        }
    }
    json!({"outs": outs})
}
