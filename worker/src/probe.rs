//! `probe(tag, value)`: an in-program online monitor implemented as an ordinary custom
//! VRL function (public `Function` trait). Type- and constant-transparent.

use std::cell::RefCell;
use std::collections::BTreeMap;

use serde_json::{Value as J, json};
use vrl::compiler::prelude::*;
use vrl::path::OwnedTargetPath;

use crate::{kinds, wire};

#[derive(Default)]
pub struct ProbeState {
    pub compile: Vec<(String, J)>,
    pub hits: BTreeMap<String, Vec<J>>,
    pub hits_max: usize,
    pub snapshot: bool,
    pub probe_reading: bool,
}

thread_local! {
    pub static PROBE: RefCell<ProbeState> = RefCell::new(ProbeState::default());
}

pub fn reset_compile() {
    PROBE.with(|p| {
        let mut p = p.borrow_mut();
        p.compile.clear();
        p.hits.clear();
    });
}

pub fn reset_hits(hits_max: usize, snapshot: bool) {
    PROBE.with(|p| {
        let mut p = p.borrow_mut();
        p.hits.clear();
        p.hits_max = hits_max;
        p.snapshot = snapshot;
        p.probe_reading = false;
    });
}

pub fn take_compile() -> J {
    PROBE.with(|p| {
        let mut m = serde_json::Map::new();
        for (t, r) in p.borrow_mut().compile.drain(..) {
            m.insert(t, r);
        }
        J::Object(m)
    })
}

pub fn take_hits() -> J {
    PROBE.with(|p| {
        let mut m = serde_json::Map::new();
        let hits = std::mem::take(&mut p.borrow_mut().hits);
        for (t, r) in hits {
            m.insert(t, J::Array(r));
        }
        J::Object(m)
    })
}

pub fn is_probe_reading() -> bool {
    PROBE.with(|p| p.borrow().probe_reading)
}

#[derive(Clone, Copy, Debug)]
pub struct Probe;

impl Function for Probe {
    fn identifier(&self) -> &'static str {
        "probe"
    }

    fn usage(&self) -> &'static str {
        "verification probe"
    }

    fn category(&self) -> &'static str {
        "Debug"
    }

    fn return_kind(&self) -> u16 {
        kind::ANY
    }

    fn examples(&self) -> &'static [Example] {
        &[]
    }

    fn parameters(&self) -> &'static [Parameter] {
        const PARAMETERS: &[Parameter] = &[
            Parameter::required("tag", kind::BYTES, "tag"),
            Parameter::required("value", kind::ANY, "value"),
        ];
        PARAMETERS
    }

    fn compile(
        &self,
        state: &state::TypeState,
        _ctx: &mut FunctionCompileContext,
        arguments: ArgumentList,
    ) -> Compiled {
        let tag = arguments
            .required_literal("tag", state)?
            .try_bytes_utf8_lossy()
            .expect("tag not bytes")
            .to_string();
        let expr = arguments.required_expr("value");
        let td = expr.type_def(state);
        let constant = expr.resolve_constant(state);
        let rec = json!({
            "kind": kinds::export(td.kind()),
            "returns": kinds::export(td.returns()),
            "fallible": td.is_fallible(),
            "const": constant.as_ref().map(|c| json!({"v": wire::to_json(c)})),
            "target": kinds::export(state.external.target_kind()),
            "meta": kinds::export(state.external.metadata_kind()),
            "expr": expr.as_str(),
        });
        PROBE.with(|p| p.borrow_mut().compile.push((tag.clone(), rec)));
        Ok(ProbeFn {
            tag,
            value: Box::new(expr),
            constant,
        }
        .as_expr())
    }
}

#[derive(Debug, Clone)]
struct ProbeFn {
    tag: String,
    value: Box<dyn Expression>,
    constant: Option<Value>,
}

impl FunctionExpression for ProbeFn {
    fn resolve(&self, ctx: &mut Context) -> Resolved {
        let res = self.value.resolve(ctx);
        let (want, snapshot) = PROBE.with(|p| {
            let p = p.borrow();
            (
                p.hits.get(&self.tag).map_or(0, Vec::len) < p.hits_max,
                p.snapshot,
            )
        });
        if want {
            let mut rec = match &res {
                Ok(v) => json!({"v": wire::to_json(v)}),
                Err(ExpressionError::Error { message, .. }) => json!({"e": message}),
                Err(ExpressionError::Abort { message, .. }) => json!({"abort": message}),
                Err(ExpressionError::Return { value, .. }) => {
                    json!({"ret": wire::to_json(value)})
                }
                Err(other) => json!({"other": other.to_string()}),
            };
            if snapshot {
                PROBE.with(|p| p.borrow_mut().probe_reading = true);
                let ev = ctx
                    .target()
                    .target_get(&OwnedTargetPath::event_root())
                    .ok()
                    .flatten()
                    .map(wire::to_json);
                let md = ctx
                    .target()
                    .target_get(&OwnedTargetPath::metadata_root())
                    .ok()
                    .flatten()
                    .map(wire::to_json);
                PROBE.with(|p| p.borrow_mut().probe_reading = false);
                rec["event"] = json!(ev.map(|e| json!({"v": e})));
                rec["meta"] = json!(md.map(|e| json!({"v": e})));
            }
            PROBE.with(|p| {
                p.borrow_mut()
                    .hits
                    .entry(self.tag.clone())
                    .or_default()
                    .push(rec);
            });
        }
        res
    }

    fn type_def(&self, state: &state::TypeState) -> TypeDef {
        self.value.type_def(state)
    }

    fn as_value(&self) -> Option<Value> {
        self.constant.clone()
    }
}
