//! compile + run requests.

use std::sync::Arc;

use serde_json::{Map, Value as J, json};
use vrl::compiler::runtime::{Runtime, Terminate};
use vrl::compiler::state::{ExternalEnv, LocalEnv, RuntimeState, TypeState};
use vrl::compiler::{
    CompileConfig, Context, ExpressionError, Function, Program, TargetValue, TimeZone,
    compile_with_state,
};
use vrl::diagnostic::{DiagnosticList, Formatter};
use vrl::parser::ast::Ident;
use vrl::path::parse_target_path;
use vrl::value::{Kind, Secrets, Value};

use crate::targets::{FaultMode, MonTarget};
use crate::{guarded, kinds, probe, wire};

static FNS_PLAIN: std::sync::LazyLock<Vec<Box<dyn Function>>> =
    std::sync::LazyLock::new(vrl::stdlib::all);
static FNS_PROBE: std::sync::LazyLock<Vec<Box<dyn Function>>> = std::sync::LazyLock::new(|| {
    let mut fns = vrl::stdlib::all();
    fns.push(Box::new(probe::Probe));
    fns
});

/// The function table is built once per process (it is expensive under Miri).
pub fn functions(with_probe: bool) -> &'static [Box<dyn Function>] {
    if with_probe { &FNS_PROBE } else { &FNS_PLAIN }
}

fn target_path_json(p: &vrl::path::OwnedTargetPath) -> J {
    let prefix = match p.prefix {
        vrl::path::PathPrefix::Event => ".",
        vrl::path::PathPrefix::Metadata => "%",
    };
    json!({"prefix": prefix, "segs": crate::ops::segments_json(&p.path)})
}

pub fn diags_json(src: &str, d: &DiagnosticList) -> J {
    let mut out = Vec::new();
    for x in d.iter() {
        let labels: Vec<J> = x
            .labels
            .iter()
            .map(|l| {
                let s = l.span.start();
                let e = l.span.end();
                json!({
                    "msg": l.message, "primary": l.primary, "start": s, "end": e,
                    "start_boundary": src.is_char_boundary(s.min(src.len())) && s <= src.len(),
                    "end_boundary": src.is_char_boundary(e.min(src.len())) && e <= src.len(),
                })
            })
            .collect();
        let notes: Vec<J> = x.notes.iter().map(|n| json!(n.to_string())).collect();
        out.push(json!({
            "sev": format!("{:?}", x.severity).to_lowercase(),
            "code": x.code,
            "msg": x.message,
            "labels": labels,
            "notes": notes,
        }));
    }
    J::Array(out)
}

fn render(src: &str, d: &DiagnosticList) -> J {
    use std::fmt::Write;
    let plain = guarded(|| {
        let mut s = String::new();
        let r = write!(s, "{}", Formatter::new(src, d.clone()));
        (r.is_ok(), s.len())
    });
    let colored = guarded(|| {
        let mut s = String::new();
        let r = write!(s, "{}", Formatter::new(src, d.clone()).colored());
        (r.is_ok(), s.len())
    });
    let f = |r: Result<(bool, usize), J>| match r {
        Ok((ok, len)) => json!({"ok": ok, "len": len}),
        Err(p) => json!({"panic": p}),
    };
    json!({"plain": f(plain), "colored": f(colored)})
}

pub struct Compiled {
    pub program: Option<Program>,
    pub out: Map<String, J>,
}

pub fn build_state(req: &J) -> Result<TypeState, String> {
    let (ek, mk) = match req.get("ext") {
        Some(ext) if !ext.is_null() => (
            match ext.get("event") {
                Some(k) => kinds::build(k)?,
                None => Kind::any_object(),
            },
            match ext.get("meta") {
                Some(k) => kinds::build(k)?,
                None => Kind::any_object(),
            },
        ),
        _ => (Kind::any_object(), Kind::any_object()),
    };
    Ok(TypeState {
        local: LocalEnv::default(),
        external: ExternalEnv::new_with_kind(ek, mk),
    })
}

pub fn build_config(req: &J) -> Result<CompileConfig, String> {
    let mut config = CompileConfig::default();
    if let Some(ro) = req.get("ro").and_then(J::as_array) {
        for e in ro {
            let p = e.get(0).and_then(J::as_str).ok_or("ro path")?;
            let rec = e.get(1).and_then(J::as_bool).unwrap_or(false);
            let path = parse_target_path(p).map_err(|e| e.to_string())?;
            config.set_read_only_path(path, rec);
        }
    }
    if req.get("check_unused").and_then(J::as_bool) == Some(false) {
        config.disable_unused_expression_check();
    }
    Ok(config)
}

pub fn compile(req: &J) -> Compiled {
    let mut out = Map::new();
    let src = req.get("src").and_then(J::as_str).unwrap_or("");
    let with_probe = req.get("probe").and_then(J::as_bool).unwrap_or(true);
    let want_render = req.get("render").and_then(J::as_bool).unwrap_or(false);
    let state = match build_state(req) {
        Ok(s) => s,
        Err(e) => {
            out.insert("bad_request".into(), json!(e));
            return Compiled { program: None, out };
        }
    };
    let config = match build_config(req) {
        Ok(s) => s,
        Err(e) => {
            out.insert("bad_request".into(), json!(e));
            return Compiled { program: None, out };
        }
    };
    probe::reset_compile();
    let fns = functions(with_probe);
    let res = guarded(|| compile_with_state(src, fns, &state, config));
    match res {
        Err(p) => {
            out.insert("panic".into(), p);
            out.insert("where".into(), json!("compile"));
            Compiled { program: None, out }
        }
        Ok(Err(diags)) => {
            out.insert("compiled".into(), json!(false));
            out.insert("diags".into(), diags_json(src, &diags));
            if want_render {
                out.insert("render".into(), render(src, &diags));
            }
            Compiled { program: None, out }
        }
        Ok(Ok(result)) => {
            out.insert("compiled".into(), json!(true));
            out.insert("diags".into(), diags_json(src, &result.warnings));
            if want_render {
                out.insert("render".into(), render(src, &result.warnings));
            }
            let program = result.program;
            let info = program.info();
            out.insert(
                "info".into(),
                json!({
                    "fallible": info.fallible,
                    "abortable": info.abortable,
                    "queries": info.target_queries.iter().map(ToString::to_string).collect::<Vec<_>>(),
                    "assignments": info.target_assignments.iter().map(ToString::to_string).collect::<Vec<_>>(),
                    "query_paths": info.target_queries.iter().map(target_path_json).collect::<Vec<_>>(),
                    "assignment_paths": info.target_assignments.iter().map(target_path_json).collect::<Vec<_>>(),
                }),
            );
            let ti = guarded(|| program.final_type_info());
            match ti {
                Ok(ti) => {
                    out.insert(
                        "type".into(),
                        json!({
                            "kind": kinds::export(ti.result.kind()),
                            "returns": kinds::export(ti.result.returns()),
                            "fallible": ti.result.is_fallible(),
                            "target": kinds::export(ti.state.external.target_kind()),
                            "meta": kinds::export(ti.state.external.metadata_kind()),
                        }),
                    );
                }
                Err(p) => {
                    out.insert("panic".into(), p);
                    out.insert("where".into(), json!("final_type_info"));
                }
            }
            out.insert("probes".into(), probe::take_compile());
            Compiled {
                program: Some(program),
                out,
            }
        }
    }
}

pub fn outcome_json(r: &Result<Value, ExpressionError>) -> J {
    match r {
        Ok(v) => json!({"ok": wire::to_json(v)}),
        Err(ExpressionError::Return { value, .. }) => json!({"ret": wire::to_json(value)}),
        Err(ExpressionError::Abort { message, .. }) => json!({"abort": message}),
        Err(ExpressionError::Error { message, .. }) => json!({"error": message}),
        Err(e @ ExpressionError::Fallible { .. }) => json!({"abort_other": e.to_string()}),
        Err(e @ ExpressionError::Missing { .. }) => json!({"abort_other": e.to_string()}),
    }
}

pub fn terminate_json(r: &Result<Value, Terminate>) -> J {
    match r {
        Ok(v) => json!({"ok": wire::to_json(v)}),
        Err(Terminate::Abort(ExpressionError::Abort { message, .. })) => {
            json!({"abort": message})
        }
        Err(Terminate::Abort(e)) => json!({"abort_other": e.to_string()}),
        Err(Terminate::Error(e)) => json!({"error": e.to_string()}),
    }
}

fn parse_tz(req: &J) -> TimeZone {
    req.get("tz")
        .and_then(J::as_str)
        .and_then(TimeZone::parse)
        .unwrap_or_default()
}

pub fn run(req: &J) -> J {
    let c = compile(req);
    let mut out = c.out;
    let Some(program) = c.program else {
        return J::Object(out);
    };
    let tz = parse_tz(req);
    let via_runtime = req.get("via").and_then(J::as_str) == Some("runtime");
    let log_ops = req.get("log_ops").and_then(J::as_bool).unwrap_or(false);
    let hits_max = req.get("hits_max").and_then(J::as_u64).unwrap_or(4) as usize;
    let snapshot = req.get("snapshot").and_then(J::as_bool).unwrap_or(false);
    let vars: Vec<String> = req
        .get("vars")
        .and_then(J::as_array)
        .map(|a| {
            a.iter()
                .filter_map(|x| x.as_str().map(ToString::to_string))
                .collect()
        })
        .unwrap_or_default();
    let mut runs = Vec::new();
    if let Some(events) = req.get("events").and_then(J::as_array) {
        for ev in events {
            let e = match wire::from_json(ev.get("e").unwrap_or(&J::Null)) {
                Ok(v) => v,
                Err(err) => {
                    runs.push(json!({"bad_request": err}));
                    continue;
                }
            };
            let m = match ev.get("m") {
                Some(m) => match wire::from_json(m) {
                    Ok(v) => v,
                    Err(err) => {
                        runs.push(json!({"bad_request": err}));
                        continue;
                    }
                },
                None => Value::Object(Default::default()),
            };
            let mut target = MonTarget::new(e, m);
            target.log_ops = log_ops;
            if let Some(f) = ev.get("faults").and_then(J::as_array) {
                target.faults = f.iter().filter_map(|x| x.as_u64().map(|v| v as usize)).collect();
                target.mode = match ev.get("fault_mode").and_then(J::as_str) {
                    Some("skip") => FaultMode::Skip,
                    _ => FaultMode::Err,
                };
            }
            probe::reset_hits(hits_max, snapshot);
            let mut state = RuntimeState::default();
            let mut rec = Map::new();
            let res = guarded(|| {
                if via_runtime {
                    let mut rt = Runtime::new(std::mem::take(&mut state));
                    let r = rt.resolve(&mut target, &program, &tz);
                    terminate_json(&r)
                } else {
                    let mut ctx = Context::new(&mut target, &mut state, &tz);
                    let r = program.resolve(&mut ctx);
                    outcome_json(&r)
                }
            });
            match res {
                Ok(o) => {
                    rec.insert("out".into(), o);
                }
                Err(p) => {
                    rec.insert("panic".into(), p);
                }
            }
            rec.insert("event".into(), wire::to_json(&target.value));
            rec.insert("meta".into(), wire::to_json(&target.metadata));
            if !vars.is_empty() && !via_runtime {
                let mut vm = Map::new();
                for name in &vars {
                    let v = state.variable(&Ident::new(name.clone()));
                    vm.insert(
                        name.clone(),
                        match v {
                            Some(v) => json!({"v": wire::to_json(v)}),
                            None => J::Null,
                        },
                    );
                }
                rec.insert("vars".into(), J::Object(vm));
            }
            rec.insert("hits".into(), probe::take_hits());
            if log_ops {
                rec.insert("ops".into(), J::Array(target.ops.take()));
            }
            rec.insert("nops".into(), json!(target.counter.get()));
            runs.push(J::Object(rec));
        }
    }
    out.insert("runs".into(), J::Array(runs));
    J::Object(out)
}

fn plain_run(program: &Program, rt: &mut Runtime, e: &Value, m: &Value, tz: &TimeZone) -> J {
    let mut target = TargetValue {
        value: e.clone(),
        metadata: m.clone(),
        secrets: Secrets::default(),
    };
    let r = guarded(|| rt.resolve(&mut target, program, tz));
    match r {
        Ok(r) => json!({
            "out": terminate_json(&r),
            "event": wire::to_json(&target.value),
            "meta": wire::to_json(&target.metadata),
        }),
        Err(p) => json!({"panic": p}),
    }
}

fn parse_events(req: &J, key: &str) -> Result<Vec<(Value, Value)>, String> {
    let mut evs = Vec::new();
    if let Some(events) = req.get(key).and_then(J::as_array) {
        for ev in events {
            let e = wire::from_json(ev.get("e").unwrap_or(&J::Null))?;
            let m = match ev.get("m") {
                Some(m) => wire::from_json(m)?,
                None => Value::Object(Default::default()),
            };
            evs.push((e, m));
        }
    }
    Ok(evs)
}

/// C14 (c): T threads share one Arc<Program>; each runs all events `rounds` times with
/// yield injection, and every observation is compared (by the caller) to the sequential one.
pub fn threads(req: &J) -> J {
    let c = compile(req);
    let mut out = c.out;
    let Some(program) = c.program else {
        return J::Object(out);
    };
    let tz = parse_tz(req);
    let evs = match parse_events(req, "events") {
        Ok(e) => e,
        Err(e) => return json!({"bad_request": e}),
    };
    let nthreads = req.get("threads").and_then(J::as_u64).unwrap_or(8) as usize;
    let rounds = req.get("rounds").and_then(J::as_u64).unwrap_or(4) as usize;
    let yield_mask = req.get("yield_mask").and_then(J::as_u64).unwrap_or(0);
    // sequential baseline on a fresh runtime per event
    let mut baseline = Vec::new();
    for (e, m) in &evs {
        let mut rt = Runtime::default();
        baseline.push(plain_run(&program, &mut rt, e, m, &tz).to_string());
    }
    let program = Arc::new(program);
    let evs = Arc::new(evs);
    let baseline = Arc::new(baseline);
    let barrier = Arc::new(std::sync::Barrier::new(nthreads));
    let mut handles = Vec::new();
    for t in 0..nthreads {
        let program = Arc::clone(&program);
        let evs = Arc::clone(&evs);
        let baseline = Arc::clone(&baseline);
        let barrier = Arc::clone(&barrier);
        let tz = tz.clone();
        handles.push(std::thread::spawn(move || {
            let mut mismatches: Vec<J> = Vec::new();
            let mut runs = 0usize;
            let mut rt = Runtime::default();
            barrier.wait();
            for r in 0..rounds {
                for i in 0..evs.len() {
                    // each thread walks the events in a different rotation
                    let idx = (i + t * 7 + r * 3) % evs.len();
                    let (e, m) = &evs[idx];
                    if (yield_mask >> ((t + i + r) % 64)) & 1 == 1 {
                        std::thread::yield_now();
                    }
                    let got = plain_run(&program, &mut rt, e, m, &tz).to_string();
                    rt.clear();
                    runs += 1;
                    if got != baseline[idx] && mismatches.len() < 3 {
                        mismatches.push(json!({"thread": t, "round": r, "event": idx,
                            "got": got, "want": baseline[idx]}));
                    }
                }
            }
            (runs, mismatches)
        }));
    }
    let mut total = 0usize;
    let mut mismatches = Vec::new();
    let mut thread_panics = 0usize;
    for h in handles {
        match h.join() {
            Ok((n, mm)) => {
                total += n;
                mismatches.extend(mm);
            }
            Err(_) => thread_panics += 1,
        }
    }
    out.insert("baseline".into(), json!(baseline.as_ref()));
    out.insert("thread_runs".into(), json!(total));
    out.insert("mismatches".into(), J::Array(mismatches));
    out.insert("thread_panics".into(), json!(thread_panics));
    J::Object(out)
}

/// C14 (a)+(b): compile twice; run each event on a fresh runtime and on one runtime that has
/// processed the `history` events before (cleared between events).
pub fn reuse(req: &J) -> J {
    let c1 = compile(req);
    let c2 = compile(req);
    let mut out = Map::new();
    let j1 = J::Object(c1.out.clone());
    let j2 = J::Object(c2.out);
    out.insert("compile_equal".into(), json!(j1 == j2));
    if j1 != j2 {
        out.insert("compile_a".into(), j1.clone());
        out.insert("compile_b".into(), j2);
    }
    out.insert("compile".into(), j1);
    let (Some(p1), Some(p2)) = (c1.program, c2.program) else {
        return J::Object(out);
    };
    let tz = parse_tz(req);
    let evs = match parse_events(req, "events") {
        Ok(e) => e,
        Err(e) => return json!({"bad_request": e}),
    };
    let hist = match parse_events(req, "history") {
        Ok(e) => e,
        Err(e) => return json!({"bad_request": e}),
    };
    let clear = req.get("clear").and_then(J::as_bool).unwrap_or(true);
    let mut fresh = Vec::new();
    let mut fresh2 = Vec::new();
    for (e, m) in &evs {
        let mut rt = Runtime::default();
        fresh.push(plain_run(&p1, &mut rt, e, m, &tz));
        let mut rt = Runtime::default();
        fresh2.push(plain_run(&p2, &mut rt, e, m, &tz));
    }
    let mut reused = Vec::new();
    let mut rt = Runtime::default();
    let mut not_empty_after_clear = 0usize;
    for (k, (e, m)) in evs.iter().enumerate() {
        // interleave history events before each observed event
        for (he, hm) in hist.iter().skip(k % hist.len().max(1)).take(3) {
            let _ = plain_run(&p1, &mut rt, he, hm, &tz);
            if clear {
                rt.clear();
                if !rt.is_empty() {
                    not_empty_after_clear += 1;
                }
            }
        }
        reused.push(plain_run(&p1, &mut rt, e, m, &tz));
        if clear {
            rt.clear();
        }
    }
    out.insert("fresh".into(), J::Array(fresh));
    out.insert("fresh2".into(), J::Array(fresh2));
    out.insert("reused".into(), J::Array(reused));
    out.insert("not_empty_after_clear".into(), json!(not_empty_after_clear));
    J::Object(out)
}
