//! MonTarget: a `Target` that logs every operation and can reject ("err") or silently skip
//! ("skip") a chosen set of operations, counted in issue order. Reads issued by probes are
//! bracketed by the probe flag and are neither logged nor counted.

use std::collections::BTreeSet;

use serde_json::{Value as J, json};
use vrl::compiler::{SecretTarget, Target};
use vrl::path::{OwnedTargetPath, PathPrefix};
use vrl::value::{Secrets, Value};

use crate::probe::is_probe_reading;

#[derive(Clone, Copy, PartialEq, Eq, Debug)]
pub enum FaultMode {
    None,
    Err,
    Skip,
}

#[derive(Debug)]
pub struct MonTarget {
    pub value: Value,
    pub metadata: Value,
    pub secrets: Secrets,
    pub log_ops: bool,
    pub ops: std::cell::RefCell<Vec<J>>,
    pub counter: std::cell::Cell<usize>,
    pub faults: BTreeSet<usize>,
    pub mode: FaultMode,
}

impl MonTarget {
    pub fn new(value: Value, metadata: Value) -> Self {
        Self {
            value,
            metadata,
            secrets: Secrets::default(),
            log_ops: false,
            ops: std::cell::RefCell::new(Vec::new()),
            counter: std::cell::Cell::new(0),
            faults: BTreeSet::new(),
            mode: FaultMode::None,
        }
    }

    /// Returns Some(mode) if this op is to be faulted.
    fn step(&self, kind: &str, path: &OwnedTargetPath, extra: J) -> bool {
        if is_probe_reading() {
            return false;
        }
        let n = self.counter.get();
        self.counter.set(n + 1);
        let faulted = self.mode != FaultMode::None && self.faults.contains(&n);
        if self.log_ops {
            let prefix = match path.prefix {
                PathPrefix::Event => ".",
                PathPrefix::Metadata => "%",
            };
            self.ops.borrow_mut().push(json!([
                kind,
                path.to_string(),
                extra,
                faulted,
                {"prefix": prefix, "segs": crate::ops::segments_json(&path.path)}
            ]));
        }
        faulted
    }
}

impl Target for MonTarget {
    fn target_insert(&mut self, path: &OwnedTargetPath, value: Value) -> Result<(), String> {
        if self.step("insert", path, J::Null) {
            return match self.mode {
                FaultMode::Err => Err("injected insert fault".into()),
                _ => Ok(()),
            };
        }
        match path.prefix {
            PathPrefix::Event => self.value.insert(&path.path, value),
            PathPrefix::Metadata => self.metadata.insert(&path.path, value),
        };
        Ok(())
    }

    fn target_get(&self, path: &OwnedTargetPath) -> Result<Option<&Value>, String> {
        let v = match path.prefix {
            PathPrefix::Event => self.value.get(&path.path),
            PathPrefix::Metadata => self.metadata.get(&path.path),
        };
        if self.step("get", path, json!(v.is_some())) {
            return match self.mode {
                FaultMode::Err => Err("injected get fault".into()),
                _ => Ok(None),
            };
        }
        Ok(v)
    }

    fn target_get_mut(&mut self, path: &OwnedTargetPath) -> Result<Option<&mut Value>, String> {
        if self.step("get_mut", path, J::Null) {
            return match self.mode {
                FaultMode::Err => Err("injected get_mut fault".into()),
                _ => Ok(None),
            };
        }
        let v = match path.prefix {
            PathPrefix::Event => self.value.get_mut(&path.path),
            PathPrefix::Metadata => self.metadata.get_mut(&path.path),
        };
        Ok(v)
    }

    fn target_remove(
        &mut self,
        path: &OwnedTargetPath,
        compact: bool,
    ) -> Result<Option<Value>, String> {
        if self.step("remove", path, json!(compact)) {
            return match self.mode {
                FaultMode::Err => Err("injected remove fault".into()),
                _ => Ok(None),
            };
        }
        let prev = match path.prefix {
            PathPrefix::Event => self.value.remove(&path.path, compact),
            PathPrefix::Metadata => self.metadata.remove(&path.path, compact),
        };
        Ok(prev)
    }
}

impl SecretTarget for MonTarget {
    fn get_secret(&self, key: &str) -> Option<&str> {
        self.secrets.get_secret(key)
    }

    fn insert_secret(&mut self, key: &str, value: &str) {
        self.secrets.insert_secret(key, value);
    }

    fn remove_secret(&mut self, key: &str) {
        self.secrets.remove_secret(key);
    }
}
