//! Lossless Value <-> JSON wire format.
//!
//! null, true/false, JSON integers (i64), JSON strings (UTF-8 bytes), JSON arrays,
//! {"o":{..}} objects, {"f":bits} floats, {"b":hex} non-UTF-8 bytes, {"t":[secs,nanos]}
//! timestamps, {"r":src} regexes.

use std::collections::BTreeMap;

use chrono::{DateTime, TimeZone, Utc};
use ordered_float::NotNan;
use serde_json::{Map, Value as J, json};
use vrl::value::{KeyString, Value, ValueRegex};

pub fn hex(b: &[u8]) -> String {
    const T: &[u8; 16] = b"0123456789abcdef";
    let mut s = String::with_capacity(b.len() * 2);
    for x in b {
        s.push(T[(x >> 4) as usize] as char);
        s.push(T[(x & 15) as usize] as char);
    }
    s
}

pub fn unhex(s: &str) -> Result<Vec<u8>, String> {
    let b = s.as_bytes();
    if b.len() % 2 != 0 {
        return Err("odd hex".into());
    }
    let n = |c: u8| -> Result<u8, String> {
        match c {
            b'0'..=b'9' => Ok(c - b'0'),
            b'a'..=b'f' => Ok(c - b'a' + 10),
            b'A'..=b'F' => Ok(c - b'A' + 10),
            _ => Err("bad hex".into()),
        }
    };
    let mut out = Vec::with_capacity(b.len() / 2);
    for p in b.chunks(2) {
        out.push(n(p[0])? << 4 | n(p[1])?);
    }
    Ok(out)
}

pub fn to_json(v: &Value) -> J {
    match v {
        Value::Null => J::Null,
        Value::Boolean(b) => J::Bool(*b),
        Value::Integer(i) => json!(*i),
        Value::Float(f) => json!({"f": f.into_inner().to_bits()}),
        Value::Bytes(b) => match std::str::from_utf8(b) {
            Ok(s) => J::String(s.to_owned()),
            Err(_) => json!({"b": hex(b)}),
        },
        Value::Timestamp(t) => json!({"t": [t.timestamp(), t.timestamp_subsec_nanos()]}),
        Value::Regex(r) => json!({"r": r.as_str()}),
        Value::Array(a) => J::Array(a.iter().map(to_json).collect()),
        Value::Object(o) => {
            let mut m = Map::new();
            for (k, v) in o {
                m.insert(k.to_string(), to_json(v));
            }
            json!({"o": J::Object(m)})
        }
    }
}

pub fn from_json(j: &J) -> Result<Value, String> {
    Ok(match j {
        J::Null => Value::Null,
        J::Bool(b) => Value::Boolean(*b),
        J::Number(n) => {
            if let Some(i) = n.as_i64() {
                Value::Integer(i)
            } else {
                return Err(format!("bad number {n}"));
            }
        }
        J::String(s) => Value::Bytes(s.clone().into()),
        J::Array(a) => Value::Array(a.iter().map(from_json).collect::<Result<_, _>>()?),
        J::Object(m) => {
            if m.len() != 1 {
                return Err("tagged object must have one key".into());
            }
            let (k, v) = m.iter().next().unwrap();
            match k.as_str() {
                "o" => {
                    let mut out: BTreeMap<KeyString, Value> = BTreeMap::new();
                    for (k, v) in v.as_object().ok_or("o: not object")? {
                        out.insert(k.as_str().into(), from_json(v)?);
                    }
                    Value::Object(out)
                }
                "f" => {
                    let bits = v.as_u64().ok_or("f: not u64")?;
                    let f = f64::from_bits(bits);
                    Value::Float(NotNan::new(f).map_err(|_| "f: NaN".to_string())?)
                }
                "b" => Value::Bytes(unhex(v.as_str().ok_or("b: not str")?)?.into()),
                "t" => {
                    let a = v.as_array().ok_or("t: not array")?;
                    let s = a.first().and_then(J::as_i64).ok_or("t: secs")?;
                    let n = a.get(1).and_then(J::as_u64).ok_or("t: nanos")?;
                    let dt: DateTime<Utc> = Utc
                        .timestamp_opt(s, n as u32)
                        .single()
                        .ok_or("t: out of range")?;
                    Value::Timestamp(dt)
                }
                "r" => {
                    let re = regex::Regex::new(v.as_str().ok_or("r: not str")?)
                        .map_err(|e| e.to_string())?;
                    Value::Regex(ValueRegex::new(re.into()))
                }
                _ => return Err(format!("unknown tag {k}")),
            }
        }
    })
}
